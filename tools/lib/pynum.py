"""T-num: a fail-closed translator from the numeric subset of Python used by simaple's
stat algebra / damage / cooldown / table code into Coq, in two instances:

  * `Q` : exact rationals (`QArith`), the instance the theorems are about; a decimal float
    literal becomes the rational it spells (0.01 -> 1#100), an int literal n -> n#1;
  * `F` : binary64 (`PrimFloat`), literals in hex, same evaluation order -- the twin that
    is compared bit-for-bit with CPython to validate the translation itself.

Anything outside the recognised subset raises `Unsupported` (never a guess).

Subset: classes with annotated float/int fields (pydantic models) and class constants set
to literals in `__init__`; methods made of `return e`, `x = e`, `x op= e`, `self.f op= e`
(sequential record update), `if/elif/else` (returning or assigning), `for v in xs:` with
accumulator updates, `raise` (only reachable statically-dead or as an option failure);
expressions over + - * / // unary -, min, max, float(), comparisons, and/or/not, ternary,
field reads, constructor calls with keywords, method calls (callee specialised on enum
constants), `sum([e for v in xs])`, list literals of numbers, `xs[i]` (option result).
"""
from __future__ import annotations

import ast
from fractions import Fraction


class Unsupported(Exception):
    pass


def fail(node, msg):
    line = getattr(node, "lineno", "?")
    raise Unsupported("line %s: %s: %s" % (line, msg, ast.dump(node)[:200] if isinstance(node, ast.AST) else node))


class ClassInfo:
    def __init__(self, name, node, module):
        self.name = name
        self.node = node
        self.module = module
        self.bases = [b.id for b in node.bases if isinstance(b, ast.Name)]
        self.fields = []       # (name, annotation-id, default-ast or None)
        self.methods = {}
        self.consts = {}       # name -> ast literal (from __init__: self.x = literal)
        self.is_enum = any(isinstance(b, ast.Attribute) and b.attr == "Enum" for b in node.bases)
        self.enum_members = []
        self.str_consts = {}
        for st in node.body:
            if isinstance(st, ast.AnnAssign) and isinstance(st.target, ast.Name):
                ann = ast.unparse(st.annotation)
                if st.target.id == "model_config":
                    continue
                self.fields.append((st.target.id, ann, st.value))
            elif isinstance(st, ast.Assign) and self.is_enum:
                for t in st.targets:
                    self.enum_members.append(t.id)
            elif (isinstance(st, ast.Assign) and len(st.targets) == 1 and isinstance(st.targets[0], ast.Name)
                  and isinstance(st.value, ast.Constant) and isinstance(st.value.value, str)):
                self.str_consts[st.targets[0].id] = st.value.value
            elif isinstance(st, ast.FunctionDef):
                self.methods[st.name] = st
                if st.name == "__init__":
                    for s in st.body:
                        tgt = None
                        if isinstance(s, ast.Assign) and len(s.targets) == 1:
                            tgt, val = s.targets[0], s.value
                        elif isinstance(s, ast.AnnAssign):
                            tgt, val = s.target, s.value
                        if (tgt is not None and isinstance(tgt, ast.Attribute)
                                and isinstance(tgt.value, ast.Name) and tgt.value.id == "self"):
                            self.consts[tgt.attr] = val


class World:
    """Parsed classes of a set of source files."""

    def __init__(self):
        self.classes = {}
        self.funcs = {}
        self.module_consts = {}

    def add_source(self, path, text=None):
        text = text if text is not None else open(path).read()
        mod = ast.parse(text)
        for st in mod.body:
            if isinstance(st, ast.ClassDef):
                self.classes[st.name] = ClassInfo(st.name, st, path)
            elif isinstance(st, ast.FunctionDef):
                self.funcs[st.name] = st
            elif isinstance(st, ast.Assign) and len(st.targets) == 1 and isinstance(st.targets[0], ast.Name):
                self.module_consts[st.targets[0].id] = st.value
            elif isinstance(st, ast.AnnAssign) and isinstance(st.target, ast.Name) and st.value is not None:
                self.module_consts[st.target.id] = st.value
        return mod

    def mro(self, cname):
        out = []

        def go(c):
            if c in out or c not in self.classes:
                return
            out.append(c)
            for b in self.classes[c].bases:
                go(b)
        go(cname)
        return out

    def all_fields(self, cname):
        fs = []
        for c in reversed(self.mro(cname)):
            for f in self.classes[c].fields:
                names = [x[0] for x in fs]
                if f[0] in names:
                    fs[names.index(f[0])] = f      # redefinition in a subclass wins
                else:
                    fs.append(f)
        return fs

    def specialise(self, newname, base, field_types: dict):
        """A synthetic subclass of `base` whose abstractly-typed fields get concrete classes."""
        node = ast.parse("class %s(%s):\n%s" % (newname, base, "\n".join(
            "    %s: %s" % (f, t) for f, t in field_types.items()))).body[0]
        self.classes[newname] = ClassInfo(newname, node, "<synthetic>")
        return newname

    def find_method(self, cname, m):
        for c in self.mro(cname):
            if m in self.classes[c].methods:
                return c, self.classes[c].methods[m]
        return None, None

    def find_const(self, cname, a):
        for c in self.mro(cname):
            if a in self.classes[c].consts:
                return self.classes[c].consts[a]
        return None


# types: 'Q', 'B', ('rec', cls), ('list', T), ('opt', T), ('enum', (Cls, member)), ('tuple', [T..])
def is_rec(t):
    return isinstance(t, tuple) and t[0] == "rec"


class Translator:
    def __init__(self, world: World, record_name=None):
        self.w = world
        self.defs = []           # emitted (kind, name, ir-ish) in dependency order
        self.done = {}           # key -> (coq name, return type)
        self.records = []        # class names emitted as records
        self.tables = {}         # literal class-constant lists emitted as definitions
        self.record_name = record_name or (lambda c: c)

    # ------------------------------------------------------------------ records
    def need_record(self, cname):
        if cname in self.records:
            return
        fs = self.w.all_fields(cname)
        for (f, ann, _d) in fs:
            if ann in ("float", "int", "str"):
                continue
            if ann in self.w.classes and not self.w.classes[ann].is_enum:
                self.need_record(ann)
                continue
            raise Unsupported("field %s.%s : %s" % (cname, f, ann))
        self.records.append(cname)

    def field_type(self, cname, f):
        for (n, ann, _d) in self.w.all_fields(cname):
            if n == f:
                return "Q" if ann in ("float", "int") else ("S" if ann == "str" else ("rec", ann))
        return None

    def field_default(self, cname, f):
        for (n, ann, d) in self.w.all_fields(cname):
            if n == f:
                if d is None:
                    return None
                if isinstance(d, ast.Constant):
                    return ("num", repr(d.value))
                if isinstance(d, ast.Call) and ast.unparse(d.func) == "Field":
                    for kw in d.keywords:
                        if kw.arg == "default_factory" and isinstance(kw.value, ast.Name):
                            return ("ctor", kw.value.id, self.default_fields(kw.value.id, {}, d))
                fail(d, "default of %s.%s" % (cname, f))
        return None

    def default_fields(self, cname, given, node):
        self.need_record(cname)
        out = []
        for (n, ann, d) in self.w.all_fields(cname):
            if n in given:
                out.append((n, given[n]))
            else:
                dv = self.field_default(cname, n)
                if dv is None:
                    fail(node, "constructor %s misses required field %s" % (cname, n))
                out.append((n, dv))
        extra = set(given) - {n for (n, _a, _d) in self.w.all_fields(cname)}
        if extra:
            fail(node, "constructor %s got unknown fields %s" % (cname, sorted(extra)))
        return out

    # ------------------------------------------------------------------ methods
    def method(self, cname, mname, static_args=()):
        """Translate cname.mname specialised on static (enum) args; returns (coqname, params, rettype)."""
        key = (cname, mname, tuple(static_args))
        if key in self.done:
            return self.done[key]
        owner, fn = self.w.find_method(cname, mname)
        if fn is None:
            raise Unsupported("no method %s.%s" % (cname, mname))
        suffix = "".join("_" + v[1] for (_i, v) in static_args)
        coqname = "%s_%s%s" % (cname, mname.strip("_"), suffix)
        self.done[key] = (coqname, None, None)   # recursion guard
        is_cls = any(isinstance(d, ast.Name) and d.id == "classmethod" for d in fn.decorator_list)
        env = {}
        params = []
        args = fn.args.args
        static = dict(static_args)
        if not is_cls:
            self.need_record(cname)
            env["self"] = (("var", "self"), ("rec", cname))
            params.append(("self", ("rec", cname)))
        for i, a in enumerate(args[1:]):
            ann = ast.unparse(a.annotation) if a.annotation is not None else None
            if i in static:
                env[a.arg] = (None, ("enum", static[i]))
                continue
            if ann in (None, "float", "int"):
                t = "Q"
            elif ann in self.w.classes:
                t = ("rec", ann)
                self.need_record(ann)
            elif ann.startswith("list[") and ann[5:-1] in self.w.classes:
                t = ("list", ("rec", ann[5:-1]))
                self.need_record(ann[5:-1])
            elif ann == "bool":
                t = "B"
            elif ann == "str":
                t = "S"
            else:
                raise Unsupported("parameter %s of %s.%s : %s" % (a.arg, cname, mname, ann))
            env[a.arg] = (("var", a.arg), t)
            params.append((a.arg, t))
        fx = FuncTr(self, cname, env)
        body, rt = fx.block(fn.body, None)
        self.defs.append(("def", coqname, params, rt, body))
        self.done[key] = (coqname, params, rt)
        return self.done[key]

    def defaults_of(self, cname, mname):
        _o, fn = self.w.find_method(cname, mname)
        args = fn.args.args[1:]
        ds = fn.args.defaults
        out = {}
        for a, d in zip(args[len(args) - len(ds):], ds):
            out[a.arg] = d
        return [a.arg for a in args], out


BINOPS = {ast.Add: "+", ast.Sub: "-", ast.Mult: "*", ast.Div: "/"}
CMPOPS = {ast.Lt: "<", ast.LtE: "<=", ast.Gt: ">", ast.GtE: ">=", ast.Eq: "==", ast.NotEq: "!="}


class FuncTr:
    def __init__(self, tr: Translator, cname, env):
        self.tr = tr
        self.w = tr.w
        self.cname = cname
        self.env = dict(env)
        self.selffields = None   # for __iadd__-style in-place updates: field -> local var
        self.alias_names = set() # parameters that denote the SAME object as self (the `s += s` reading of an in-place method)

    # ------------------------------------------------------------ static evaluation
    def static(self, e):
        """Enum constant denoted by e, or None."""
        if isinstance(e, ast.Attribute) and isinstance(e.value, ast.Name):
            c = self.w.classes.get(e.value.id)
            if c is not None and c.is_enum and e.attr in c.enum_members:
                return (c.name, e.attr)
        if isinstance(e, ast.Name) and e.id in self.env and isinstance(self.env[e.id][1], tuple) \
                and self.env[e.id][1][0] == "enum":
            return self.env[e.id][1][1]
        if isinstance(e, ast.Call) and isinstance(e.func, ast.Attribute) and isinstance(e.func.value, ast.Name) \
                and e.func.value.id == "self" and not e.args and not e.keywords:
            _o, fn = self.w.find_method(self.cname, e.func.attr)
            if fn is not None and len(fn.body) >= 1:
                body = [s for s in fn.body if not (isinstance(s, ast.Expr) and isinstance(s.value, ast.Constant))]
                if len(body) == 1 and isinstance(body[0], ast.Return):
                    return self.static(body[0].value)
        return None

    def static_test(self, t):
        """True/False if the test is decided statically, else None."""
        if isinstance(t, ast.Compare) and len(t.ops) == 1 and isinstance(t.ops[0], (ast.Eq, ast.NotEq)):
            a, b = self.static(t.left), self.static(t.comparators[0])
            if a is not None and b is not None:
                r = a == b
                return r if isinstance(t.ops[0], ast.Eq) else not r
        return None

    # ------------------------------------------------------------ expressions
    def expr(self, e):
        if isinstance(e, ast.Constant):
            if isinstance(e.value, bool):
                return ("bool", e.value), "B"
            if isinstance(e.value, (int, float)):
                return ("num", repr(e.value)), "Q"
            if isinstance(e.value, str):
                return ("str", e.value), "S"
            fail(e, "constant")
        if isinstance(e, ast.Name):
            if e.id in self.env:
                ir, t = self.env[e.id]
                if ir is None:
                    fail(e, "static value used dynamically")
                return ir, t
            fail(e, "unknown name")
        if isinstance(e, ast.UnaryOp):
            if isinstance(e.op, ast.USub):
                a, t = self.expr(e.operand)
                self.want(t, "Q", e)
                return ("neg", a), "Q"
            if isinstance(e.op, ast.Not):
                a, t = self.expr(e.operand)
                self.want(t, "B", e)
                return ("not", a), "B"
            fail(e, "unary op")
        if isinstance(e, ast.BinOp):
            a, ta = self.expr(e.left)
            b, tb = self.expr(e.right)
            if type(e.op) in BINOPS:
                if is_rec(ta) and isinstance(e.op, ast.Add):
                    if ta != tb:
                        fail(e, "record + of different types")
                    name, _p, rt = self.tr.method(ta[1], "__add__")
                    return ("call", name, [a, b]), rt
                self.want(ta, "Q", e)
                self.want(tb, "Q", e)
                return ("bin", BINOPS[type(e.op)], a, b), "Q"
            if isinstance(e.op, ast.FloorDiv):
                self.want(ta, "Q", e)
                self.want(tb, "Q", e)
                return ("floordiv", a, b), "Q"
            fail(e, "binary op")
        if isinstance(e, ast.Compare):
            if len(e.ops) != 1:
                fail(e, "chained comparison")
            st = self.static_test(e)
            if st is not None:
                return ("bool", st), "B"
            a, ta = self.expr(e.left)
            b, tb = self.expr(e.comparators[0])
            if ta == "S" and tb == "S" and isinstance(e.ops[0], (ast.Eq, ast.NotEq)):
                ir = ("streq", a, b)
                return (ir if isinstance(e.ops[0], ast.Eq) else ("not", ir)), "B"
            self.want(ta, "Q", e)
            self.want(tb, "Q", e)
            if type(e.ops[0]) not in CMPOPS:
                fail(e, "comparison")
            return ("cmp", CMPOPS[type(e.ops[0])], a, b), "B"
        if isinstance(e, ast.BoolOp):
            parts = [self.expr(v) for v in e.values]
            for _ir, t in parts:
                self.want(t, "B", e)
            op = "and" if isinstance(e.op, ast.And) else "or"
            ir = parts[0][0]
            for p, _t in parts[1:]:
                ir = (op, ir, p)
            return ir, "B"
        if isinstance(e, ast.IfExp):
            st = self.static_test(e.test)
            if st is not None:
                return self.expr(e.body if st else e.orelse)
            c, tc = self.expr(e.test)
            self.want(tc, "B", e)
            a, ta = self.expr(e.body)
            b, tb = self.expr(e.orelse)
            if ta != tb:
                fail(e, "ternary branches of different types")
            return ("if", c, a, b), ta
        if isinstance(e, ast.Attribute) and isinstance(e.value, ast.Name) and e.value.id in self.w.classes \
                and e.attr in self.w.classes[e.value.id].str_consts and e.value.id not in self.env:
            return ("str", self.w.classes[e.value.id].str_consts[e.attr]), "S"
        if isinstance(e, ast.Attribute):
            # self._const
            if isinstance(e.value, ast.Name) and e.value.id in self.alias_names \
                    and self.selffields is not None and e.attr in self.selffields:
                return ("var", self.selffields[e.attr]), "Q"       # aliased operand: reads see earlier writes
            if isinstance(e.value, ast.Name) and e.value.id == "self":
                if self.selffields is not None and e.attr in self.selffields:
                    return ("var", self.selffields[e.attr]), "Q"
                c = self.w.find_const(self.cname, e.attr)
                if c is not None and self.tr.field_type(self.cname, e.attr) is None:
                    ir, t = self.const_value(c)
                    if isinstance(t, tuple) and t[0] == "list":
                        # literal tables become their own definition (named after the attribute)
                        gname = "%s_%s" % (self.cname, e.attr.strip("_"))
                        if gname not in self.tr.tables:
                            self.tr.tables[gname] = ir
                            self.tr.defs.append(("def", gname, [], t, ir))
                        return ("var", gname), t
                    return ir, t
            a, ta = self.expr(e.value)
            if not is_rec(ta):
                fail(e, "attribute of non-record")
            ft = self.tr.field_type(ta[1], e.attr)
            if ft is None:
                fail(e, "no field %s in %s" % (e.attr, ta[1]))
            return ("field", a, ta[1], e.attr), ft
        if isinstance(e, ast.Subscript):
            l, tl = self.expr(e.value)
            i, ti = self.expr(e.slice)
            if not (isinstance(tl, tuple) and tl[0] == "list"):
                fail(e, "subscript of non-list")
            self.want(ti, "Q", e)
            return ("index", l, i), ("opt", tl[1])
        if isinstance(e, ast.List):
            items = [self.expr(x) for x in e.elts]
            ts = {repr(t) for _i, t in items}
            if len(ts) > 1:
                fail(e, "heterogeneous list")
            t = items[0][1] if items else "Q"
            return ("list", [i for i, _t in items]), ("list", t)
        if isinstance(e, ast.Call):
            return self.call(e)
        fail(e, "expression")

    def const_value(self, c):
        saved = self.env
        try:
            return self.expr(c)
        finally:
            self.env = saved

    def want(self, t, exp, node):
        if t != exp:
            fail(node, "type %r where %r expected" % (t, exp))

    def call(self, e):
        f = e.func
        if isinstance(f, ast.Name):
            if f.id in ("min", "max") and len(e.args) == 2 and not e.keywords:
                a, ta = self.expr(e.args[0])
                b, tb = self.expr(e.args[1])
                self.want(ta, "Q", e)
                self.want(tb, "Q", e)
                return (f.id, a, b), "Q"
            if f.id == "float" and len(e.args) == 1:
                a, ta = self.expr(e.args[0])
                if ta == ("opt", "Q"):
                    return a, ta
                self.want(ta, "Q", e)
                return a, "Q"
            if f.id == "len" and len(e.args) == 1:
                a, ta = self.expr(e.args[0])
                if a[0] == "var" and a[1] in self.tr.tables:
                    a = self.tr.tables[a[1]]
                if a[0] == "list":
                    return ("num", repr(len(a[1]))), "Q"
                return ("len", a), "Q"
            if f.id == "sum" and len(e.args) == 1 and isinstance(e.args[0], ast.ListComp):
                lc = e.args[0]
                if len(lc.generators) != 1 or lc.generators[0].ifs or not isinstance(lc.generators[0].target, ast.Name):
                    fail(e, "sum comprehension")
                xs, txs = self.expr(lc.generators[0].iter)
                if not (isinstance(txs, tuple) and txs[0] == "list"):
                    fail(e, "sum over non-list")
                v = lc.generators[0].target.id
                saved = dict(self.env)
                self.env[v] = (("var", v), txs[1])
                body, tb = self.expr(lc.elt)
                self.env = saved
                self.want(tb, "Q", e)
                return ("fold", "acc_", v, txs[1], ("bin", "+", ("var", "acc_"), body), xs, ("num", "0")), "Q"
            if f.id in self.w.classes and not self.w.classes[f.id].is_enum:
                if e.args:
                    fail(e, "positional constructor args")
                given = {}
                for kw in e.keywords:
                    v, tv = self.expr(kw.value)
                    ft = self.tr.field_type(f.id, kw.arg)
                    if ft is None:
                        fail(e, "constructor %s has no field %s" % (f.id, kw.arg))
                    self.want(tv, ft, e)
                    given[kw.arg] = v
                return ("ctor", f.id, self.tr.default_fields(f.id, given, e)), ("rec", f.id)
            fail(e, "call of %s" % f.id)
        if isinstance(f, ast.Attribute):
            # receiver.method(args)
            recv, tr_ = self.expr(f.value)
            if not is_rec(tr_):
                fail(e, "method call on non-record")
            cls = tr_[1]
            names, defaults = self.tr.defaults_of(cls, f.attr)
            actual = {}
            for n, a in zip(names, e.args):
                actual[n] = a
            for kw in e.keywords:
                actual[kw.arg] = kw.value
            static_args = []
            dyn = []
            for i, n in enumerate(names):
                a = actual.get(n, defaults.get(n))
                if a is None:
                    fail(e, "missing argument %s" % n)
                sv = self.static(a)
                if sv is not None:
                    static_args.append((i, sv))
                else:
                    if n in actual:
                        dyn.append(self.expr(a)[0])
                    else:
                        dyn.append(FuncTr(self.tr, cls, {}).expr(a)[0])
            name, params, rt = self.tr.method(cls, f.attr, tuple(static_args))
            if rt is None:
                fail(e, "recursive call")
            return ("call", name, [recv] + dyn), rt
        fail(e, "call")

    # ------------------------------------------------------------ statements
    def assigned(self, stmts):
        out = []
        for s in stmts:
            if isinstance(s, ast.Assign):
                for t in s.targets:
                    if isinstance(t, ast.Name) and t.id not in out:
                        out.append(t.id)
                    elif isinstance(t, ast.Attribute):
                        if "self." + t.attr not in out:
                            out.append("self." + t.attr)
            elif isinstance(s, ast.AnnAssign) and isinstance(s.target, ast.Name):
                if s.target.id not in out:
                    out.append(s.target.id)
            elif isinstance(s, ast.AugAssign):
                n = s.target.id if isinstance(s.target, ast.Name) else "self." + s.target.attr
                if n not in out:
                    out.append(n)
            elif isinstance(s, ast.If):
                for n in self.assigned(s.body) + self.assigned(s.orelse):
                    if n not in out:
                        out.append(n)
        return out

    def returns(self, stmts):
        for s in stmts:
            if isinstance(s, (ast.Return, ast.Raise)):
                return True
            if isinstance(s, ast.If) and (self.returns(s.body) or self.returns(s.orelse)):
                return True
        return False

    def bind(self, name, ir, t):
        """Introduce a fresh Coq name for a (re)binding of a Python local."""
        k = 0
        base = name.replace(".", "_")
        coq = base
        used = {v[0][1] for v in self.env.values() if v[0] is not None and v[0][0] == "var"}
        while coq in used or coq in ("self",):
            k += 1
            coq = "%s_%d" % (base, k)
        self.env[name] = (("var", coq), t)
        return coq

    def block(self, stmts, k):
        """Translate a statement list. `k` = continuation producing the value when the list
        falls through (None = falling through is an error). Returns (ir, type)."""
        if not stmts:
            if k is None:
                raise Unsupported("function may fall off its end")
            return k()
        s, rest = stmts[0], stmts[1:]
        if isinstance(s, ast.Expr) and isinstance(s.value, ast.Constant):
            return self.block(rest, k)          # docstring
        if isinstance(s, ast.Return):
            if s.value is None:
                fail(s, "bare return")
            if isinstance(s.value, ast.Name) and s.value.id == "self" and self.selffields is not None:
                fs = [(f, ("var", self.selffields[f])) for (f, _a, _d) in self.w.all_fields(self.cname)]
                return ("ctor", self.cname, fs), ("rec", self.cname)
            return self.expr(s.value)
        if isinstance(s, ast.Raise):
            return ("raise",), "raise"
        if isinstance(s, (ast.Assign, ast.AnnAssign)):
            tgt = s.targets[0] if isinstance(s, ast.Assign) else s.target
            if isinstance(s, ast.Assign) and len(s.targets) != 1:
                fail(s, "multiple targets")
            v, tv = self.expr(s.value)
            name = self.target_name(tgt, s)
            coq = self.bind(name, v, tv)
            body, tb = self.block(rest, k)
            return ("let", coq, tv, v, body), tb
        if isinstance(s, ast.AugAssign):
            name = self.target_name(s.target, s)
            if type(s.op) not in BINOPS:
                fail(s, "augmented op")
            if isinstance(s.target, ast.Name):
                cur, tc = self.expr(s.target)
            else:
                cur, tc = self.expr(s.target)
            v, tv = self.expr(s.value)
            if is_rec(tc) and isinstance(s.op, ast.Add):
                mname, _p, rt = self.tr.method(tc[1], "__iadd__")
                new = ("call", mname, [cur, v])
            else:
                self.want(tc, "Q", s)
                self.want(tv, "Q", s)
                new = ("bin", BINOPS[type(s.op)], cur, v)
            coq = self.bind(name, new, tc)
            body, tb = self.block(rest, k)
            return ("let", coq, tc, new, body), tb
        if isinstance(s, ast.If):
            st = self.static_test(s.test)
            if st is not None:
                return self.block((s.body if st else s.orelse) + rest, k)
            c, tc = self.expr(s.test)
            self.want(tc, "B", s)
            if self.returns(s.body) or self.returns(s.orelse):
                saved = dict(self.env)
                a, ta = self.block(s.body + rest, k)
                self.env = dict(saved)
                b, tb = self.block(s.orelse + rest, k)
                self.env = saved
                t = self.join(ta, tb, s)
                return ("if", c, self.coerce(a, ta, t), self.coerce(b, tb, t)), t
            # assignment-only if: the assigned names that survive are those bound before
            # or assigned in both branches
            na, nb = self.assigned(s.body), self.assigned(s.orelse)
            live = [n for n in dict.fromkeys(na + nb) if (n in self.env or (n in na and n in nb))]
            saved = dict(self.env)

            def branch(stmts_):
                self.env = dict(saved)
                out = {}

                def kk():
                    for n in live:
                        out[n] = self.env[n]
                    return ("tuple", [self.env[n][0] for n in live]), ("tuple", [self.env[n][1] for n in live])
                ir, t = self.block(stmts_, kk)
                return ir, t
            a, ta = branch(s.body)
            b, tb = branch(s.orelse)
            if ta != tb:
                fail(s, "branches bind different types")
            self.env = saved
            names = [self.bind(n, None, t) for n, t in zip(live, ta[1])]
            body, tbody = self.block(rest, k)
            return ("lettuple", names, ta[1], ("if", c, a, b), body), tbody
        if isinstance(s, ast.For):
            if not isinstance(s.target, ast.Name) or s.orelse:
                fail(s, "for target")
            xs, txs = self.expr(s.iter)
            if not (isinstance(txs, tuple) and txs[0] == "list"):
                fail(s, "for over non-list")
            accs = self.assigned(s.body)
            if any(n not in self.env for n in accs) or self.returns(s.body):
                fail(s, "loop body must only update existing accumulators")
            saved = dict(self.env)
            # loop state = tuple of accumulators
            accnames = []
            for n in accs:
                accnames.append(self.bind(n, None, saved[n][1]))
            v = s.target.id
            self.env[v] = (("var", v), txs[1])

            def kk():
                return ("tuple", [self.env[n][0] for n in accs]), ("tuple", [self.env[n][1] for n in accs])
            body, tb = self.block(s.body, kk)
            self.env = saved
            init = ("tuple", [saved[n][0] for n in accs])
            outnames = [self.bind(n, None, saved[n][1]) for n in accs]
            restir, trest = self.block(rest, k)
            return ("lettuple", outnames, tb[1],
                    ("foldt", accnames, tb[1], v, txs[1], body, xs, init), restir), trest
        fail(s, "statement")

    def target_name(self, tgt, s):
        if isinstance(tgt, ast.Name):
            return tgt.id
        if isinstance(tgt, ast.Attribute) and isinstance(tgt.value, ast.Name) and tgt.value.id == "self":
            if self.selffields is None:
                fail(s, "write to self outside an in-place method")
            if tgt.attr not in self.selffields:
                fail(s, "assignment to unknown field")
            return "self." + tgt.attr
        fail(s, "assignment target")

    def join(self, ta, tb, node):
        if ta == "raise":
            return tb if tb == "raise" or (isinstance(tb, tuple) and tb[0] == "opt") else ("opt", tb)
        if tb == "raise":
            return ta if (isinstance(ta, tuple) and ta[0] == "opt") else ("opt", ta)
        if ta == tb:
            return ta
        if ta == ("opt", tb):
            return ta
        if tb == ("opt", ta):
            return tb
        fail(node, "branches of different types %r %r" % (ta, tb))

    def coerce(self, ir, t, target):
        if t == target:
            return ir
        if t == "raise":
            return ("none",)
        if target == ("opt", t):
            return ("some", ir)
        raise Unsupported("cannot coerce %r to %r" % (t, target))


# in-place (`self.f op= e`) methods: pre-bind every field to a local so that later reads
# see earlier writes (Python's sequential semantics)
def translate_inplace(tr: Translator, cname, mname, alias=False):
    """`__iadd__`-style method: returns self after a sequence of field updates.
    alias=True translates the call `x.m(x)` (every same-class operand IS self: `s += s`), emitted as <name>_self."""
    key = (cname, mname, ("alias",) if alias else ())
    if key in tr.done:
        return tr.done[key]
    owner, fn = tr.w.find_method(cname, mname)
    tr.need_record(cname)
    coqname = "%s_%s" % (cname, mname.strip("_")) + ("_self" if alias else "")
    env = {"self": (("var", "self"), ("rec", cname))}
    params = [("self", ("rec", cname))]
    aliases = set()
    for a in fn.args.args[1:]:
        ann = ast.unparse(a.annotation) if a.annotation is not None else None
        t = ("rec", ann) if ann in tr.w.classes else "Q"
        if alias and t == ("rec", cname):
            env[a.arg] = (("var", "self"), t)
            aliases.add(a.arg)
            continue
        env[a.arg] = (("var", a.arg), t)
        params.append((a.arg, t))
    fx = FuncTr(tr, cname, env)
    fx.alias_names = aliases
    fx.selffields = {}
    pro = []
    for (f, ann, _d) in tr.w.all_fields(cname):
        if ann not in ("float", "int"):
            raise Unsupported("in-place update of %s with non-numeric field %s" % (cname, f))
        v = "f_" + f
        fx.selffields[f] = v
        fx.env["self." + f] = (("var", v), "Q")
        pro.append((v, ("field", ("var", "self"), cname, f)))
    # writes go through bind("self.f"), reads through selffields -> keep them in sync
    orig_bind = fx.bind

    def bind(name, ir, t):
        coq = orig_bind(name, ir, t)
        if name.startswith("self."):
            fx.selffields[name[5:]] = coq
        return coq
    fx.bind = bind
    body, rt = fx.block(fn.body, None)
    for v, e in reversed(pro):
        body = ("let", v, "Q", e, body)
    tr.defs.append(("def", coqname, params, rt, body))
    tr.done[key] = (coqname, params, rt)
    return tr.done[key]


# ---------------------------------------------------------------------- rendering
class Render:
    """IR -> Coq text for one numeric domain."""

    def __init__(self, dom, tr: Translator, prefix=""):
        self.dom = dom          # 'Q' | 'F'
        self.tr = tr
        self.p = prefix

    def ty(self, t):
        if t == "Q":
            return "Q" if self.dom == "Q" else "float"
        if t == "B":
            return "bool"
        if t == "S":
            return "string"
        if is_rec(t):
            return self.p + t[1]
        if t[0] == "list":
            return "(list %s)" % self.ty(t[1])
        if t[0] == "opt":
            return "(option %s)" % self.ty(t[1])
        if t[0] == "tuple":
            return "(" + " * ".join(self.ty(x) for x in t[1]) + ")%type" if len(t[1]) > 1 else self.ty(t[1][0])
        raise Unsupported("type %r" % (t,))

    def num(self, s):
        if self.dom == "Q":
            f = Fraction(s)
            if f < 0:
                return "((-%d)#%d)" % (-f.numerator, f.denominator)
            return "(%d#%d)" % (f.numerator, f.denominator)
        v = float(eval(s))
        return "(%s)%%float" % float_lit(v)

    def e(self, ir):
        k = ir[0]
        if k == "num":
            return self.num(ir[1])
        if k == "bool":
            return "true" if ir[1] else "false"
        if k == "str":
            if any(ord(c) > 126 or ord(c) < 32 or c == '"' for c in ir[1]):
                raise Unsupported("string literal %r" % ir[1])
            return '"%s"%%string' % ir[1]
        if k == "streq":
            return "(String.eqb %s %s)" % (self.e(ir[1]), self.e(ir[2]))
        if k == "var":
            return (self.p + ir[1]) if ir[1] in self.tr.tables else ir[1]
        if k == "neg":
            return "(- %s)" % self.e(ir[1]) if self.dom == "Q" else "(PrimFloat.opp %s)" % self.e(ir[1])
        if k == "not":
            return "(negb %s)" % self.e(ir[1])
        if k in ("and", "or"):
            return "(%s %s %s)" % ("andb" if k == "and" else "orb", self.e(ir[1]), self.e(ir[2]))
        if k == "bin":
            op, a, b = ir[1], self.e(ir[2]), self.e(ir[3])
            if self.dom == "Q":
                if op == "/" and ir[3][0] == "num" and Fraction(ir[3][1]) != 0:
                    # division by a literal = multiplication by its reciprocal (equal in Q;
                    # keeps `lra`/`nra` usable)
                    r = 1 / Fraction(ir[3][1])
                    return "(%s * %s)" % (a, self.num(str(r)))
                return "(%s %s %s)" % (a, op, b)
            f = {"+": "PrimFloat.add", "-": "PrimFloat.sub", "*": "PrimFloat.mul", "/": "PrimFloat.div"}[op]
            return "(%s %s %s)" % (f, a, b)
        if k == "floordiv":
            if self.dom != "Q":
                raise Unsupported("// in the binary64 twin")
            return "(inject_Z (Qfloor (%s / %s)))" % (self.e(ir[1]), self.e(ir[2]))
        if k in ("min", "max"):
            a, b = self.e(ir[1]), self.e(ir[2])
            if self.dom == "Q":
                return "(Q%s %s %s)" % (k, a, b)
            # Python: min(a,b) = b if b < a else a ; max(a,b) = b if b > a else a
            if k == "min":
                return "(if PrimFloat.ltb %s %s then %s else %s)" % (b, a, b, a)
            return "(if PrimFloat.ltb %s %s then %s else %s)" % (a, b, b, a)
        if k == "cmp":
            op, a, b = ir[1], self.e(ir[2]), self.e(ir[3])
            if self.dom == "Q":
                return {"<=": "(Qle_bool %s %s)" % (a, b), ">=": "(Qle_bool %s %s)" % (b, a),
                        "<": "(negb (Qle_bool %s %s))" % (b, a), ">": "(negb (Qle_bool %s %s))" % (a, b),
                        "==": "(Qeq_bool %s %s)" % (a, b), "!=": "(negb (Qeq_bool %s %s))" % (a, b)}[op]
            return {"<=": "(PrimFloat.leb %s %s)" % (a, b), ">=": "(PrimFloat.leb %s %s)" % (b, a),
                    "<": "(PrimFloat.ltb %s %s)" % (a, b), ">": "(PrimFloat.ltb %s %s)" % (b, a),
                    "==": "(PrimFloat.eqb %s %s)" % (a, b), "!=": "(negb (PrimFloat.eqb %s %s))" % (a, b)}[op]
        if k == "if":
            return "(if %s then %s else %s)" % (self.e(ir[1]), self.e(ir[2]), self.e(ir[3]))
        if k == "let":
            return "(let %s : %s := %s in\n  %s)" % (ir[1], self.ty(ir[2]), self.e(ir[3]), self.e(ir[4]))
        if k == "tuple":
            return "(" + ", ".join(self.e(x) for x in ir[1]) + ")" if len(ir[1]) != 1 else self.e(ir[1][0])
        if k == "lettuple":
            names = ir[1]
            if len(names) == 1:
                return "(let %s := %s in\n  %s)" % (names[0], self.e(ir[3]), self.e(ir[4]))
            return "(let '(%s) := %s in\n  %s)" % (", ".join(names), self.e(ir[3]), self.e(ir[4]))
        if k == "field":
            return "(%s%s_%s %s)" % (self.p, ir[2], ir[3], self.e(ir[1]))
        if k == "call":
            return "(%s%s %s)" % (self.p, ir[1], " ".join(self.e(a) for a in ir[2]))
        if k == "ctor":
            return "(%smk%s %s)" % (self.p, ir[1], " ".join(self.e(v) for (_f, v) in ir[2]))
        if k == "fold":
            _k, acc, v, tv, body, xs, init = ir
            return "(fold_left (fun (%s : %s) (%s : %s) => %s) %s %s)" % (
                acc, self.ty("Q"), v, self.ty(tv), self.e(body), self.e(xs), self.e(init))
        if k == "foldt":
            _k, accnames, taccs, v, tv, body, xs, init = ir
            pat = accnames[0] if len(accnames) == 1 else "'(%s)" % ", ".join(accnames)
            return "(fold_left (fun %s (%s : %s) => %s) %s %s)" % (
                pat if len(accnames) > 1 else "(%s : %s)" % (accnames[0], self.ty(taccs[0])),
                v, self.ty(tv), self.e(body), self.e(xs), self.e(init))
        if k == "list":
            return "[" + "; ".join(self.e(x) for x in ir[1]) + "]"
        if k == "index":
            if self.dom != "Q":
                raise Unsupported("indexing in the binary64 twin")
            return "(py_index %s %s)" % (self.e(ir[1]), self.e(ir[2]))
        if k == "len":
            if self.dom != "Q":
                raise Unsupported("len in the binary64 twin")
            return "(inject_Z (Z.of_nat (length %s)))" % self.e(ir[1])
        if k == "some":
            return "(Some %s)" % self.e(ir[1])
        if k == "none":
            return "None"
        if k == "raise":
            return "None"
        raise Unsupported("IR %r" % (k,))

    def record(self, cname):
        fs = self.tr.w.all_fields(cname)
        lines = ["Record %s%s := %smk%s {" % (self.p, cname, self.p, cname)]
        lines.append(";\n".join("  %s%s_%s : %s" % (self.p, cname, f, self.ty(self.tr.field_type(cname, f)))
                                for (f, _a, _d) in fs))
        lines.append("}.")
        return "\n".join(lines)

    def definition(self, d):
        _k, name, params, rt, body = d
        ps = " ".join("(%s : %s)" % (n, self.ty(t)) for n, t in params)
        if rt == "raise":
            raise Unsupported("%s always raises" % name)
        return "Definition %s%s %s : %s :=\n  %s." % (self.p, name, ps, self.ty(rt), self.e(body))


def float_lit(v: float) -> str:
    """A Coq float literal (hex) for a Python float."""
    import math
    if v != v:
        return "nan"
    if math.isinf(v):
        return "infinity" if v > 0 else "neg_infinity"
    h = v.hex()       # like -0x1.999999999999ap-4
    return h


def uses_unsupported_in_F(ir) -> bool:
    if isinstance(ir, tuple):
        # "fold" is the builtin sum(): CPython >= 3.12 sums floats with Neumaier compensation,
        # which equals the plain left fold over Q but not bit-for-bit in binary64
        if ir and ir[0] in ("floordiv", "index", "len", "fold"):
            return True
        return any(uses_unsupported_in_F(x) for x in ir)
    if isinstance(ir, list):
        return any(uses_unsupported_in_F(x) for x in ir)
    return False
