"""H-dsl: correspondence between the plan-DSL model (coq/theories/Model/Dsl.v, DslLex.v) and the
real Lark parser of simaple/simulate/policy/parser.py.

A case is a *token list* generated from the grammar (every item kind, multipliers, debug lines,
every gap position filled from a gap distribution that covers good and bad layouts); every token
carries the text it is rendered with, so the plan text is the concatenation.  Lark parses the
text (parse_dsl_to_command / parse_dsl_to_operations / parse_simaple_runtime), the model parses
the tokens inside coqc, Coq compares.  A small regex lexer (`lex`) maps text back to tokens; it
is used to lex the implementation's `expr` strings (compared with the model's printer) and real
plan texts, and it is cross-checked on every generated case (lex(render(tokens)) == tokens)."""
from __future__ import annotations

import re
import struct
import sys

from lib import vf

# ------------------------------------------------------------------ implementation access


def impl():
    """The three parse functions of the tree under check (VERIF_REPO aware)."""
    r = str(vf.REPO)
    if sys.path[0] != r and "simaple" not in sys.modules:
        sys.path.insert(0, r)
    from simaple.simulate.policy import parser
    return parser


def bits(f: float) -> int:
    return struct.unpack("<Q", struct.pack("<d", f))[0]


def unbits(b: int) -> float:
    return struct.unpack("<d", struct.pack("<Q", b))[0]


# ------------------------------------------------------------------ tokens
# ("W", text) ("S", text, name) ("N", text, bits) ("X", text, z) ("D", text) ("H", text, context)
# ("NL", text) ("SP", " ") ("TAB", text) ("COM", text) ("BAD", text)
SOLID = {"W", "S", "N", "X", "D", "H", "BAD"}
LAYOUT = {"NL", "SP", "TAB", "COM"}


def render(toks) -> str:
    return "".join(t[1] for t in toks)


def key(t):
    """What the model sees of a token."""
    k = t[0]
    if k in ("S", "N", "X", "H"):
        return (k, t[2])
    if k == "W":
        return (k, t[1])
    return (k,)


# regexes of lark/grammars/common.lark as compiled by Lark 1.x for this grammar
RE_NUM = re.compile(r"(?:\+|\-)?(?:[0-9]+(?:e|E)(?:\+|\-)?[0-9]+|(?:[0-9]+\.(?:[0-9]+)?|\.[0-9]+)(?:(?:e|E)(?:\+|\-)?[0-9]+)?|[0-9]+)")
RE_STR = re.compile(r'".*?(?<!\\)(\\\\)*?"')
RE_WORD = re.compile(r"[A-Za-z]+")
RE_COM = re.compile(r"#[^\n]*")
RE_HEADER = re.compile(r"(.+)(\n(.*))*\n---")
RE_XNUM = re.compile(r"x( *)")


def lex(text: str, header=False):
    out = []
    i = 0
    if header:
        m = RE_HEADER.match(text)
        if m:
            out.append(("H", m.group(0), m.group(0)[:-3]))
            i = m.end()
    n = len(text)
    while i < n:
        c = text[i]
        if c == "\n" or text.startswith("\r\n", i):
            w = 1 if c == "\n" else 2
            out.append(("NL", text[i:i + w]))
            i += w
        elif c == " ":
            out.append(("SP", " "))
            i += 1
        elif c in "\t\f\r":
            out.append(("TAB", c))
            i += 1
        elif c == "#":
            m = RE_COM.match(text, i)
            out.append(("COM", m.group(0)))
            i = m.end()
        elif c == '"':
            m = RE_STR.match(text, i)
            if m:
                out.append(("S", m.group(0), m.group(0)[1:-1]))
                i = m.end()
            else:
                out.append(("BAD", c))
                i += 1
        elif text.startswith("!debug", i):
            out.append(("D", "!debug"))
            i += 6
        elif RE_WORD.match(text, i):
            m = RE_WORD.match(text, i)
            if m.group(0) == "x":
                sp = RE_XNUM.match(text, i)
                nm = RE_NUM.match(text, sp.end())
                if nm:
                    try:
                        out.append(("X", text[i:nm.end()], int(nm.group(0))))
                    except ValueError:
                        out.append(("BAD", text[i:nm.end()]))
                    i = nm.end()
                    continue
            out.append(("W", m.group(0)))
            i = m.end()
        elif RE_NUM.match(text, i):
            m = RE_NUM.match(text, i)
            out.append(("N", m.group(0), bits(float(m.group(0)))))
            i = m.end()
        else:
            out.append(("BAD", c))
            i += 1
    return out


# ------------------------------------------------------------------ pools
WORDS = ["CAST", "USE", "ELAPSE", "RESOLVE", "KEYDOWNSTOP"]
ODD_WORDS = ["Foo", "y", "xx", "ax", "inf", "nan", "e", "E", "debug", "X", "ELAPSEx", "cast"]
NAMES = ["플레임 스윕", "디바인 퍼니시먼트", "엔젤레이 VI", "a", "a b", "a#b", "# not a comment", 'a\\"b', '\\"', "", "x", "x3",
         "🔥 fire", "tab\there", "a\\\\", "---", "한글 VI", "'single'", "a\\nb", "{time}", "%s", "ELAPSE 3", "!debug", "1e400",
         "  padded  ", "\\\\\\\"q\\\"", "é", " nbsp", "名前", "a\\\\\\\\", "\\\"\\\"", "trailing-hash #"]
NUMS = ["0", "10", "78000", "00012", "+5", "-5", "3.", ".5", "1e3", "1E+3", "2.5e-3", "1e22", "1e-7", "1e16", "1e400", "-1e400", "1e-400",
        "0.1", "123456789.123456789", "1.7976931348623157e308", "1.7976931348623159e308", "5e-324", "2e-324", "-0", "-0.0", "+.5e+3",
        "200.0", "480", "0.30000000000000004", "9007199254740993", "1e+22", "1e23", "4.35", "-3.5E-2", "1234.5", "30", "100", "1000",
        "0.0", "1.0", "1e0", "0e0", "12e-1", "5.e2", "3e5"]
MULTS = ["2", "3", "1", "0", "-1", "+3", "003", "15", "38", "2.0", "1e1", "-0", "7"]
COMMENTS = ["#", "# c", "#c", "# USE \"a\"", "# 주석 ---", "## x2", "#\t!debug \"x\"", "# a \"quoted\" b", "#---"]


def t_w(rng, real=0.8):
    return ("W", rng.choice(WORDS) if rng.random() < real else rng.choice(ODD_WORDS))


def t_s(rng):
    n = rng.choice(NAMES)
    return ("S", '"' + n + '"', n)


def num_text(rng):
    r = rng.random()
    if r < 0.55:
        return rng.choice(NUMS)
    if r < 0.7:
        return repr(rng.uniform(-5, 1e5))
    if r < 0.8:
        return repr(rng.random() * 10.0 ** rng.randint(-320, 308))
    if r < 0.9:
        return str(rng.randint(0, 10 ** rng.randint(1, 25)))
    return "%s%d.%de%s%d" % (rng.choice(["", "-", "+"]), rng.randint(0, 99), rng.randint(0, 999), rng.choice(["", "+", "-"]), rng.randint(0, 330))


def t_n(rng):
    s = num_text(rng)
    return ("N", s, bits(float(s)))


def t_x(rng):
    m = rng.choice(MULTS) if rng.random() < 0.8 else str(rng.randint(0, 40))
    text = "x" + " " * rng.choice([0, 0, 0, 1, 2]) + m
    try:
        return ("X", text, int(m))
    except ValueError:
        return ("BAD", text)


SP, NL, COM_ = ("SP", " "), ("NL", "\n"), None


def t_com(rng):
    return ("COM", rng.choice(COMMENTS))


def t_nl(rng):
    return ("NL", "\r\n" if rng.random() < 0.08 else "\n")


def t_tab(rng):
    return ("TAB", rng.choice(["\t", "\t", "\f"]))


# ---- gap distributions.  Every generator returns a list of layout tokens in which a COM is
# always followed by an NL or the end of the text (a comment runs to the end of its line).
def g_inner(rng):
    r = rng.random()
    if r < 0.55:
        return [SP]
    if r < 0.75:
        return [SP] * rng.randint(2, 4)
    if r < 0.85:
        return [rng.choice([SP, t_tab(rng)]) for _ in range(rng.randint(1, 3))]
    if r < 0.90:
        return []
    if r < 0.95:
        return g_any(rng, 3)
    return [SP] * rng.randint(0, 1) + [t_com(rng), t_nl(rng)] + [SP] * rng.randint(0, 2)


def g_any(rng, n=5):
    out = []
    for _ in range(rng.randint(0, n)):
        r = rng.random()
        if r < 0.35:
            out.append(SP)
        elif r < 0.65:
            out.append(t_nl(rng))
        elif r < 0.8:
            out.append(t_tab(rng))
        else:
            out += [t_com(rng), t_nl(rng)]
    return out


def g_sep(rng):
    """between two items: mostly the shapes people write, and every shape the grammar rejects"""
    r = rng.random()
    if r < 0.30:
        return [NL]
    if r < 0.50:      # trailing spaces / comment, blank lines, indentation by spaces
        return [SP] * rng.randint(0, 2) + ([t_com(rng)] if rng.random() < 0.5 else []) + [t_nl(rng) for _ in range(rng.randint(1, 3))] + [SP] * rng.randint(0, 3)
    if r < 0.62:      # one comment line
        return [NL] * rng.randint(1, 2) + [SP] * rng.randint(0, 1) + [t_com(rng), NL] + [SP] * rng.randint(0, 1)
    if r < 0.72:      # several comment lines
        return [NL] + sum([[t_com(rng), NL] + ([NL] if rng.random() < 0.3 else []) for _ in range(rng.randint(2, 3))], [])
    if r < 0.80:      # whitespace-only line
        return [NL, rng.choice([SP, t_tab(rng)]), NL] + [SP] * rng.randint(0, 1)
    if r < 0.86:      # tab indentation
        return [NL] + [t_tab(rng)] + [SP] * rng.randint(0, 1)
    if r < 0.90:      # no newline at all
        return [SP] * rng.randint(0, 2)
    return g_any(rng, 6)


def g_edge(rng, trailing):
    r = rng.random()
    if r < 0.55:
        return []
    if r < 0.70:
        return [SP] * rng.randint(1, 3)
    if trailing and r < 0.80:
        return [SP] * rng.randint(0, 1) + [t_com(rng)]
    if trailing and r < 0.88:
        return [NL]
    if trailing and r < 0.94:
        return [NL, t_com(rng)]
    if not trailing and r < 0.85:
        return [rng.choice([NL, t_tab(rng)])] + [SP] * rng.randint(0, 1)
    if not trailing and r < 0.93:
        return [t_com(rng), NL]
    g = g_any(rng, 4)
    if trailing and rng.random() < 0.5:
        g = g + [t_com(rng)]
    return g


def gen_item(rng, clean=False):
    """one request / console with its inner gaps; returns (tokens, is_console)"""
    r = rng.random()
    inner = (lambda: [SP]) if clean else (lambda: g_inner(rng))
    if r < 0.12:
        return [("D", "!debug")] + inner() + [t_s(rng)], True
    out = []
    if rng.random() < 0.22:
        out.append(t_x(rng))
        out += [] if rng.random() < 0.1 else inner()
    k = rng.random()
    if k < 0.45:
        out += [t_w(rng)] + inner() + [t_s(rng)]
    elif k < 0.75:
        out += [t_w(rng)] + inner() + [t_n(rng)]
    else:
        out += [t_w(rng)] + inner() + [t_s(rng)] + inner() + [t_n(rng)]
    return out, False


GLUE_L = {"W", "N", "X", "D", "BAD"}
GLUE_R = {"W", "N", "X", "BAD", "D"}


def fix_glue(toks):
    """never let two tokens touch whose concatenation would lex differently"""
    out = []
    last_x = None          # index of a multiplier not yet followed by a solid token
    for t in toks:
        # "x 7" + line break + operation is ambiguous in the grammar (multiplier vs. an operation
        # whose command word is `x`; Lark picks the latter): never generated, see coverage.unmodelled
        if out and out[-1][0] == "COM" and t[0] != "NL" and last_x is not None and " " in out[last_x][1]:
            out[last_x] = (out[last_x][0], out[last_x][1].replace(" ", "")) + out[last_x][2:]
        if t[0] in SOLID:
            if last_x is not None and t[0] == "N" and " " in out[last_x][1]:
                out[last_x] = (out[last_x][0], out[last_x][1].replace(" ", "")) + out[last_x][2:]
            last_x = None
        if t[0] == "NL" and last_x is not None and " " in out[last_x][1]:
            out[last_x] = (out[last_x][0], out[last_x][1].replace(" ", "")) + out[last_x][2:]
        if out and out[-1][0] in GLUE_L and t[0] in GLUE_R:
            out.append(SP)
        if out and out[-1][0] == "TAB" and out[-1][1] == "\r" and t[0] == "NL":
            out[-1] = ("TAB", "\t")
        if out and out[-1][0] == "COM" and t[0] != "NL":
            if last_x is not None and " " in out[last_x][1]:
                out[last_x] = (out[last_x][0], out[last_x][1].replace(" ", "")) + out[last_x][2:]
            out.append(NL)
        out.append(t)
        if t[0] in ("X", "BAD") and t[1].startswith("x"):
            last_x = len(out) - 1
    if last_x is not None and " " in out[last_x][1]:       # "x 7" at the end of the text is the operation `x 7.0`
        out[last_x] = (out[last_x][0], out[last_x][1].replace(" ", "")) + out[last_x][2:]
    return out


def gen_plan(rng, profile="mixed"):
    """token list of a body; profile clean = canonical layout, mixed = gaps from the distributions,
    noisy = additionally one random token-level mutation"""
    n = rng.choice([1, 1, 2, 2, 3, 4, 6])
    toks = []
    clean = profile == "clean"
    if not clean:
        toks += g_edge(rng, False)
    for i in range(n):
        if i:
            toks += [NL] if clean else g_sep(rng)
        it, _ = gen_item(rng, clean)
        toks += it
    if not clean:
        toks += g_edge(rng, True)
    if profile == "noisy" and toks:
        j = rng.randrange(len(toks))
        r = rng.random()
        if r < 0.3:
            del toks[j]
        elif r < 0.6:
            toks.insert(j, rng.choice([("BAD", "$"), t_s(rng), t_n(rng), t_w(rng), ("D", "!debug"), t_x(rng)]))
        elif r < 0.8:
            toks[j] = rng.choice([("BAD", "@"), t_n(rng), t_s(rng)])
        else:
            k = rng.randrange(len(toks))
            toks[j], toks[k] = toks[k], toks[j]
    return fix_glue(toks)


def gen_header(rng):
    import yaml
    meta = rng.choice([
        {"author": "verif"}, {"author": "메소", "provider": {"name": "P", "data": {"level": 270, "tier": "Legendary"}}},
        {"author": "a # b", "data": {"xs": [1, 2.5, "--- not a separator"], "note": "multi\nline"}},
        {"k": {"nested": {"deep": [True, None, "x2 USE"]}}, "author": "q\"uote"}, {"simaple": "runtime", "asdf": {"p": 3}},
    ])
    body = yaml.safe_dump(meta, indent=2, allow_unicode=True)
    style = rng.random()
    if style < 0.6:
        text = "---\n" + body + "\n---"          # the shape api/base.py renders
    elif style < 0.8:
        text = body + "---"                      # tests/simulate/policy/test_dsl_parser.py shape
    else:
        text = "---\n" + body + "---"
    return ("H", text, text[:-3]), meta


def gen_runtime(rng):
    """token list for parse_simaple_runtime: optional outer whitespace, optional header, body"""
    toks, meta = [], {}
    body = gen_plan(rng, rng.choice(["clean", "mixed", "mixed"]))
    if rng.random() < 0.7:
        h, meta = gen_header(rng)
        r = rng.random()
        gap = [NL] if r < 0.6 else ([NL] * 2 if r < 0.7 else ([] if r < 0.75 else g_any(rng, 4)))
        toks = [h] + gap + body
    else:
        toks = body
    if rng.random() < 0.4:
        toks = [rng.choice([NL, SP, t_tab(rng)]) for _ in range(rng.randint(1, 3))] + toks
    if rng.random() < 0.4:
        toks = toks + [rng.choice([NL, SP, t_tab(rng)]) for _ in range(rng.randint(1, 3))]
    return fix_glue(toks), meta


# ------------------------------------------------------------------ running the implementation
def cmd_key(c):
    """canonical form of a parsed command: ('full'|'time'|'skill', command, name, bits) / ('console', text)"""
    if getattr(c, "command_type", None) == "console" or not hasattr(c, "command"):
        return ("console", c.text)
    if c.time is None:
        return ("skill", c.command, c.name)
    if '"' in c.expr or c.name != "":
        return ("full", c.command, c.name, bits(c.time))
    return ("time", c.command, bits(c.time))


def impl_parse(mode, text):
    """returns (keys or None, raw commands or None, metadata, error string)"""
    p = impl()
    try:
        if mode == "body":
            cs = p.parse_dsl_to_command(text)
            return [cmd_key(c) for c in cs], cs, None, None
        if mode == "ops":
            cs = p.parse_dsl_to_operations(text)
            return [cmd_key(c) for c in cs], cs, None, None
        meta, cs = p.parse_simaple_runtime(text)
        return [cmd_key(c) for c in cs], cs, meta, None
    except Exception as e:      # Lark errors, DSLError, AssertionError, ValueError of int()
        return None, None, None, type(e).__name__ + ": " + str(e).split("\n")[0][:120]


# ------------------------------------------------------------------ Coq encoding
def c_text(s: str) -> str:
    return "[" + ";".join(str(ord(ch)) for ch in s) + "]%N" if s else "(@nil N)"


def c_z(n: int) -> str:
    return "(%d)%%Z" % n if n >= 0 else "(-%d)%%Z" % (-n)


def c_tok(t) -> str:
    k = t[0]
    if k == "W":
        return "TW " + c_text(t[1])
    if k == "S":
        return "TS " + c_text(t[2])
    if k == "N":
        return "TN " + c_z(t[2])
    if k == "X":
        return "TX " + c_z(t[2])
    if k == "H":
        return "THeader " + c_text(t[2])
    return {"D": "TDebug", "NL": "TNL", "SP": "TSp", "TAB": "TTab", "COM": "TCom", "BAD": "TBad"}[k]


def c_toks(ts) -> str:
    return "[" + "; ".join(c_tok(t) for t in ts) + "]" if ts else "(@nil tok)"


def c_cmd(k) -> str:
    if k[0] == "console":
        return "Console " + c_text(k[1])
    if k[0] == "skill":
        return "Op (SkillOp %s %s)" % (c_text(k[1]), c_text(k[2]))
    if k[0] == "time":
        return "Op (TimeOp %s %s)" % (c_text(k[1]), c_z(k[2]))
    return "Op (Full %s %s %s)" % (c_text(k[1]), c_text(k[2]), c_z(k[3]))


def c_cmds(ks) -> str:
    if ks is None:
        return "None"
    return "Some " + ("[" + "; ".join(c_cmd(k) for k in ks) + "]" if ks else "(@nil cmd)")


def c_op(k) -> str:
    return c_cmd(k)[3:]


SHARD_HEAD = """From Coq Require Import List NArith ZArith Bool.
Import ListNotations.
From V.Lib Require Import Corr.
From V.Model Require Import Dsl DslEq.
"""


def shard(body_cases, ops_cases, sim_cases, print_cases) -> str:
    """body/ops: (tokens, keys|None); sim: (tokens, (header context|None, keys)|None); print: (op key, lexed expr tokens)"""
    def lst(ty, items):
        return "[" + ";\n ".join(items) + "]" if items else "(@nil %s)" % ty
    b = lst("(list tok * option (list cmd))", ["(%s, %s)" % (c_toks(t), c_cmds(e)) for t, e in body_cases])
    o = lst("(list tok * option (list cmd))", ["(%s, %s)" % (c_toks(t), c_cmds(e)) for t, e in ops_cases])

    def sim_e(e):
        if e is None:
            return "None"
        h, ks = e
        return "Some (%s, %s)" % ("None" if h is None else "Some " + c_text(h), c_cmds(ks)[5:])
    s = lst("(list tok * option (option text * list cmd))", ["(%s, %s)" % (c_toks(t), sim_e(e)) for t, e in sim_cases])
    p = lst("(op * list tok)", ["(%s, %s)" % (c_op(k), c_toks(t)) for k, t in print_cases])
    return (SHARD_HEAD +
            "Definition cb : list (list tok * option (list cmd)) := %s.\n" % b +
            "Definition co : list (list tok * option (list cmd)) := %s.\n" % o +
            "Definition cs : list (list tok * option (option text * list cmd)) := %s.\n" % s +
            "Definition cp : list (op * list tok) := %s.\n" % p +
            "Eval vm_compute in (bad (map (fun c => ocmds_eqb (parse_body (fst c)) (snd c)) cb)).\n"
            "Eval vm_compute in (bad (map (fun c => ocmds_eqb (parse_ops (fst c)) (snd c)) co)).\n"
            "Eval vm_compute in (bad (map (fun c => osim_eqb (parse_simaple (fst c)) (snd c)) cs)).\n"
            "Eval vm_compute in (bad (map (fun c => toks_eqb (print_op (fst c)) (snd c)) cp)).\n")


def parse_lists(out: str):
    """the `= [..] : list N` blocks of a shard's output, in order"""
    res = []
    for m in re.finditer(r"=\s*(\[[^\]]*\]|nil)\s*:\s*list N", out, re.S):
        body = m.group(1).strip("[]")
        res.append([int(x.replace("%N", "")) for x in re.split(r"[;\s]+", body) if x and x != "nil"])
    return res


# ------------------------------------------------------------------ character level (Model/DslLex.v vs Python's re)
def c_chars(s: str) -> str:
    return "[" + ";".join(str(ord(ch)) for ch in s) + "]%N" if s else "(@nil N)"


def c_opt_pair(m, s):
    return "None" if m is None else "Some (%s, %s)" % (c_chars(m.group(0)), c_chars(s[m.end():]))


def gen_lex_cases(rng, n):
    """(kind, input string) for the three token lexers, name_ok and the header split"""
    num, strs, words, names, heads = [], [], [], [], []
    for _ in range(n):
        r = rng.random()
        if r < 0.35:
            s = rng.choice(NUMS + MULTS) + rng.choice(["", "", " ", "e", ".", "x", "\n", "e5", "+1", ".5"])
        elif r < 0.6:
            s = repr(rng.choice([rng.uniform(-1e5, 1e5), rng.random() * 10.0 ** rng.randint(-320, 308), float(rng.randint(0, 10 ** 17))])) + rng.choice(["", " ", "\n"])
        else:
            s = "".join(rng.choice("0123456789.eE+- x") for _ in range(rng.randint(1, 8)))
        num.append(s)
        body = "".join(rng.choice(['"', "\\", "\\", "a", " ", "#", "\n", "한", "x"]) for _ in range(rng.randint(0, 8)))
        strs.append(rng.choice(['"', '"', '"', "a"]) + body + rng.choice(['"', '" tail', ""]))
        names.append(body if rng.random() < 0.7 else rng.choice(NAMES))
        words.append("".join(rng.choice("abXYZz 9_é\"") for _ in range(rng.randint(0, 6))))
        ls = [rng.choice(["---", "--- x", "--", "a: 1", "", "----", " ---", "#---", "USE \"---\""]) for _ in range(rng.randint(0, 6))]
        heads.append((rng.choice(["---", "a: 1", "x"]), ls))
    return num, strs, words, names, heads


def lex_shard(num, strs, words, names, heads) -> str:
    def lst(ty, items):
        return "[" + ";\n ".join(items) + "]" if items else "(@nil %s)" % ty
    pair_ty = "(list N * option (list N * list N))"
    n_ = lst(pair_ty, ["(%s, %s)" % (c_chars(s), c_opt_pair(RE_NUM.match(s), s)) for s in num])
    s_ = lst(pair_ty, ["(%s, %s)" % (c_chars(s), "None" if not RE_STR.match(s) else
                                        "Some (%s, %s)" % (c_chars(RE_STR.match(s).group(0)[1:-1]), c_chars(s[RE_STR.match(s).end():]))) for s in strs])
    w_ = lst(pair_ty, ["(%s, %s)" % (c_chars(s), c_opt_pair(RE_WORD.match(s), s)) for s in words])

    def nm_ok(x):
        m = RE_STR.match('"' + x + '"')
        return bool(m) and m.end() == len(x) + 2
    k_ = lst("(list N * bool)", ["(%s, %s)" % (c_chars(x), "true" if nm_ok(x) else "false") for x in names])

    def hd(first, ls):
        text = "\n".join([first] + ls)
        m = RE_HEADER.match(text)
        lark = None if not m else text[:m.end()].count("\n") - 1
        parts = text.split("\n---")
        api = None if len(parts) < 2 else parts[0].count("\n")
        f = lambda v: "None" if v is None else "Some %d%%nat" % v
        return "(%s, (%s, %s))" % (lst("(list N)", [c_chars(l) for l in ls]), f(lark), f(api))
    h_ = lst("(list (list N) * (option nat * option nat))", [hd(f, ls) for f, ls in heads])
    return ("From Coq Require Import List NArith Bool.\nImport ListNotations.\nFrom V.Lib Require Import Corr.\n"
            "From V.Model Require Import Dsl DslEq DslLex.\n"
            "Definition peq := opt_eqb (fun a b : list N * list N => text_eqb (fst a) (fst b) && text_eqb (snd a) (snd b)).\n"
            "Definition idx (r : option (list (list N) * list N * list (list N))) := option_map (fun x => length (fst (fst x))) r.\n"
            "Definition cn : list %s := %s.\nDefinition cs : list %s := %s.\nDefinition cw : list %s := %s.\n"
            "Definition ck : list (list N * bool) := %s.\nDefinition ch : list (list (list N) * (option nat * option nat)) := %s.\n"
            % (pair_ty, n_, pair_ty, s_, pair_ty, w_, k_, h_) +
            "Eval vm_compute in (bad (map (fun c => peq (lex_num (fst c)) (snd c)) cn)).\n"
            "Eval vm_compute in (bad (map (fun c => peq (lex_string (fst c)) (snd c)) cs)).\n"
            "Eval vm_compute in (bad (map (fun c => peq (lex_word (fst c)) (snd c)) cw)).\n"
            "Eval vm_compute in (bad (map (fun c => Bool.eqb (name_ok (fst c)) (snd c)) ck)).\n"
            "Eval vm_compute in (bad (map (fun c => opt_eqb Nat.eqb (idx (lark_header [] (fst c))) (fst (snd c)) && "
            "opt_eqb Nat.eqb (idx (api_header [] (fst c))) (snd (snd c))) ch)).\n")


# ------------------------------------------------------------------ repr shapes (hypothesis of C14_number_*_lex)
RE_FIXED = re.compile(r"-?[0-9]+\.[0-9]+")
RE_SCI = re.compile(r"-?[0-9](\.[0-9]+)?e[+-][0-9]+")


def repr_ok(f: float) -> bool:
    """f"{f}" has one of the two shapes the theorems cover and float() maps it back to f (bit for bit)"""
    s = "%s" % f
    return bool(RE_FIXED.fullmatch(s) or RE_SCI.fullmatch(s)) and bits(float(s)) == bits(f) and f"{f}" == s


# ------------------------------------------------------------------ implementation-side search: the property as stated
def filler_shape(toks):
    return "".join({"SP": "s", "NL": "n", "TAB": "t", "COM": "c"}[t[0]] for t in toks)


RE_SEP_A = re.compile(r"s*c?n+s*")                 # proved fine before every item          (good_sep, GsA)
RE_SEP_B = re.compile(r"s*c?n+([st]*|s*cn[snt]*)")  # proved fine before a plain operation   (good_sep, GsB) -- after n+: no leading n
RE_LEAD_B = re.compile(r"[snt]*|s*cn[snt]*")       # good_lead for a plain first operation
RE_TRAIL = re.compile(r"s*c?")                     # good_trail


def filler_good(where, shape, next_plain):
    """is this filler in the family the theorems prove harmless?"""
    if where == "between":
        if RE_SEP_A.fullmatch(shape):
            return True
        if next_plain:
            m = re.fullmatch(r"(s*c?n+)(.*)", shape, re.S)
            return bool(m) and not m.group(2).startswith("n") and bool(re.fullmatch(r"[snt]*|s*cn[snt]*", m.group(2)))
        return False
    if where == "leading":
        return bool(re.fullmatch(r"s*", shape)) or (next_plain and bool(RE_LEAD_B.fullmatch(shape)))
    return bool(RE_TRAIL.fullmatch(shape))


def classify_layout(where, shape, entry):
    """the open finding a failing filler belongs to when it is NOT in the proved-harmless family
    (None: no finding covers it -> a failure there is a new violation)"""
    if where == "trailing":
        if entry == "sim":                      # parse_simaple_runtime strips the text first
            shape = shape.rstrip("snt")
        if RE_TRAIL.fullmatch(shape):
            return None
        last = shape[shape.rfind("n") + 1:]
        if "n" in shape and "c" in last:
            return "C14-last-line-comment"
        return "C14-trailing-newline"
    if entry == "sim" and where == "leading":
        shape = shape.lstrip("snt")
    if filler_good(where, shape, True) and filler_good(where, shape, False):
        return None
    return "C14-comment-or-blank-lines"
