"""H-report: correspondence and implementation-side search for C13.

Implementation side (REAL code, nothing re-implemented):
    MaximumDealingIntervalFeature._find_maximum_dealing_interval / .find_maximum_dealing_interval,
    SimulationEntry.build (-> _create_damage_log), DamageCalculator.calculate_damage /
    calculate_total_damage / calculate_dpm, DamageShareFeature.update / compute.
Model side: Model/Window.v, gen/WindowSrc.v (regenerated from the source), Model/Report.v, run by
`vm_compute` inside coqc; Coq itself compares and prints the indices that differ.

Everything generated here is integer valued (or dyadic and scaled to integers), so Python's floats
are exact and the comparison is exact; only quotients (dpm, shares) use the rounding-noise rule.
"""
from __future__ import annotations

import itertools
import json
import math
import re
import sys
from fractions import Fraction

from lib.vf import REPO, coq_list, qlit, zlit

# The tree under test must be the one that gets imported (simaple is an editable install of /repo and
# tools/check.py puts /repo first): VERIF_REPO=<scratch tree> is how a mutated copy is checked.
if str(REPO) != "/repo":
    if "simaple" in sys.modules:
        raise RuntimeError("simaple was imported before lib.h_report could select VERIF_REPO=%s" % REPO)
    sys.path[:] = [p for p in sys.path if p.rstrip("/") != "/repo"]
    sys.path.insert(0, str(REPO))

DAMAGE, DOT = "global.damage", "global.dot"
OTHER_TAGS = ["global.accept", "global.reject", "global.delay", "global.elapsed", "global.mob", "global.keydown_end", None, "x.custom"]
BUFF_FIELDS = ("STR", "attack_power", "damage_multiplier")     # linear fields of Stat.__add__ (Buff := Q*Q*Q in the shards)
TOL = 1e-9


def impl_origin() -> str:
    import simaple
    return simaple.__file__


# ===================================================================== window: specification in Python
def naive_window(seq, L):
    """The property's exhaustive search, written independently of the implementation: for every start
    index the shortest window whose clock span reaches L (end entry excluded), first strict maximum."""
    best, bs, be = 0, 0, 0
    n = len(seq)
    for s in range(n):
        e = None
        for j in range(s, n):
            if seq[j][0] - seq[s][0] >= L:
                e = j
                break
        if e is None:
            continue
        w = 0.0
        for k in range(s, e):
            w += seq[k][1]
        if w > best:
            best, bs, be = w, s, e
    return best, bs, be


def impl_window(seq, L):
    from simaple.simulate.report.feature import MaximumDealingIntervalFeature
    try:
        r = MaximumDealingIntervalFeature(L)._find_maximum_dealing_interval(list(seq))
        return ("ok", r[0], r[1], r[2])
    except IndexError:
        return ("IndexError",)


def family_member(seq, L, s, e):
    """(s, e) is the shortest window from s reaching L"""
    n = len(seq)
    if not (0 <= s <= e < n) or seq[e][0] - seq[s][0] < L:
        return False
    return all(seq[j][0] - seq[s][0] < L for j in range(s, e))


def judge_window(seq, L, r, exp=None):
    """The property AS STATED on one answer r = (best, start, end) of the real code (L > 0, clocks sorted): best is the maximum
    found by exhaustive search, the indices reproduce it, and they are a window of the family (or (0, 0) with best 0).
    Which of several equally good windows is reported is not part of the property (that is model faithfulness)."""
    exp = exp or naive_window(seq, L)
    best, bs, be = r
    if not (0 <= bs <= len(seq) and 0 <= be <= len(seq)):
        return {"what": "window indices out of range", "seq": seq, "L": L, "expected": list(exp), "observed": list(r)}
    rep = 0.0
    for k in range(bs, be):
        rep += seq[k][1]
    if rep != best:
        return {"what": "reported window indices do not reproduce the reported damage", "seq": seq, "L": L,
                "expected": rep, "observed": list(r)}
    if best != exp[0]:
        return {"what": "reported window is not the maximum found by exhaustive search", "seq": seq, "L": L,
                "expected": list(exp), "observed": list(r)}
    if not ((best == 0 and bs == 0 and be == 0) or family_member(seq, L, bs, be)):
        return {"what": "reported indices are not a window of at least the requested length (shortest from its start)", "seq": seq, "L": L,
                "expected": list(exp), "observed": list(r)}
    return None


def window_violation(seq, L):
    """None, or a description of how the real scan violates the property as stated on (seq, L); L > 0, clocks sorted."""
    r = impl_window(seq, L)
    if r[0] != "ok":
        return {"what": "window scan raises %s for L > 0" % r[0], "seq": seq, "L": L, "expected": list(naive_window(seq, L)), "observed": list(r)}
    return judge_window(seq, L, r[1:])


def brute_force_windows(max_n, incs=(0, 1, 2), dmgs=(0, 1, 2), budget=None, stride=1):
    """All clock lists 0, +inc, ... and damage lists over small alphabets up to length max_n, every L from 1 to span+1."""
    tried, found = 0, []
    k = 0
    for n in range(0, max_n + 1):
        for inc in itertools.product(incs, repeat=max(0, n - 1)):
            clocks = [0]
            for d in inc:
                clocks.append(clocks[-1] + d)
            clocks = clocks[:n]
            span = clocks[-1] if clocks else 0
            for dm in itertools.product(dmgs, repeat=n):
                k += 1
                if k % stride:
                    continue
                seq = [(float(c), float(d)) for c, d in zip(clocks, dm)]
                for L in range(1, span + 2):
                    tried += 1
                    v = window_violation(seq, L)
                    if v:
                        found.append(v)
                        if len(found) >= 5:
                            return tried, found
            if budget is not None and not budget.ok():
                return tried, found
    return tried, found


# ===================================================================== window: case generation
def gen_window_case(rng):
    """(L, seq, meta) with integer clocks/damages; corners: equal clocks, zero damages, empty/singleton, L at/around spans."""
    r = rng.random()
    n = 0 if r < 0.04 else 1 if r < 0.09 else 2 if r < 0.16 else rng.randint(3, 12) if r < 0.9 else rng.randint(13, 40)
    shape = rng.choice(["mixed", "mixed", "equal-heavy", "unit", "sparse", "all-equal"])
    c = rng.choice([0, 0, 0, 7, 1000])
    clocks = []
    for _ in range(n):
        clocks.append(c)
        if shape == "unit":
            c += 1
        elif shape == "all-equal":
            c += 0
        elif shape == "equal-heavy":
            c += rng.choice([0, 0, 0, 1, 2])
        elif shape == "sparse":
            c += rng.choice([0, 1, 30, 500, 30000])
        else:
            c += rng.choice([0, 0, 1, 1, 2, 3, 5, 10])
    zd = rng.choice([0.0, 0.3, 0.3, 0.7, 1.0])
    neg = rng.random() < 0.06
    dmg = []
    for _ in range(n):
        x = rng.random()
        if x < zd:
            dmg.append(0)
        elif neg and x > 0.85:
            dmg.append(-rng.randint(1, 5))
        else:
            dmg.append(rng.choice([1, 1, 2, 3, 5, 100, 100, 300, rng.randint(1, 1000)]))
    spans = sorted({clocks[j] - clocks[i] for i in range(n) for j in range(i, n)}) if n else [0]
    total = clocks[-1] - clocks[0] if n else 0
    k = rng.random()
    if k < 0.40:
        L, lk = rng.choice(spans), "exact-span"
    elif k < 0.55:
        L, lk = rng.choice(spans) + rng.choice([-1, 1]), "span+-1"
    elif k < 0.65:
        L, lk = total + rng.choice([0, 1, 1000]), "whole-run-or-more"
    elif k < 0.80:
        L, lk = rng.choice([1, 2, 3, 5]), "small"
    elif k < 0.92:
        L, lk = rng.randint(1, max(2, total + 2)), "random"
    else:
        L, lk = rng.choice([0, 0, -1, -7]), "nonpositive"
    if lk != "nonpositive" and L <= 0:
        L, lk = 1, "small"
    return L, list(zip(clocks, dmg)), {"shape": shape, "L_kind": lk, "n": n}


def split_damage(rng, d):
    """integer damage d as a few integer logs (damage, hit) with sum of damage*hit = d (possibly no log for 0)."""
    if d == 0:
        return [] if rng.random() < 0.6 else [(3, 1), (-3, 1)]
    out, rest = [], d
    while rest != 0 and len(out) < 3 and rng.random() < 0.5:
        part = rng.randint(1, abs(rest)) * (1 if rest > 0 else -1)
        out.append((part, 1))
        rest -= part
    if rest != 0:
        h = 2 if rest % 2 == 0 and rng.random() < 0.5 else 1
        out.append((rest // h, h))
    return out


class StubMixin:
    pass


def stub_calculator():
    """DamageCalculator whose get_damage is an exact integer function of the log (aggregation paths are what C13 is about;
    the real formula is C12's); calculate_damage / calculate_total_damage / calculate_dpm are inherited unchanged."""
    from simaple.core.base import Stat
    from simaple.core.damage import STRBasedDamageLogic
    from simaple.simulate.report.dpm import DamageCalculator

    class StubCalculator(DamageCalculator):
        def get_damage(self, log):
            return log.damage * log.hit * (2 if log.tag == DOT else 1)

    return StubCalculator(character_spec=Stat(), damage_logic=STRBasedDamageLogic(attack_range_constant=1.0, mastery=1.0))


def py_window_result(r):
    return "IndexError" if r[0] != "ok" else "Ok (%s, %d%%nat, %d%%nat)" % (zlit(int(r[1])), r[2], r[3])


def window_cases(rng, n_cases):
    """-> list of dict(kind, L, seq | entries, scale, expected(py), coq_case, meta)"""
    from simaple.simulate.report.base import DamageLog, SimulationEntry
    from simaple.simulate.report.feature import MaximumDealingIntervalFeature
    from simaple.core.base import Stat
    calc = stub_calculator()
    out = []
    for _ in range(n_cases):
        L, seq, meta = gen_window_case(rng)
        mode = rng.random()
        if mode < 0.25 and all(-10**6 < d < 10**6 for _c, d in seq):
            # through the public method: entries with integer logs and the stub calculator
            entries, logs_z = [], []
            for c, d in seq:
                parts = split_damage(rng, d)
                logs = [DamageLog(name="s%d" % rng.randint(0, 3), damage=float(p), hit=float(h), buff=Stat(), tag=DAMAGE) for p, h in parts]
                entries.append(SimulationEntry(action={"name": "a", "method": "use", "payload": None}, clock=float(c),
                                               damage_logs=logs, accepted=True))
                logs_z.append([p * h for p, h in parts])
            try:
                r = MaximumDealingIntervalFeature(L).find_maximum_dealing_interval(entries, calc)
                r = ("ok", r[0], r[1], r[2])
            except IndexError:
                r = ("IndexError",)
            es = coq_list("(%s, %s)" % (zlit(c), coq_list(zlit(x) for x in lz)) for (c, _d), lz in zip(seq, logs_z))
            out.append(dict(kind="feature", L=L, seq=seq, logs=logs_z, result=r, meta=dict(meta, via="entries"),
                            coq="(%s, %s, %s)" % (zlit(L), es, py_window_result(r))))
            continue
        if mode < 0.45:
            # dyadic floats: clocks on a 1/4 grid, damages on a 1/2 grid; the model gets the integers
            fseq = [(c * 0.25, d * 0.5) for c, d in seq]
            r = impl_window(fseq, L * 0.25)
            if r[0] == "ok":
                r = ("ok", r[1] * 2, r[2], r[3])
            meta = dict(meta, via="dyadic")
        else:
            r = impl_window([(float(c), float(d)) for c, d in seq], L)
            meta = dict(meta, via="direct")
        if r[0] == "ok" and float(r[1]) != int(r[1]):
            raise AssertionError("non-integer window value on integer data: %r" % (r,))
        ls = coq_list("(%s, %s)" % (zlit(c), zlit(d)) for c, d in seq)
        out.append(dict(kind="direct", L=L, seq=seq, result=r, meta=meta,
                        coq="(%s, %s, %s)" % (zlit(L), ls, py_window_result(r))))
    return out


WINDOW_PRELUDE = """From Coq Require Import ZArith NArith List Bool.
From V.Lib Require Import PyLoop Corr.
From V.Model Require Import Window.
%s
Import ListNotations.
Open Scope Z_scope.
Definition r_eqb (a b : result (Z * nat * nat)) : bool :=
  match a, b with
  | Ok (w, s, e), Ok (w', s', e') => (w =? w') && Nat.eqb s s' && Nat.eqb e e'
  | IndexError, IndexError => true
  | _, _ => false
  end.
(* model (hand-written), regenerated source model, and -- inside the theorems' domain -- the naive search *)
Definition chk (c : Z * list (Z * Z) * result (Z * nat * nat)) : bool :=
  let '(L, l, exp) := c in
  r_eqb (find_maximum_dealing_interval L l) exp && %s
  && (if (0 <? L) && sortedb l then r_eqb (Ok (naive L l)) exp else true)
  && (if (L <=? 0) && sortedb l && negb (Nat.eqb (length l) 0) then r_eqb IndexError exp else true).
Definition chkf (c : Z * list (Z * list Z) * result (Z * nat * nat)) : bool :=
  let '(L, es, exp) := c in
  r_eqb (feature_of_entries L es) exp && %s.
"""


def window_shard(cases, use_src=True):
    direct = [c["coq"] for c in cases if c["kind"] == "direct"]
    feat = [c["coq"] for c in cases if c["kind"] == "feature"]
    pre = WINDOW_PRELUDE % (
        "From G Require WindowSrc." if use_src else "",
        "r_eqb (WindowSrc.find_maximum_dealing_interval L l) exp" if use_src else "true",
        "r_eqb (WindowSrc.feature_find_maximum_dealing_interval (fun e : Z * list Z => fst e) (fun e => entry_damage (snd e)) L es) exp" if use_src else "true")
    return (pre + "Definition direct : list (Z * list (Z * Z) * result (Z * nat * nat)) :=\n %s.\n" % coq_list(direct)
            + "Definition feat : list (Z * list (Z * list Z) * result (Z * nat * nat)) :=\n %s.\n" % coq_list(feat)
            + "Eval vm_compute in (bad (map chk direct)).\nEval vm_compute in (bad (map chkf feat)).\n")


def parse_lists(out: str):
    """every `= [..]` answer printed by coqc, as lists of ints"""
    res = []
    for m in re.finditer(r"=\s*(\[[^\]]*\]|nil)", out):
        body = m.group(1)
        if body == "nil":
            res.append([])
            continue
        items = [x.strip() for x in body[1:-1].replace("\n", " ").split(";") if x.strip()]
        res.append([int(re.sub(r"%N|%nat|%Z", "", x)) for x in items])
    return res


# ===================================================================== reports: case generation
def gen_stat(rng):
    from simaple.core.base import Stat
    vals = {f: float(rng.choice([0, 0, 1, 3, 10, 25])) for f in BUFF_FIELDS}
    return Stat(**vals)


def gen_event(rng, names):
    name = rng.choice(names)
    t = rng.random()
    tag = DAMAGE if t < 0.5 else DOT if t < 0.72 else rng.choice(OTHER_TAGS)
    if tag in (DAMAGE, DOT):
        dmg = rng.choice([0, 0, 1, 2, 50, 100, 100, 300, rng.randint(1, 900)])
        hit = rng.choice([0, 1, 1, 1, 2, 3, 8])
        mod = None
        m = rng.random()
        payload = {"damage": float(dmg), "hit": float(hit)}
        if m < 0.35:
            mod = gen_stat(rng)
            payload["modifier"] = mod.model_dump()
        elif m < 0.6:
            payload["modifier"] = None
        return {"name": name, "tag": tag, "method": "use", "payload": payload, "handler": None}, (name, tag, dmg, hit, mod)
    payload = rng.choice([{}, {"time": 30.0}, {"damage": 100.0, "hit": 3.0}, {"damage": 0.0, "hit": 0.0}])
    return {"name": name, "tag": tag, "method": "use", "payload": dict(payload), "handler": None}, (
        name, tag, payload.get("damage", 0), payload.get("hit", 0), None)


def buff_vec(stat):
    return tuple(getattr(stat, f) for f in BUFF_FIELDS)


def gen_report_case(rng):
    """A short run: plays = [(clock, buff, events)], integer valued."""
    names = ["s%d" % i for i in range(rng.choice([1, 2, 3, 5]))]
    n = rng.choice([0, 1, 1, 2, 3, 4, 6])
    c = rng.choice([0, 0, 500, 60000])
    plays = []
    for _ in range(n):
        k = rng.choice([0, 1, 1, 2, 3, 5])
        evs = [gen_event(rng, names) for _ in range(k)]
        plays.append((c, gen_stat(rng), evs))
        c += rng.choice([0, 0, 30, 500, 1000, 30000])
    L = rng.choice([1, 30, 500, 1000, 30000, 60000, max(1, c)])
    return plays, L


def run_report_impl(plays, L, calc):
    """Drive the real code over one generated run; returns the observed values (floats/None for exceptions)."""
    from simaple.simulate.base import Checkpoint, PlayLog
    from simaple.simulate.report.base import SimulationEntry
    from simaple.simulate.report.feature import DamageShareFeature, MaximumDealingIntervalFeature
    entries = []
    for clock, buff, evs in plays:
        pl = PlayLog(clock=float(clock), action={"name": "a", "method": "use", "payload": None},
                     events=[e for e, _ in evs], checkpoint=Checkpoint(store_ckpt={}))
        entries.append(SimulationEntry.build(pl, buff))
    obs = {"entries": entries}
    obs["logs"] = [[(l.name, l.tag, l.damage, l.hit, buff_vec(l.buff)) for l in e.damage_logs] for e in entries]
    obs["dmg"] = [calc.calculate_damage(e) for e in entries]
    obs["total"] = calc.calculate_total_damage(entries)
    try:
        obs["dpm"] = calc.calculate_dpm(entries)
    except (IndexError, ZeroDivisionError) as ex:
        obs["dpm"] = None
        obs["dpm_error"] = type(ex).__name__
    f = DamageShareFeature(calc)
    for e in entries:
        f.update(e)
    obs["table"] = dict(f._damage_sum)
    try:
        obs["shares"] = list(f.compute().items())
    except ZeroDivisionError:
        obs["shares"] = None
    try:
        r = MaximumDealingIntervalFeature(L).find_maximum_dealing_interval(entries, calc)
        obs["win"] = ("ok", r[0], r[1], r[2])
    except IndexError:
        obs["win"] = ("IndexError",)
    return obs


def spec_contributes(tag, dmg, hit):
    return tag in (DAMAGE, DOT) and dmg != 0 and hit != 0


def close(a, b, tol=TOL):
    return abs(a - b) <= tol * max(1.0, abs(a), abs(b))


def report_violation(plays, L, obs, gd):
    """The property as stated, checked on what the real code returned for one run (independent arithmetic with Fractions).
    gd(name, tag, dmg, hit) is the per-log damage."""
    # -- damage events contribute exactly once, with the buff in force
    for i, (clock, buff, evs) in enumerate(plays):
        want = []
        for _e, (name, tag, dmg, hit, mod) in evs:
            if spec_contributes(tag, dmg, hit):
                b = buff_vec(buff + mod) if mod is not None else buff_vec(buff)
                want.append((name, tag, float(dmg), float(hit), b))
        if want != obs["logs"][i]:
            return {"what": "damage/DOT events of a play do not map one-to-one to damage logs with the buff in force",
                    "play": i, "expected": want, "observed": obs["logs"][i]}
    per_entry = [sum((Fraction(gd(n, t, d, h)) for (n, t, d, h, _b) in logs), Fraction(0)) for logs in obs["logs"]]
    total = sum(per_entry, Fraction(0))
    for i, (a, b) in enumerate(zip(per_entry, obs["dmg"])):
        if not close(float(a), b):
            return {"what": "per-action damage is not the sum of its logs", "play": i, "expected": float(a), "observed": b}
    if not close(float(total), obs["total"]):
        return {"what": "total damage is not the sum of the per-action damages", "expected": float(total), "observed": obs["total"]}
    per_name = {}
    for logs in obs["logs"]:
        for (n, t, d, h, _b) in logs:
            per_name[n] = per_name.get(n, Fraction(0)) + Fraction(gd(n, t, d, h))
    if set(per_name) != set(obs["table"]) or any(not close(float(per_name[n]), obs["table"][n]) for n in per_name):
        return {"what": "per-skill damages are not the sums of each skill's logs", "expected": {k: float(v) for k, v in per_name.items()},
                "observed": obs["table"]}
    if not close(float(total), sum(obs["table"].values())):
        return {"what": "total damage is not the sum of the per-skill damages", "expected": float(total), "observed": sum(obs["table"].values())}
    if total != 0:
        if obs["shares"] is None:
            return {"what": "shares undefined although the total is non-zero", "expected": "shares", "observed": None}
        sh = dict(obs["shares"])
        if not close(sum(sh.values()), 1.0):
            return {"what": "shares do not sum to one", "expected": 1.0, "observed": sum(sh.values())}
        if all(v >= 0 for v in per_name.values()) and any(v < 0 for v in sh.values()):
            return {"what": "negative share with non-negative damages", "expected": ">= 0", "observed": sh}
        for n in per_name:
            if not close(float(per_name[n] / total), sh.get(n, float("nan"))):
                return {"what": "a share is not skill damage / total", "expected": float(per_name[n] / total), "observed": sh.get(n)}
    if plays and plays[-1][0] != 0:
        if obs["dpm"] is None:
            return {"what": "dpm undefined on a non-empty run with non-zero clock", "expected": "dpm", "observed": obs.get("dpm_error")}
        minutes = Fraction(plays[-1][0]) / 60000
        if not close(float(total / minutes), obs["dpm"]):
            return {"what": "dpm is not total damage per elapsed minute", "expected": float(total / minutes), "observed": obs["dpm"]}
    # -- window over (clock, per-entry damage)
    if L > 0:
        seq = [(float(p[0]), float(d)) for p, d in zip(plays, per_entry)]
        w = obs["win"]
        if w[0] != "ok":
            return {"what": "best dealing window of the run raises %s" % w[0], "L": L, "expected": list(naive_window(seq, L)), "observed": list(w)}
        v = judge_window(seq, L, w[1:])
        if v:
            return dict(v, what=v["what"] + " (window of a generated run)")
    return None


def stub_gd(name, tag, dmg, hit):
    return Fraction(dmg) * Fraction(hit) * (2 if tag == DOT else 1)


# --------------------------------------------------------------------- Coq encoders for report cases
def tag_coq(t):
    return "TDamage" if t == DAMAGE else "TDot" if t == DOT else "TOther"


def buff_coq(v):
    return "(%s, %s, %s)" % tuple(qlit(x) for x in v)


def dlog_coq(intern, l):
    name, tag, dmg, hit, b = l
    return "mk_dlog N B %d%%N %s %s %s %s" % (intern(name), qlit(dmg), qlit(hit), buff_coq(b), tag_coq(tag))


def opt_coq(x, f):
    return "None" if x is None else "(Some %s)" % f(x)


def expected_coq(intern, obs, L, exact, has_win):
    logs = coq_list(coq_list("(" + dlog_coq(intern, l) + ")" for l in ls) for ls in obs["logs"])
    dmg = coq_list(qlit(x) for x in obs["dmg"])
    shares = opt_coq(obs["shares"], lambda sh: coq_list("(%d%%N, %s)" % (intern(n), qlit(v)) for n, v in sh))
    win = py_window_result(obs["win"]) if has_win else "IndexError"
    return "mk_x %s %s %s %s %s %s %s %s %s" % (
        logs, dmg, qlit(obs["total"]), opt_coq(obs["dpm"], qlit), shares, zlit(L), "(%s)" % win,
        "true" if exact else "false", "true" if has_win else "false")


def built_case_coq(intern, plays, obs, L):
    ps = []
    for clock, buff, evs in plays:
        es = []
        for _e, (name, tag, dmg, hit, mod) in evs:
            es.append("mk_event N B %d%%N %s %s %s %s" % (intern(name), tag_coq(tag), qlit(dmg), qlit(hit),
                                                          opt_coq(mod, lambda m: buff_coq(buff_vec(m)))))
        ps.append("(%s, %s, %s)" % (qlit(clock), buff_coq(buff_vec(buff)), coq_list("(" + e + ")" for e in es)))
    return "(%s, %s)" % (coq_list(ps), expected_coq(intern, obs, L, True, True))


def direct_case_coq(intern, clocks, obs):
    """real runs: the entries' logs are given directly, each log carrying the damage Python computed for it (hit 1)."""
    es = []
    for c, ls in zip(clocks, obs["logs"]):
        es.append("mk_entry N B %s %s" % (qlit(c), coq_list("(" + dlog_coq(intern, l) + ")" for l in ls)))
    return "(%s, %s)" % (coq_list("(" + e + ")" for e in es), expected_coq(intern, obs, 0, False, False))


REPORT_PRELUDE = """From Coq Require Import QArith Qround ZArith NArith List Bool.
From V.Lib Require Import PyLoop Corr.
From V.Model Require Import Window Report.
Import ListNotations.
Open Scope Q_scope.
Definition B := (Q * Q * Q)%type.
Definition badd (a b : B) : B := let '(a1, a2, a3) := a in let '(b1, b2, b3) := b in (a1 + b1, a2 + b2, a3 + b3).
Definition beq (a b : B) : bool := let '(a1, a2, a3) := a in let '(b1, b2, b3) := b in qexact a1 b1 && qexact a2 b2 && qexact a3 b3.
Definition tag_eqb (a b : tag) : bool := match a, b with TDamage, TDamage | TDot, TDot | TOther, TOther => true | _, _ => false end.
(* the stub calculator of the harness: damage * hit, doubled for DOT logs *)
Definition gd_stub (l : dlog N B) : Q := l_damage _ _ l * l_hit _ _ l * (match l_tag _ _ l with TDot => 2 | _ => 1 end).
(* real runs: the log carries the damage Python computed for it *)
Definition gd_given (l : dlog N B) : Q := l_damage _ _ l * l_hit _ _ l.
Definition log_eqb (a b : dlog N B) : bool :=
  N.eqb (l_name _ _ a) (l_name _ _ b) && qexact (l_damage _ _ a) (l_damage _ _ b) && qexact (l_hit _ _ a) (l_hit _ _ b)
  && beq (l_buff _ _ a) (l_buff _ _ b) && tag_eqb (l_tag _ _ a) (l_tag _ _ b).
Record expected := mk_x { x_logs : list (list (dlog N B)); x_dmg : list Q; x_total : Q; x_dpm : option Q;
  x_shares : option (list (N * Q)); x_L : Z; x_win : result (Z * nat * nat); x_exact : bool; x_has_win : bool }.
Definition r_eqb (a b : result (Z * nat * nat)) : bool :=
  match a, b with
  | Ok (w, s, e), Ok (w', s', e') => (w =? w')%Z && Nat.eqb s s' && Nat.eqb e e'
  | IndexError, IndexError => true
  | _, _ => false
  end.
(* aspects: 1 logs, 2 per-entry damage, 3 total, 4 dpm, 5 shares, 6 window *)
Definition chk_entries (es : list (entry N B)) (x : expected) : list N :=
  let gd := if x_exact x then gd_stub else gd_given in
  let cmp := if x_exact x then qexact else qclose in
  (if lclose (lclose log_eqb) (map (e_logs N B) es) (x_logs x) then [] else [1%N]) ++
  (if lclose cmp (map (calculate_damage N B gd) es) (x_dmg x) then [] else [2%N]) ++
  (if cmp (calculate_total_damage N B gd es) (x_total x) then [] else [3%N]) ++
  (if oclose qclose (calculate_dpm N B gd es) (x_dpm x) then [] else [4%N]) ++
  (if oclose (lclose (fun p q : N * Q => N.eqb (fst p) (fst q) && qclose (snd p) (snd q))) (shares N N.eqb B gd es) (x_shares x)
   then [] else [5%N]) ++
  (if negb (x_has_win x) ||
      r_eqb (feature_of_entries (x_L x) (map (fun e => (Qfloor (e_clock N B e), map (fun l => Qfloor (gd l)) (e_logs N B e))) es)) (x_win x)
   then [] else [6%N]).
Definition chk_built (c : list (Q * B * list (event N B)) * expected) : list N :=
  chk_entries (map (fun p => build N B badd (fst (fst p)) (snd p) (snd (fst p))) (fst c)) (snd c).
Definition chk_direct (c : list (entry N B) * expected) : list N := chk_entries (fst c) (snd c).
Fixpoint flag (i : N) (l : list (list N)) : list N :=
  match l with [] => [] | r :: t => map (fun a => (10 * i + a)%N) r ++ flag (N.succ i) t end.
"""


def report_shard(built, direct):
    return (REPORT_PRELUDE
            + "Definition built : list (list (Q * B * list (event N B)) * expected) :=\n %s.\n" % coq_list(built)
            + "Definition direct : list (list (entry N B) * expected) :=\n %s.\n" % coq_list(direct)
            + "Eval vm_compute in (flag 0 (map chk_built built)).\nEval vm_compute in (flag 0 (map chk_direct direct)).\n")


ASPECT = {1: "damage logs of an entry", 2: "per-entry damage", 3: "total damage", 4: "dpm", 5: "shares", 6: "best dealing window"}


# ===================================================================== real engine runs
def real_run(rng, job, variant, n_cmds):
    """One random plan on a real engine; returns (lines, engine, entries, calculator)."""
    from simaple.container.simulation import get_damage_calculator
    from lib import simenv
    lines = simenv.random_plan(rng, job, variant, n_cmds, console=False)
    eng = simenv.make_engine(job, variant)
    for c in simenv.parse_commands(lines):
        eng.exec(c)
    calc = get_damage_calculator(simenv.get_env(job, variant))
    return lines, eng, list(eng.simulation_entries()), calc


def real_session(rng, job, variant, n_cmds, rounds=3):
    """An editing session on ONE real engine: run a plan that contains console lines, read the report, then `rounds` times:
    roll back to a random operation index (often right after a console entry) or reload a prefix of the logs, read the
    report, execute a few other commands, read the report again.  Yields (label, lines, engine, entries) after every
    reading; `lines` are the surviving commands (the plan a fresh engine would have to run to be in the same state)."""
    from lib import simenv
    lines = []
    while len(lines) < n_cmds:          # console-rich: the operation index and the play index drift apart
        lines.append(simenv.random_command_text(rng, job, variant, console=True))
        if rng.random() < 0.35:
            lines.append(rng.choice(simenv.DEBUGS))
    eng = simenv.make_engine(job, variant)
    for c in simenv.parse_commands(lines):
        eng.exec(c)
    yield "initial run", list(lines), eng, list(eng.simulation_entries())
    for r in range(rounds):
        n_ops = len(list(eng.operation_logs()))
        if n_ops < 2:
            break
        ops = list(eng.operation_logs())
        consoles = [i for i, o in enumerate(ops) if not o.playlogs and i > 0]
        idx = rng.choice(consoles) if consoles and rng.random() < 0.6 else rng.randrange(0, n_ops)
        if rng.random() < 0.75:
            eng.rollback(idx)
            how = "rollback(%d)" % idx
        else:
            eng.reload(ops[:idx + 1])
            how = "reload(first %d logs)" % (idx + 1)
        # operation log 0 is the initial (empty-command) entry: operation i (i >= 1) is command i-1
        lines = lines[:idx]
        yield "after %s" % how, list(lines), eng, list(eng.simulation_entries())
        more = [simenv.random_command_text(rng, job, variant, console=True) for _ in range(rng.randint(1, 6))]
        for c in simenv.parse_commands(more):
            eng.exec(c)
        lines = lines + more
        yield "after %s and %d more commands" % (how, len(more)), list(lines), eng, list(eng.simulation_entries())


def real_run_violation(eng, entries, calc, Ls):
    """The property on a real run, up to rounding noise (floats).  Returns (violation | None, stats)."""
    from simaple.simulate.report.feature import DamageShareFeature, MaximumDealingIntervalFeature
    from simaple.api.base import _extract_engine_history_as_response
    stats = {"entries": len(entries), "logs": 0, "events": 0, "zero_events": 0}
    # events -> logs, with the buff in force at the play's checkpoint
    playlogs = list(eng._history.playlogs())
    if len(playlogs) != len(entries):
        return {"what": "simulation_entries() does not yield one entry per play", "expected": len(playlogs), "observed": len(entries)}, stats
    for i, (pl, en) in enumerate(zip(playlogs, entries)):
        if en.clock != pl.clock or en.action != pl.action:
            return {"what": "report entry %d does not describe play %d of the history (clock/action differ)" % (i, i), "play": i,
                    "expected": {"clock": pl.clock, "action": pl.action}, "observed": {"clock": en.clock, "action": en.action}}, stats
        buff = eng.get_viewer(pl)("buff")
        want = []
        for ev in pl.events:
            stats["events"] += 1
            if ev["tag"] in (DAMAGE, DOT):
                d, h = ev["payload"]["damage"], ev["payload"]["hit"]
                if d == 0 or h == 0:
                    stats["zero_events"] += 1
                    continue
                from simaple.core.base import Stat
                b = buff
                if ev["payload"].get("modifier") is not None:
                    b = buff + Stat.model_validate(ev["payload"]["modifier"])
                want.append((ev["name"], ev["tag"], float(d), float(h), b.model_dump()))
        got = [(l.name, l.tag, l.damage, l.hit, l.buff.model_dump()) for l in en.damage_logs]
        if want != got:
            return {"what": "damage/DOT events of a play do not map one-to-one to damage logs with the buff in force",
                    "play": i, "expected": [w[:4] for w in want], "observed": [g[:4] for g in got]}, stats
        stats["logs"] += len(got)
    per_log = [[calc.get_damage(l) for l in en.damage_logs] for en in entries]
    per_entry = [math.fsum(x) for x in per_log]
    total = math.fsum(per_entry)
    for i, en in enumerate(entries):
        v = calc.calculate_damage(en)
        if not close(v, per_entry[i]):
            return {"what": "per-action damage is not the sum of its logs", "play": i, "expected": per_entry[i], "observed": v}, stats
    t = calc.calculate_total_damage(entries)
    if not close(t, total):
        return {"what": "total damage is not the sum of the per-action damages", "expected": total, "observed": t}, stats
    f = DamageShareFeature(calc)
    per_name = {}
    for en, vals in zip(entries, per_log):
        f.update(en)
        for l, v in zip(en.damage_logs, vals):
            per_name.setdefault(l.name, []).append(v)
    per_name = {k: math.fsum(v) for k, v in per_name.items()}
    table = dict(f._damage_sum)
    if set(table) != set(per_name) or any(not close(table[k], per_name[k]) for k in table):
        return {"what": "per-skill damages are not the sums of each skill's logs", "expected": per_name, "observed": table}, stats
    if not close(math.fsum(table.values()), total):
        return {"what": "total damage is not the sum of the per-skill damages", "expected": total, "observed": math.fsum(table.values())}, stats
    stats["total"] = total
    if total != 0:
        sh = f.compute()
        # (an environment whose armour term is negative -- ignored_defence 0 against armour 300 -- yields negative log damages:
        #  the property's "non-negative" presupposes non-negative damages, as C13_shares_nonneg does; counted, not judged)
        neg = sum(1 for vals in per_log for v in vals if v < 0)
        stats["negative_log_damages"] = neg
        if not close(math.fsum(sh.values()), 1.0):
            return {"what": "shares do not sum to one", "expected": 1.0, "observed": sh}, stats
        if neg == 0 and any(v < 0 for v in sh.values()):
            return {"what": "negative share although every log damage is non-negative", "expected": ">= 0", "observed": sh}, stats
        stats["skills"] = len(sh)
    if entries and entries[-1].clock != 0:
        try:
            dpm = calc.calculate_dpm(entries)
        except (IndexError, ZeroDivisionError) as ex:
            return {"what": "dpm undefined on a non-empty run with non-zero final clock (real run)", "expected": "dpm", "observed": repr(ex)}, stats
        if not close(dpm * (entries[-1].clock / 60000.0), total):
            return {"what": "dpm is not total damage per elapsed minute", "expected": total / (entries[-1].clock / 60000.0), "observed": dpm}, stats
        stats["dpm"] = dpm
    # API view of the same run
    resp = _extract_engine_history_as_response(eng, calc)
    api_total = []
    for op in resp:
        for pr in op.logs:
            if not close(pr.total_damage, math.fsum(r.damage for r in pr.damage_records)):
                return {"what": "PlayLogResponse.total_damage is not the sum of its damage_records", "expected":
                        math.fsum(r.damage for r in pr.damage_records), "observed": pr.total_damage}, stats
            api_total.append(pr.total_damage)
    if not close(math.fsum(api_total), total):
        return {"what": "sum of PlayLogResponse.total_damage is not the run's total", "expected": total, "observed": math.fsum(api_total)}, stats
    # window: same float operations in the same order -> exact agreement expected
    seq = [(en.clock, calc.calculate_damage(en)) for en in entries]
    if any(seq[i][0] > seq[i + 1][0] for i in range(len(seq) - 1)):
        stats["unsorted_clocks"] = True
        return None, stats
    stats["windows"] = 0
    for L in Ls:
        r = MaximumDealingIntervalFeature(L).find_maximum_dealing_interval(entries, calc)
        stats["windows"] += 1
        v = judge_window(seq, L, tuple(r))
        if v:
            v = dict(v, what=v["what"] + " (real run)")
            v.pop("seq", None)
            return v, stats
    return None, stats


def real_run_obs(entries, calc):
    """observed values of a real run in the shape of run_report_impl (logs carry Python's per-log damage, hit 1)."""
    from simaple.simulate.report.feature import DamageShareFeature
    obs = {}
    obs["logs"] = [[(l.name, l.tag, calc.get_damage(l), 1, (0, 0, 0)) for l in e.damage_logs] for e in entries]
    obs["dmg"] = [calc.calculate_damage(e) for e in entries]
    obs["total"] = calc.calculate_total_damage(entries)
    try:
        obs["dpm"] = calc.calculate_dpm(entries)
    except (IndexError, ZeroDivisionError):
        obs["dpm"] = None
    f = DamageShareFeature(calc)
    for e in entries:
        f.update(e)
    try:
        obs["shares"] = list(f.compute().items())
    except ZeroDivisionError:
        obs["shares"] = None
    obs["win"] = ("IndexError",)
    return obs


def dumpable(x):
    return json.loads(json.dumps(x, default=str, ensure_ascii=False))
