"""Correspondence shards for translator-generated numeric models (both instances)."""
from __future__ import annotations

import re
from fractions import Fraction

from lib.pynum import float_lit


def parse_type(s: str):
    return eval(s)      # the reprs written by the translator: 'Q', ('rec','Stat'), ...


def qlit(x) -> str:
    f = Fraction(x)
    if f < 0:
        return "((-%d)#%d)" % (-f.numerator, f.denominator)
    return "(%d#%d)" % (f.numerator, f.denominator)


def flit(x) -> str:
    return "(%s)%%float" % float_lit(float(x))


def enc(v, t, dom, meta):
    p = "F" if dom == "F" else ""
    if t == "Q":
        return flit(v) if dom == "F" else qlit(v)
    if t == "B":
        return "true" if v else "false"
    if t == "S":
        return '"%s"%%string' % v
    if t[0] == "rec":
        fs = meta["records"][t[1]]
        ts = meta["record_types"][t[1]]
        return "(%smk%s %s)" % (p, t[1], " ".join(enc(getattr(v, f), parse_type(ft), dom, meta) for f, ft in zip(fs, ts)))
    if t[0] == "list":
        return "[" + "; ".join(enc(x, t[1], dom, meta) for x in v) + "]"
    if t[0] == "opt":
        return "None" if v is None else "(Some %s)" % enc(v, t[1], dom, meta)
    raise ValueError(t)


def cmpname(t, dom, exact=False):
    if t == "Q":
        return "feq" if dom == "F" else ("qexact" if exact else "qclose")
    if t == "B":
        return "Bool.eqb"
    if t == "S":
        return "String.eqb"
    if t[0] == "rec":
        return "%s%s_cmp" % ("F" if dom == "F" else "", t[1])
    if t[0] == "list":
        return "(lclose %s)" % cmpname(t[1], dom, exact)
    if t[0] == "opt":
        return "(oclose %s)" % cmpname(t[1], dom, exact)
    raise ValueError(t)


def header(dom, meta, genmod, exact=False):
    p = "F" if dom == "F" else ""
    out = ["From Coq Require Import QArith Qround Qabs Qminmax ZArith NArith List Bool PrimFloat String.",
           "From V.Lib Require Import Corr PyNum.", "From G Require Import %s." % genmod,
           "Import ListNotations.", "Open Scope Q_scope." if dom == "Q" else ""]
    for c, fs in meta["records"].items():
        ts = [parse_type(x) for x in meta["record_types"][c]]
        conj = " && ".join("%s (%s%s_%s a) (%s%s_%s b)" % (cmpname(t, dom, exact), p, c, f, p, c, f) for f, t in zip(fs, ts)) or "true"
        out.append("Definition %s%s_cmp (a b : %s%s) : bool := %s." % (p, c, p, c, conj))
    return "\n".join(out) + "\n"


def shards(cases, dom, meta, genmod, name, per=300, exact=False):
    """cases: list of (defname, [args], expected). Returns {shardname: text}."""
    p = "F" if dom == "F" else ""
    out = {}
    hd = header(dom, meta, genmod, exact)
    for k in range(0, len(cases), per):
        lines = [hd, "Definition cases : list bool := ["]
        items = []
        for (fn, args, exp) in cases[k:k + per]:
            d = meta["defs"][fn]
            pts = [parse_type(t) for (_n, t) in d["params"]]
            rt = parse_type(d["ret"])
            a = " ".join(enc(v, t, dom, meta) for v, t in zip(args, pts))
            items.append("  %s (%s%s %s) %s" % (cmpname(rt, dom, exact), p, fn, a, enc(exp, rt, dom, meta)))
        lines.append(";\n".join(items))
        lines.append("].")
        lines.append("Eval vm_compute in (bad cases).")
        out["%s_%s_%03d" % (name, dom, k // per)] = "\n".join(lines) + "\n"
    return out


def parse_bad(output: str):
    """Indices printed by `Eval vm_compute in (bad cases)`; None if the output is not understood."""
    m = re.search(r"=\s*\[(.*?)\]\s*:\s*list N", output, re.S)
    if not m:
        return None
    body = m.group(1).strip()
    if not body:
        return []
    return [int(x.strip().replace("%N", "")) for x in body.split(";")]
