"""Shared driver for the engine-level properties (C01, C03, C04, C05, C06)."""
from __future__ import annotations

import json
import time

from lib import h_engine, simenv
from lib.vf import Ctx


def err_of(log):
    i = log.find("Error")
    return " ".join(log[max(0, i - 300):i + 500].split()) if i >= 0 else log[-500:]


def build_and_check_props(ctx: Ctx, props_files, extra_targets=()):
    targets = [p.replace(".v", ".vo") for p in props_files] + list(extra_targets) + ["theories/Model/EngineInst.vo"]
    ok, log, failed = ctx.build(targets)
    if not ok:
        ctx.broken.append("Coq build failed at %s: %s" % (failed, err_of(log)))
        ctx.obligations += 1
        return False
    good = True
    for p in props_files:
        good = ctx.check_props(p) and good
    return good


def translate_engine_sources(ctx: Ctx) -> bool:
    """the engine glue, the history bookkeeping, the operation handlers and the store's save/load, regenerated from the tree under test by the three
    translators (each fail closed); False when one of them rejects the source (reported as a broken obligation)"""
    import tr_engine
    import tr_handlers
    import tr_history
    from lib.vf import REPO
    ok, info = True, {}
    import tr_store
    for mod, stem in ((tr_history, "HistorySrc"), (tr_handlers, "HandlersSrc"), (tr_engine, "EngineSrc"), (tr_store, "StoreSrc")):
        try:
            files, meta = mod.gen(str(REPO))
        except Exception as e:      # noqa: BLE001
            ctx.prepare_coq()
            for f in (ctx.coq / "gen").glob(stem + ".*"):
                f.unlink()
            ctx.broken.append("translator tools/%s.py rejects the source: %s" % (mod.__name__, str(e)[:300]))
            ctx.obligations += 1
            info[mod.__name__] = {"rejected": str(e)[:300]}
            ok = False
            continue
        for n, t in files.items():
            ctx.write_gen(n, t)
        info[mod.__name__] = {"rejected": None, "functions": meta["functions"]}
    ctx.cov.setdefault("translators", {}).update(info)
    return ok


def run_engine_shards(ctx: Ctx, shards: dict, parse):
    """Evaluate scenario shards; returns name -> parsed result."""
    res = ctx.coq_eval(shards)
    out = {}
    for n, (rc, txt) in res.items():
        out[n] = parse(txt) if rc == 0 else ("unparsed", txt[-400:])
    return out


def norm_logs(logs):
    return h_engine.norm(h_engine.logs_json(logs))


def first_log_diff(a, b):
    for i, (x, y) in enumerate(zip(a, b)):
        if x != y:
            keys = [k for k in x if x.get(k) != y.get(k)] if isinstance(x, dict) else []
            return i, keys
    if len(a) != len(b):
        return min(len(a), len(b)), ["length %d vs %d" % (len(a), len(b))]
    return None


def job_schedule(ctx: Ctx, n: int):
    """n (job, variant) pairs: rotate through all jobs, seeded."""
    rng = ctx.rng
    jobs = list(simenv.JOBS)
    rng.shuffle(jobs)
    out = []
    for i in range(n):
        out.append((jobs[i % len(jobs)], rng.choice([0, 1, 1, 2])))
    return out


class Budget:
    def __init__(self, seconds):
        self.t0 = time.time()
        self.s = seconds

    def left(self):
        return self.s - (time.time() - self.t0)

    def ok(self):
        return self.left() > 0
