"""H-levels: correspondence harness and implementation-side search for C16.

Two layers tie gen/Formulas.v + gen/Profiles.v (tools/tr_yaml.py) and Model/LevelsBuilt.v to the implementation:

  layer A  every '{{ }}' formula of every specification x every level of its documented range: the REAL
           SkillLevelPatch(...).apply + ArithmeticPatch(...).apply on the specification's data (textual substitution, Lark)
           against Coq's `fval` (bind the level, evaluate the extracted expression) AND Coq's `fval_text` (substitute the level
           into the extracted TOKENS, parse with Model/ExprParse.v, evaluate): substitute-then-parse == bind-then-eval.
  layer B  real `get_skill_components(environment)` on environments made by MinimalEnvironmentProvider (+ passive level):
           every formula-backed or patch-touched scalar field (`figure_value`), every modifier / stat block
           (`block_value`: v improvement, hexa improvement, hyper skills through the generated Stat_add), the list of built
           names (`built_names`) and the provider's level map (`skill_levels_of`).

Implementation-side checks (the property as stated, no model involved): names unique, replacement rule, the engine
builds, random well-formed plans run to completion, and single-axis sweeps in which no damage figure of any built
component may decrease.
"""
from __future__ import annotations

import copy
import math
import multiprocessing
import os
import re
import sys
import time
import traceback
from fractions import Fraction

from lib import vf
from lib.vf import qlit

# the implementation under test is vf.REPO (VERIF_REPO for scratch copies); make sure THAT tree is imported
_repo = str(vf.REPO)
sys.path[:] = [_repo] + [p for p in sys.path if p not in (_repo, "/repo")]
for _m in [m for m in sys.modules if m == "simaple" or m.startswith("simaple.")]:
    if not (getattr(sys.modules[_m], "__file__", None) or "").startswith(_repo + "/"):
        del sys.modules[_m]

import tr_yaml  # noqa: E402

JOBS = ["adele", "archmagefb", "archmagetc", "bishop", "dualblade", "mechanic", "soulmaster", "windbreaker"]
AXES = ["v", "h", "m", "vi", "hi", "c", "p"]
AXIS_RANGE = {"v": (0, 30), "h": (0, 30), "m": (0, 30), "vi": (0, 60), "hi": (0, 30), "c": (0, 2), "p": (0, 2)}
# boundary values of each axis: both ends, their neighbours, and both sides of every threshold the code has
# (v improvement bonus at > 40; hexa improvement table bands 1..9 / 10..19 / 20..29 / 30)
BOUNDARY = {"v": [0, 1, 29, 30], "h": [0, 1, 29, 30], "m": [0, 1, 29, 30], "vi": [0, 1, 40, 41, 59, 60],
            "hi": [0, 1, 9, 10, 19, 20, 29, 30], "c": [0, 1, 2], "p": [0, 1, 2]}
GRID = {"v": [0, 1, 30], "h": [0, 1, 30], "m": [0, 1, 30], "vi": [0, 40, 41, 60], "hi": [0, 9, 10, 30], "c": [0, 2], "p": [0, 2]}

STATS = [
    dict(level=270, wap=0, wpap=0, stat=dict(INT=1000, STR=1000, LUK=1000, DEX=1000, magic_attack=100, attack_power=100)),
    dict(level=285, wap=300, wpap=283, stat=dict(INT=41250, STR=4000, LUK=4000, DEX=4000, magic_attack=2500, attack_power=2500,
                                                  critical_rate=100, critical_damage=50, boss_damage_multiplier=200,
                                                  ignored_defence=92, final_damage_multiplier=40)),
    dict(level=200, wap=171, wpap=150, stat=dict(INT=4999, STR=15, LUK=4, DEX=25000, magic_attack=1, attack_power=1, critical_rate=37)),
]
DEFAULT_LEVELS = dict(v=30, h=1, m=1, vi=60, hi=0, c=1, p=0)

META = None            # set by the parent before the pool forks


def simaple_origin() -> str:
    import simaple
    return os.path.dirname(simaple.__file__)


# =========================================================================================== environments
def make_cfg(job, sv=0, **levels):
    d = dict(DEFAULT_LEVELS)
    d.update(levels)
    d.update(job=job, sv=sv)
    return d


def build_env(cfg):
    from simaple.container.environment_provider import MinimalEnvironmentProvider
    from simaple.core import ActionStat, JobType, Stat
    s = STATS[cfg["sv"]]
    prov = MinimalEnvironmentProvider(
        level=s["level"], action_stat=ActionStat(), stat=Stat(**s["stat"]), jobtype=JobType(cfg["job"]),
        weapon_pure_attack_power=s["wpap"], weapon_attack_power=s["wap"], combat_orders_level=cfg["c"],
        v_skill_level=cfg["v"], hexa_skill_level=cfg["h"], hexa_mastery_level=cfg["m"],
        v_improvements_level=cfg["vi"], hexa_improvements_level=cfg["hi"])
    env = prov.get_simulation_environment()
    if cfg["p"] != env.passive_skill_level:
        env = env.model_copy(update={"passive_skill_level": cfg["p"]})     # the minimal provider always says 0
    if cfg.get("skill_levels_override"):
        # per-skill levels (what SimulationEnvironment.skill_levels / the providers' *_skill_levels overrides allow): the axes above
        # give every skill of a kind the same level, the theorems (C16_exclude_hexa_iff) speak about EVERY level map
        lv = dict(env.skill_levels)
        lv.update(cfg["skill_levels_override"])
        env = env.model_copy(update={"skill_levels": lv})
    return env


def reference_variables(env):
    """the variables ArithmeticPatch receives inside build_skills, as get_skill_components passes them"""
    from simaple.data.jobs import builtin
    return builtin._as_reference_variables({
        "character_stat": env.character.stat, "character_level": env.level, "weapon_attack_power": env.weapon_attack_power,
        "weapon_pure_attack_power": env.weapon_pure_attack_power, "passive_skill_level": env.passive_skill_level,
        "combat_orders_level": env.combat_orders_level})


def walk_path(d, path):
    cur = d
    for p in path:
        if isinstance(cur, dict):
            if p not in cur:
                return None
            cur = cur[p]
        elif isinstance(cur, (list, tuple)):
            if not p.isdigit() or int(p) >= len(cur):
                return None
            cur = cur[int(p)]
        else:
            return None
    return cur


def num_leaves(d, path=()):
    if isinstance(d, dict):
        for k, v in d.items():
            yield from num_leaves(v, path + (str(k),))
    elif isinstance(d, (list, tuple)):
        for i, v in enumerate(d):
            yield from num_leaves(v, path + (str(i),))
    elif isinstance(d, (int, float)) and not isinstance(d, bool):
        yield path, d


def observe(cfg, want_engine=False, want_model=True, plan=None):
    """Build the components of one configuration; everything JSON-able.  Never raises."""
    out = {"cfg": cfg, "error": None}
    try:
        from simaple.container.simulation import get_operation_engine, get_skill_components
        env = build_env(cfg)
        out["skill_levels"] = dict(env.skill_levels)
        out["hexa_improvement_levels"] = dict(env.hexa_improvement_levels)
        comps = get_skill_components(env)
        names = [c.name for c in comps]
        out["names"] = names
        dumps = {c.name: c.model_dump() for c in comps}
        stat_fields = META["stat_fields"]
        dmg = {}
        for n, d in dumps.items():
            for path, v in num_leaves(d):
                if tr_yaml.is_damage_path(list(path), stat_fields) and math.isfinite(v):
                    dmg[n + "\t" + ".".join(path)] = v
        out["damage_fields"] = dmg
        if want_model:
            out["vars"] = {k: (None if v is None else float(v)) for k, v in reference_variables(env).items()}
            figs, blks, missing = {}, {}, []
            for g in META["figures_by_job"][cfg["job"]]:
                if g["skill"] not in dumps:
                    continue
                v = walk_path(dumps[g["skill"]], g["path"])
                if isinstance(v, bool) or not isinstance(v, (int, float)):
                    missing.append((g["skill"], ".".join(g["path"]), repr(v)[:40]))
                    continue
                figs[g["id"]] = v
            for b in META["sblocks_by_job"][cfg["job"]]:
                if b["skill"] not in dumps:
                    continue
                v = dumps[b["skill"]].get(b["key"], "absent")
                if v is None:
                    v = {}
                if not isinstance(v, dict):
                    missing.append((b["skill"], b["key"], repr(v)[:40]))
                    continue
                blks[b["id"]] = [float(v.get(f, 0.0)) for f in stat_fields]
            out["figures"], out["blocks"], out["unobservable"] = figs, blks, missing
        if want_engine or plan is not None:
            eng = get_operation_engine(env)
            out["engine"] = True
            if plan is not None:
                out["plan"] = run_plan(eng, plan)
    except BaseException as e:      # noqa: BLE001 -- a raising build IS the observation
        out["error"] = "%s: %s" % (type(e).__name__, str(e)[-300:])
        out["trace"] = traceback.format_exc()[-1200:]
    return out


# =========================================================================================== plans
ELAPSES = [0, 0.5, 30, 100, 480, 500, 1000, 3000, 10000, 45000, 0.25, 1234.5]


def random_plan_for(rng, names, keydown, n):
    """the generator of lib/simenv.random_plan over the skills of THIS engine"""
    def command():
        r = rng.random()
        nm = rng.choice(names)
        if keydown and rng.random() < 0.25:
            nm = rng.choice(keydown)
        if r < 0.36:
            return 'CAST "%s"' % nm
        if r < 0.50:
            return 'USE "%s"' % nm
        if r < 0.72:
            return "ELAPSE %s" % rng.choice(ELAPSES)
        if r < 0.84:
            return 'RESOLVE "%s"' % nm
        if r < 0.92:
            return 'KEYDOWNSTOP "%s"' % (rng.choice(keydown) if keydown else nm)
        return rng.choice(['!debug "viewer(\'clock\')"', '!debug "[v.name for v in viewer(\'validity\') if available(v)][:3]"',
                           '!debug "viewer(\'buff\').short_dict()"'])
    lines = []
    while len(lines) < n:
        c = command()
        lines.append(c)
        if c.startswith("USE") and rng.random() < 0.7:
            other = 'RESOLVE "%s"' % rng.choice(names)
            lines.append(rng.choice(["RESOLVE " + c[4:], other, "ELAPSE 0", "RESOLVE " + c[4:]]))
            if rng.random() < 0.3:
                lines.append(other)
        if c.startswith("CAST") and rng.random() < 0.35:
            lines.append("RESOLVE " + c[5:])
            if rng.random() < 0.5:
                lines.append("KEYDOWNSTOP " + c[5:])
    return lines[:n]


def run_plan(engine, plan):
    """plan = ('seed', seed, n) -> generate over the engine's own skills; ('lines', [...]) -> run as given."""
    import random
    from simaple.simulate.policy.parser import parse_dsl_to_command
    if plan[0] == "seed":
        rng = random.Random(plan[1])
        viewer = engine.get_current_viewer()
        names = [v.name for v in viewer("validity")]
        try:
            keydown = [v.name for v in viewer("keydown")]
        except Exception:      # noqa: BLE001
            keydown = []
        lines = random_plan_for(rng, names, keydown, plan[2])
    else:
        lines = list(plan[1])
    done = 0
    try:
        for l in lines:
            for c in parse_dsl_to_command(l):
                engine.exec(c)
            done += 1
    except BaseException as e:      # noqa: BLE001
        return {"ok": False, "lines": lines[:done + 1], "at": done, "error": "%s: %s" % (type(e).__name__, str(e)[-300:]),
                "trace": traceback.format_exc()[-1000:]}
    return {"ok": True, "n": done, "clock": float(engine.get_current_viewer()("clock"))}


# =========================================================================================== layer A: formulas through the real patches
def spec_configs(spec, thorough):
    """(use_map, base, p, c) combinations realising every effective level of the specification's range"""
    out = []
    offs = [(0, 0), (2, 0), (0, 2), (2, 2), (1, 1)] if thorough else [(0, 0), (2, 2), (1, 0), (0, 1)]
    if spec["mapped"]:
        for b in range(0, tr_yaml.MAX_SKILL_LEVEL + 1):
            out.append((True, b, 0, 0))
        for b in (0, 1, tr_yaml.MAX_SKILL_LEVEL):
            for p, c in offs[1:]:
                out.append((True, b, p, c))
    if (not spec["mapped"]) or any(not m for _j, m in spec["users"]) or not spec["users"]:
        for p, c in [(0, 0), (1, 0), (2, 0), (0, 1), (0, 2), (2, 2), (1, 2)]:
            out.append((False, 0, p, c))
    return out


_REAL = None


def _real_spec(sid):
    """the repository's specification for document `sid` of the translator's enumeration, matched by CONTENT (kind + data of the YAML
    document read again from its file), never by position: the order in which a repository enumerates its directory is C02's
    subject, not this check's"""
    global _REAL
    if _REAL is None:
        import json
        import yaml
        from pathlib import Path
        from simaple.data.jobs import builtin
        import simaple.data.jobs as jobs_pkg
        base = Path(jobs_pkg.__file__).parent / "resources"
        pool = {}
        for s in builtin.get_kms_jobs_repository()._db:
            pool.setdefault((s.kind, json.dumps(s.data, sort_keys=True, default=str, ensure_ascii=False)), []).append(s)
        cache, _REAL = {}, {}
        for i, sp in enumerate(META["specs"]):
            if sp["file"] not in cache:
                with open(base / sp["file"], "r", encoding="utf-8") as f:
                    cache[sp["file"]] = list(yaml.safe_load_all(f))
            d = cache[sp["file"]][sp["index"]]
            q = pool.get((d["kind"], json.dumps(d["data"], sort_keys=True, default=str, ensure_ascii=False))) or []
            _REAL[i] = q.pop(0) if q else None
    return _REAL.get(sid)


def layer_a_task(args):
    """one specification: apply the real patches for every configuration; returns rows (sid, cfgkey, sv, {fid: value} | error)"""
    sid, sv, thorough = args
    from simaple.data.jobs import builtin
    from simaple.data.jobs.patch import SkillLevelPatch
    from simaple.core import Stat
    from simaple.spec.patch import ArithmeticPatch
    spec = META["specs"][sid]
    real = _real_spec(sid)
    fs = [f for f in META["formulas"] if f["spec"] == sid]
    rows = []
    if real is None:
        return [(sid, None, sv, "the repository serves no specification equal to document %s (%s %r)" % (spec["where"], spec["kind"], spec["name"]))]
    s = STATS[sv]
    if spec["kind"] in ("Component", "SkillImprovement"):
        def variables(p, c):
            return builtin._as_reference_variables({
                "character_stat": Stat(**s["stat"]), "character_level": s["level"], "weapon_attack_power": s["wap"],
                "weapon_pure_attack_power": s["wpap"], "passive_skill_level": p, "combat_orders_level": c})
    elif spec["kind"] == "PassiveSkill":
        def variables(p, c):
            return {"character_level": s["level"], "weapon_pure_attack_power": s["wpap"]}
    else:
        def variables(p, c):
            return {}
    for (use_map, base, p, c) in spec_configs(spec, thorough):
        key = (use_map, base, p, c)
        try:
            raw = copy.deepcopy(real.data)
            slp = SkillLevelPatch(combat_orders_level=c, passive_skill_level=p,
                                  default_skill_levels=({spec["name"]: base} if use_map else {}))
            v = variables(p, c)
            out = ArithmeticPatch(variables=v).apply(slp.apply(raw))
            vals = {}
            for f in fs:
                x = walk_path(out, f["path"])
                vals[f["id"]] = x if isinstance(x, (int, float)) and not isinstance(x, bool) else repr(x)
            # every other leaf must be untouched
            shape = same_but(real.data, out, {tuple(f["path"]) for f in fs})
            rows.append((sid, key, sv, vals, {k: (None if x is None else float(x)) for k, x in v.items()}, shape))
        except BaseException as e:      # noqa: BLE001
            rows.append((sid, key, sv, "%s: %s" % (type(e).__name__, str(e)[-200:]), None, None))
    return rows


def same_but(a, b, formula_paths, path=()):
    """first difference between raw data a and patched data b outside the formula leaves (None = none)"""
    if path in formula_paths:
        return None
    if isinstance(a, dict):
        if not isinstance(b, dict) or list(map(str, a)) != list(map(str, b)):
            return ".".join(path) + ": keys"
        for k in a:
            r = same_but(a[k], b[k], formula_paths, path + (str(k),))
            if r:
                return r
        return None
    if isinstance(a, list):
        if not isinstance(b, list) or len(a) != len(b):
            return ".".join(path) + ": list"
        for i, (x, y) in enumerate(zip(a, b)):
            r = same_but(x, y, formula_paths, path + (str(i),))
            if r:
                return r
        return None
    return None if (a == b and type(a) is type(b)) else ".".join(path) + ": %r -> %r" % (a, b)


# =========================================================================================== Coq shards
HEADER = """From Coq Require Import QArith ZArith NArith List String Bool.
From V.Lib Require Import Corr.
From V.Model Require Import Expr ExprParse Levels LevelsBuilt.
From G Require Import CoreQ Formulas Profiles.
Import ListNotations.
Open Scope string_scope.
Definition oq (a : option Q) (b : Q) : bool := match a with Some x => qclose x b | None => false end.
Definition same_opt (a b : option Q) : bool := match a, b with Some x, Some y => Qeq_bool x y | None, None => true | _, _ => false end.
Definition chk_formula (cfg : config) (ie : nat * Q) : bool := oq (fval cfg (fst ie)) (snd ie) && same_opt (fval cfg (fst ie)) (fval_text cfg (fst ie)).
Definition chk_fig (cfg : config) (ie : nat * Q) : bool :=
  match nth_error figures (fst ie) with Some g => oq (figure_value cfg g) (snd ie) | None => false end.
Definition chk_blk (cfg : config) (ie : nat * list Q) : bool :=
  match nth_error sblocks (fst ie) with
  | Some b => match block_value cfg b with Some s => lclose qclose (map (fun g : Stat -> Q => g s) Stat_fields) (snd ie) | None => false end
  | None => false end.
Fixpoint names_eqb (a b : list string) : bool :=
  match a, b with [] , [] => true | x :: a', y :: b' => String.eqb x y && names_eqb a' b' | _, _ => false end.
Definition chk_levels (p : profile) (v h m : Z) (obs : list (string * Z)) : bool :=
  forallb (fun kv => match lookup (fst kv) (skill_levels_of p v h m) with Some x => (x =? snd kv)%Z | None => false end) obs
  && forallb (fun kv => match lookup (fst kv) obs with Some _ => true | None => false end) (skill_levels_of p v h m).
Definition bad_ids {A} (chk : nat * A -> bool) (l : list (nat * A)) : list nat := map fst (filter (fun x => negb (chk x)) l).
"""


def cstr(s):
    return tr_yaml.cstr(s)


def coq_vars(v: dict) -> str:
    return "[" + "; ".join("(%s, %s)" % (cstr(k), qlit(Fraction(x))) for k, x in v.items() if x is not None) + "]"


def coq_levels(d: dict) -> str:
    return "[" + "; ".join("(%s, %s)" % (cstr(k), vf.zlit(int(v))) for k, v in d.items()) + "]"


def qf(x) -> str:
    return qlit(Fraction(x))


def shard_a(rows, vars_defs):
    """rows: (index, cfg text, [(fid, value)])"""
    body = [HEADER]
    for n, t in vars_defs.items():
        body.append("Definition %s : list (string * Q) := %s." % (n, t))
    body.append("Definition cases : list (N * config * list (nat * Q)) := [")
    body.append(";\n".join("  (%d%%N, %s, [%s])" % (i, cfg, "; ".join("(%d%%nat, %s)" % (fid, qf(v)) for fid, v in vals)) for i, cfg, vals in rows))
    body.append("].")
    body.append("Eval vm_compute in (filter (fun r => negb (match snd r with [] => true | _ => false end)) "
                "(map (fun c => (fst (fst c), bad_ids (chk_formula (snd (fst c))) (snd c))) cases)).")
    return "\n".join(body) + "\n"


def shard_b(rows, vars_defs):
    """rows: (index, job, cfg dict, observation)"""
    body = [HEADER]
    for n, t in vars_defs.items():
        body.append("Definition %s : list (string * Q) := %s." % (n, t))
    items = []
    for i, job, cfgtext, prof, lv, names, levels, figs, blks in rows:
        items.append("  (%d%%N, %s, %s, (%s, %s, %s), %s, %s,\n    [%s],\n    [%s])" % (
            i, cfgtext, prof, vf.zlit(lv[0]), vf.zlit(lv[1]), vf.zlit(lv[2]),
            "[" + "; ".join(cstr(n) for n in names) + "]", coq_levels(levels),
            "; ".join("(%d%%nat, %s)" % (g, qf(v)) for g, v in figs),
            "; ".join("(%d%%nat, [%s])" % (b, "; ".join(qf(x) for x in vs)) for b, vs in blks)))
    body.append("Definition cases : list (N * config * profile * (Z * Z * Z) * list string * list (string * Z) * list (nat * Q) * list (nat * list Q)) := [")
    body.append(";\n".join(items))
    body.append("].")
    body.append("""Definition check (c : N * config * profile * (Z * Z * Z) * list string * list (string * Z) * list (nat * Q) * list (nat * list Q)) :=
  match c with (i, cfg, p, (v, h, m), names, levels, figs, blks) =>
    (i, bad_ids (chk_fig cfg) figs, bad_ids (chk_blk cfg) blks, names_eqb (built_names p (c_levels cfg)) names, chk_levels p v h m levels) end.
Eval vm_compute in (filter (fun r => match r with (_, [], [], true, true) => false | _ => true end) (map check cases)).""")
    return "\n".join(body) + "\n"


_ROW_A = re.compile(r"\((\d+)%N,\s*\[([^\]]*)\]\)")
_ROW_B = re.compile(r"\((\d+)%N,\s*\[([^\]]*)\],\s*\[([^\]]*)\],\s*(true|false),\s*(true|false)\)")


def _ids(s):
    return [int(x) for x in re.findall(r"(\d+)%nat", s)]


def parse_out(out, layer):
    """-> list of bad rows, or None when the output is not the expected list"""
    m = re.search(r"=\s*(\[.*?\])\s*:\s*list", out, re.S)
    if not m:
        return None
    txt = " ".join(m.group(1).split())
    if layer == "a":
        return [(int(a), _ids(b)) for a, b in _ROW_A.findall(txt)]
    return [(int(a), _ids(b), _ids(c), d == "true", e == "true") for a, b, c, d, e in _ROW_B.findall(txt)]


# =========================================================================================== pool
def pool_map(fn, items, procs=vf.NPROC, chunksize=4):
    if not items:
        return []
    ctx = multiprocessing.get_context("fork")
    with ctx.Pool(min(procs, max(1, len(items)))) as pool:
        return pool.map(fn, items, chunksize=chunksize)


def observe_task(args):
    cfg, want_engine, want_model, plan = args
    return observe(cfg, want_engine, want_model, plan)


def prepare_meta(meta):
    global META
    META = dict(meta)
    META["figures_by_job"] = {j: [g for g in meta["figures"] if g["job"] == j] for j in JOBS}
    META["sblocks_by_job"] = {j: [b for b in meta["sblocks"] if b["job"] == j] for j in JOBS}
    warm()
    return META


def warm():
    """load the specification repository and the component classes once, BEFORE the pool forks"""
    import simaple.simulate.kms  # noqa: F401
    from simaple.container.simulation import get_skill_components  # noqa: F401
    from simaple.data.jobs import builtin
    builtin.get_kms_jobs_repository()


def cfg_key(cfg):
    return "%s sv=%d " % (cfg["job"], cfg["sv"]) + " ".join("%s=%d" % (a, cfg[a]) for a in AXES)


def coq_cfg(obs, varname):
    cfg = obs["cfg"]
    return "(mkCfg %s %s %s %s %s %s)" % (coq_levels(obs["skill_levels"]), vf.zlit(cfg["p"]), vf.zlit(cfg["c"]),
                                         vf.zlit(cfg["vi"]), vf.zlit(cfg["hi"]), varname)


def decreases(prev, cur, tol=1e-9):
    """damage fields present in both observations that went down"""
    out = []
    for k, v in cur["damage_fields"].items():
        if k in prev["damage_fields"]:
            a = prev["damage_fields"][k]
            if v < a - tol * max(1.0, abs(a)):
                out.append((k, a, v))
    return out


def replacement_violations(obs, profile):
    names, levels = obs["names"], obs["skill_levels"]
    bad = []
    for low, high in profile["mastery"]:
        lvl = levels.get(high, 0)
        if (low in names) != (lvl == 0):
            bad.append({"low": low, "high": high, "high_level": lvl, "low_built": low in names})
        if high not in names:
            bad.append({"high": high, "missing": True})
    return bad
