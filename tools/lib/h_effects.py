"""H-effects: run-time validation of the T-effects classification (tools/tr_effects.py) and the
implementation-side search of C08.

`entitycheck.monitor` already calls every reducer that takes a simple payload, in store states
reached by random plans of the shipped jobs, and reports input mutation / a differing second
call.  This module adds what C08 also quantifies over:
  * every VIEW of every installed component (a view must leave its state alone, and return the
    same value twice),
  * reducers with structured payloads (pydantic payload types are instantiated from their fields),
  * the component itself (`self`) must be unchanged by every call,
  * a focused mode: only the given (class, method) pairs, on every job that installs such a
    component and in many more states -- used when a proof obligation broke, to look for a
    concrete failing input.
Findings have the shape of entitycheck's: {prop: "C08", what, component, name, reducer, job, variant,
plan, payload, state}."""
from __future__ import annotations

import collections
import inspect
import json
import random
import time

from lib import entitycheck as ec
from lib import simenv


def dump(x):
    if hasattr(x, "model_dump"):
        x = x.model_dump()
    return json.loads(json.dumps(x, default=str, sort_keys=True))


def make_payload(rng, comp, name, wrapper):
    """a payload for a direct call of reducer `name` (or ec.SKIP)"""
    p = ec.reducer_payload(rng, comp, name, wrapper)
    if p is not ec.SKIP:
        return p
    ptype = wrapper._payload_type
    fields = getattr(ptype, "model_fields", None)
    if not fields:
        return ec.SKIP
    kw = {}
    for fname, f in fields.items():
        a = f.annotation
        if a in (float, int):
            kw[fname] = a(rng.choice([0, 1, 30, 500, 1000, 2500]))
        elif a is str:
            kw[fname] = rng.choice(["x", "dotA"])
        elif a is bool:
            kw[fname] = rng.random() < 0.5
        elif not f.is_required():
            continue
        else:
            return ec.SKIP
    try:
        return ptype(**kw)
    except Exception:
        return ec.SKIP


def mro_names(comp):
    return {c.__name__ for c in type(comp).__mro__}


def check_call(kind, comp, name, wrapper, state, payload, add, call):
    """one direct call + the three observations of C08; returns True when the call went through"""
    before = dump(state)
    self_before = comp.model_dump_json()
    pay_before = dump(payload) if hasattr(payload, "model_dump") else payload
    try:
        out = wrapper(payload, state) if kind == "reducer" else wrapper(state)
    except Exception:
        return False
    if dump(state) != before:
        add("%s modified its input state" % kind, comp, name, after=dump(state), **call)
    if hasattr(payload, "model_dump") and dump(payload) != pay_before:
        add("%s modified its payload" % kind, comp, name, **call)
    if comp.model_dump_json() != self_before:
        add("%s modified the component (self)" % kind, comp, name, **call)
    try:
        out2 = wrapper(payload, state) if kind == "reducer" else wrapper(state)
        if json.dumps(dump_result(out2), sort_keys=True) != json.dumps(dump_result(out), sort_keys=True):
            add("second call of the %s with equal arguments returned a different result" % kind, comp, name, **call)
    except Exception as e:
        add("second call of the %s raised %r" % (kind, e), comp, name, **call)
    return True


def dump_result(out):
    if isinstance(out, tuple):
        return [dump_result(x) for x in out]
    if isinstance(out, list):
        return [dump_result(x) for x in out]
    return dump(out)


def monitor(ctx, jobs, n_cmds, n_snaps, budget_s, focus=None, seed_shift=0, views=True, reducers="structured"):
    """`reducers`: "structured" = only those entitycheck.monitor skips, "all" = every reducer.
    `focus`: set of (class name, method name); a component matches by any class of its MRO."""
    from simaple.container.simulation import get_skill_components
    from simaple.simulate.base import Checkpoint
    from simaple.simulate.component.base import ComponentMethodWrapper, StoreAdapter
    rng = random.Random(ctx.seed * 211 + 17 + seed_shift)
    t0 = time.time()
    findings = []
    st = collections.Counter()
    distinct = set()
    classes = collections.Counter()
    sample = []

    def add(what, comp, red, **kw):
        findings.append(dict(prop="C08", what=what, component=type(comp).__name__, name=comp.name, reducer=red, **kw))

    for job, variant in jobs:
        if time.time() - t0 > budget_s:
            st["jobs_not_reached_in_budget"] += 1
            continue
        env = simenv.get_env(job, variant)
        comps = get_skill_components(env)
        if focus is not None:
            comps = [c for c in comps if any((cn, m) in focus for cn in mro_names(c) for m in
                                             list(getattr(c, "__reducers__")) + list(getattr(c, "__views__")))]
            if not comps:
                continue
        engine = simenv.make_engine(job, variant)
        plan = simenv.random_plan(rng, job, variant, n_cmds, console=False)
        cmds = simenv.parse_commands(plan)
        snaps = set(rng.sample(range(len(cmds)), min(n_snaps, len(cmds)))) | {0}
        for i, cmd in enumerate(cmds):
            try:
                engine.exec(cmd)
            except Exception:
                break
            if i not in snaps:
                continue
            saved = Checkpoint.create(engine._history.current_store())
            for comp in comps:
                if time.time() - t0 > budget_s:
                    break
                store = saved.restore()
                adapter = StoreAdapter(comp.get_default_state(), dict(comp.binds))
                local = store.local(comp.name)
                classes[type(comp).__name__] += 1
                ctxinfo = dict(job=job, variant=variant, plan=plan[:i + 1])
                names = mro_names(comp)
                if views:
                    for vn in sorted(getattr(comp, "__views__")):
                        if focus is not None and not any((cn, vn) in focus for cn in names):
                            continue
                        w = ComponentMethodWrapper(getattr(comp, vn), skip_count=0)
                        try:
                            state = adapter.get_state(local, w.get_state_type())
                        except Exception:
                            st["skipped_state"] += 1
                            continue
                        call = dict(ctxinfo, payload=None, state=dump(state))
                        if check_call("view", comp, vn, w, state, None, add, call):
                            st["view_calls"] += 1
                            distinct.add((type(comp).__name__, vn, json.dumps(call["state"], sort_keys=True)))
                            if not sample:
                                sample.append(dict(kind="view", component=type(comp).__name__, name=comp.name, method=vn,
                                                   job=job, state=call["state"]))
                for rn in sorted(getattr(comp, "__reducers__")):
                    if focus is not None and not any((cn, rn) in focus for cn in names):
                        continue
                    w = ComponentMethodWrapper(getattr(comp, rn))
                    simple = ec.reducer_payload(rng, comp, rn, w)
                    if reducers == "structured" and focus is None and simple is not ec.SKIP:
                        continue
                    for _rep in range(3 if focus is not None else 1):
                        payload = make_payload(rng, comp, rn, w)
                        if payload is ec.SKIP:
                            st["skipped_typed_payload"] += 1
                            break
                        try:
                            state = adapter.get_state(local, w.get_state_type())
                        except Exception:
                            st["skipped_state"] += 1
                            break
                        call = dict(ctxinfo, payload=dump(payload) if hasattr(payload, "model_dump") else payload, state=dump(state))
                        if check_call("reducer", comp, rn, w, state, payload, add, call):
                            st["reducer_calls"] += 1
                            distinct.add((type(comp).__name__, rn, json.dumps(call["state"], sort_keys=True), repr(call["payload"])))
                        else:
                            st["reducer_raised"] += 1
    stats = dict(st)
    stats["classes"] = dict(classes)
    stats["distinct_calls"] = len(distinct)
    stats["seconds"] = round(time.time() - t0, 1)
    return findings, stats, sample


def common_purity(ctx, n_walks, walk_len, jobs):
    """H-entity's direct calls on random / reachable / shipped instances of the common classes:
    input dump before/after, second call.  Returns (problems, stats)."""
    from lib import h_entity as H
    rng = random.Random(ctx.seed * 31 + 8)
    problems, hist, distinct = [], collections.Counter(), set()
    n = raised = 0
    for comp, meth, state, payload in H.generate(rng, n_walks, walk_len, jobs):
        try:
            _out, _events, pp = H.run_case(comp, meth, state, payload)
        except Exception:
            raised += 1
            continue
        n += 1
        hist["%s.%s" % (type(comp).__name__, meth)] += 1
        distinct.add((type(comp).__name__, meth, json.dumps(H.dump_state(state), sort_keys=True, default=str), repr(payload)))
        for p in pp:
            problems.append(dict(prop="C08", what=p, component=type(comp).__name__, name=comp.name, reducer=meth,
                                 payload=payload, state=H.dump_state(state), component_dump=json.loads(comp.model_dump_json())))
    return problems, {"cases": n, "raised_skipped": raised, "distinct": len(distinct), "histogram": dict(sorted(hist.items()))}


def all_job_pairs():
    return [(j, v) for v in (0, 1, 2) for j in simenv.JOBS]


def tree_shaped(ctx, jobs):
    """The translator reads a never-assigned field once: sound when states are trees of entities (no entity is
    shared between two fields of one state, none refers back to its state).  Checked on the default states."""
    from simaple.container.simulation import get_skill_components
    bad, n = [], 0
    for job, variant in jobs:
        for comp in get_skill_components(simenv.get_env(job, variant)):
            seen = {}
            for k, e in comp.get_default_state().items():
                n += 1
                if id(e) in seen:
                    bad.append("%s: fields %s and %s of the default state hold the same entity" % (type(comp).__name__, seen[id(e)], k))
                seen[id(e)] = k
    return bad, n


def replay_input(inp):
    """Re-run a recorded direct call; returns (still_failing, detail)."""
    from simaple.container.simulation import get_skill_components
    from simaple.simulate.component.base import ComponentMethodWrapper, StoreAdapter
    job, variant = inp["job"], inp.get("variant", 0)
    engine = simenv.make_engine(job, variant)
    for cmd in simenv.parse_commands(inp.get("plan", [])):
        engine.exec(cmd)
    comps = [c for c in get_skill_components(simenv.get_env(job, variant)) if c.name == inp["name"]]
    if not comps:
        return False, "component %r not installed" % inp["name"]
    comp = comps[0]
    store = engine._history.current_store()
    adapter = StoreAdapter(comp.get_default_state(), dict(comp.binds))
    local = store.local(comp.name)
    is_view = inp["reducer"] in getattr(comp, "__views__")
    w = ComponentMethodWrapper(getattr(comp, inp["reducer"]), skip_count=0 if is_view else 1)
    state = adapter.get_state(local, w.get_state_type())
    payload = inp.get("payload")
    if isinstance(payload, dict):
        payload = w.translate_payload(payload)
    got = []

    def add(what, comp, red, **kw):
        got.append(what)
    check_call("view" if is_view else "reducer", comp, inp["reducer"], w, state, payload, add, {})
    return bool(got), "; ".join(got) or "input unchanged, second call equal"
