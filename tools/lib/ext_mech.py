"""Extension `mech` of the H-entity correspondence: Model/SpecMech.v (job-specific component classes of
component/specific/mechanic.py, soulmaster.py, dualblade.py, windbreaker.py, thief.py) vs the real reducers / views,
called directly as `component.<reducer>(payload, state)`.

A case is (class, reducer, component instance, input state incl. the bound entities, payload).  The state classes of
these components carry their bound entities (`binds`) as ordinary fields, so the reducer is exercised as the function
(payload, state) -> (state, events) it is; the harness fills the bound fields with generated entities.  Times are exact
dyadic floats scaled per case to integer ticks (off-grid cases are skipped and counted); a damage code stands for the
pair (damage, total modifier of the event); hit numbers are interned codes, except for the classes that compute with
them (HommingMissile, CosmicBurst: the integer itself)."""
from __future__ import annotations

import collections
import importlib
import json
from fractions import Fraction

from lib import h_entity as H

SPEC = "simaple.simulate.component.specific."
# python class -> (module, state class, Coq constructor, {reducer: Coq method})
TABLE = {
    "RobotSummonSkill": ("mechanic", "RobotSummonState", "RobotSummon", {"use": "XUse", "elapse": "XElapse"}),
    "RobotSetupBuff": ("mechanic", "RobotSetupBuffState", "RobotSetupBuff", {"use": "XUse", "elapse": "XElapse"}),
    "HommingMissile": ("mechanic", "HommingMissileState", "HommingMissile", {"use": "XUse", "elapse": "XElapse", "pause": "XPause"}),
    "FullMetalBarrageComponent": ("mechanic", "FullMetalBarrageState", "FullMetalBarrage", {"use": "XUse", "elapse": "XElapse", "stop": "XStop"}),
    "MultipleOptionComponent": ("mechanic", "MultipleOptionState", "MultipleOption", {"use": "XUse", "elapse": "XElapse"}),
    "MecaCarrier": ("mechanic", "MecaCarrierState", "MecaCarrier", {"use": "XUse", "elapse": "XElapse"}),
    "CosmicOrb": ("soulmaster", "CosmicOrbState", "CosmicOrb", {"increase": "XIncrease", "maximize": "XMaximize"}),
    "Elysion": ("soulmaster", "ElysionState", "Elysion", {"use": "XUse", "elapse": "XElapse", "crack": "XCrack"}),
    "CrossTheStyx": ("soulmaster", "CrossTheStyxState", "CrossTheStyx", {"use": "XUse"}),
    "CosmicBurst": ("soulmaster", "CosmicBurstState", "CosmicBurst", {"elapse": "XElapse", "trigger": "XTrigger"}),
    "CosmicShower": ("soulmaster", "CosmicShowerState", "CosmicShower", {"use": "XUse", "elapse": "XElapse"}),
    "Cosmos": ("soulmaster", "CosmosState", "Cosmos", {"use": "XUse", "elapse": "XElapse"}),
    "FlareSlash": ("soulmaster", "FlareSlashState", "FlareSlash",
                   {"elapse": "XElapse", "change_stance_trigger": "XChangeStance", "styx_trigger": "XStyx"}),
    "FinalCutComponent": ("dualblade", "FinalCutState", "FinalCut", {"use": "XUse", "elapse": "XElapse", "sudden_raid": "XSuddenRaid"}),
    "BladeStormComponent": ("dualblade", "BladeStormState", "BladeStorm", {"use": "XUse", "elapse": "XElapse", "stop": "XStop"}),
    "UltimateDarkSightComponent": ("thief", "UltimateDarkSightState", "UltimateDarkSight", {"use": "XUse", "elapse": "XElapse"}),
    "KarmaBladeTriggerComponent": ("dualblade", "KarmaBladeTriggerState", "KarmaBlade", {"use": "XUse", "elapse": "XElapse", "trigger": "XTrigger"}),
    "HowlingGaleComponent": ("windbreaker", "HowlingGaleState", "HowlingGale", {"use": "XUse", "elapse": "XElapse"}),
}
# RobotMasteryComponent has no reducer and no view: its entity is constant and is modelled as the bound slot x_rm
CLASSES = list(TABLE) + ["RobotMasteryComponent"]
TARGETS = ["theories/Model/SpecMech.vo", "theories/Model/SpecMechCorr.vo", "theories/Lib/Corr.vo"]
PROPS = {"C07": ["theories/Props/C07_mech.v"], "C09": ["theories/Props/C09_mech.v"], "C10": ["theories/Props/C10_mech.v"]}
INT_HIT = {"HommingMissile", "CosmicBurst"}      # classes whose hit numbers are integers the model computes with
JOBS = ["mechanic", "soulmaster", "dualblade", "windbreaker"]


def cls_of(name):
    mod, st, _c, _r = TABLE[name]
    m = importlib.import_module(SPEC + mod)
    return getattr(m, name), getattr(m, st)


# ------------------------------------------------------------------ generation
def _stat(rng):
    from simaple.core.base import Stat
    return Stat(attack_power=float(rng.choice([10, 80])), final_damage_multiplier=float(rng.choice([0, 9])))


def _mod(rng):
    from simaple.core.base import Stat
    return None if rng.random() < 0.5 else Stat(final_damage_multiplier=float(rng.choice([20, 120])), ignored_defence=20.0)


def random_component(rng, name):
    cls, _st = cls_of(name)
    d, h = H.rdmg(rng)
    d2, h2 = H.rdmg(rng)
    base = dict(id="x-" + name, name="skill-" + name, cooldown_duration=H.rtime(rng), delay=H.rtime(rng, hi=3000), modifier=_mod(rng))
    per = dict(periodic_interval=H.rstep(rng), periodic_damage=d2, periodic_hit=h2, lasting_duration=H.rtime(rng, False, 120000))
    kd = dict(maximum_keydown_time=H.rtime(rng, False, 20000), damage=d, hit=h, keydown_prepare_delay=H.rtime(rng, hi=2000),
              keydown_end_delay=H.rtime(rng, hi=2000))
    if name == "RobotSummonSkill":
        kw = dict(per, damage=d, hit=h, periodic_initial_delay=H.rtime(rng, False, 3000))
    elif name == "RobotSetupBuff":
        kw = dict(stat=_stat(rng), lasting_duration=H.rtime(rng))
    elif name == "HommingMissile":
        kw = dict(per, periodic_hit=float(rng.choice([0, 1, 9, 12, 12.5])), periodic_initial_delay=H.rtime(rng, False, 3000),
                  final_damage_multiplier_during_barrage=float(rng.choice([0, 67])))
    elif name == "FullMetalBarrageComponent":
        kw = dict(kd, homing_penalty_duration=H.rtime(rng, True, 5000), homing_final_damage_multiplier=67.0)
        base["delay"] = H.rstep(rng, 3000)
    elif name == "MultipleOptionComponent":
        kw = dict(periodic_initial_delay=H.rtime(rng, False, 3000), periodic_interval=H.rstep(rng),
                  lasting_duration=H.rtime(rng, False, 120000), missile_count=rng.randint(0, 3), missile_damage=d,
                  missile_hit=rng.randint(0, 8), gatling_count=rng.randint(1, 5), gatling_damage=d2, gatling_hit=rng.randint(0, 6))
    elif name == "MecaCarrier":
        mx = rng.randint(1, 6)
        kw = dict(lasting_duration=H.rtime(rng, True, 120000), periodic_interval=H.rstep(rng), maximum_intercepter=mx,
                  start_intercepter=rng.randint(0, mx), damage_per_intercepter=d, hit_per_intercepter=rng.randint(0, 4),
                  intercepter_penalty=float(rng.choice([0, 30, 120, 120.25])))
    elif name == "CosmicOrb":
        mx = rng.randint(1, 12)
        return cls(id="x-" + name, name="skill-" + name, default_max_stack=rng.randint(0, mx), cosmic_forge_stack=mx,
                   orb_lasting_duration=H.rtime(rng), stat=_stat(rng))
    elif name == "Elysion":
        kw = dict(lasting_duration=H.rtime(rng), crack_damage=d, crack_hit=rng.randint(0, 30), crack_cooldown=H.rtime(rng, True, 8000),
                  crack_duration=H.rtime(rng, True, 20000), maximum_crack_count=rng.randint(1, 4))
    elif name == "CrossTheStyx":
        kw = dict(damage=d, hit=h)
    elif name == "CosmicBurst":
        kw = dict(damage=d, hit=rng.randint(0, 5), damage_decrement_after_2nd_hit=float(rng.choice([0.5, 0.7, 1])),
                  cooltime_reduce_per_orb=float(rng.choice([0, 1000, 250.5])))
    elif name == "CosmicShower":
        kw = dict(per, periodic_initial_delay=(None if rng.random() < 0.5 else H.rtime(rng, False, 3000)),
                  duration_increase_per_orb=float(rng.choice([0, 3000, 0.25])))
    elif name == "Cosmos":
        itv = H.rstep(rng)
        kw = dict(per, periodic_interval=itv, periodic_initial_delay=(None if rng.random() < 0.5 else H.rtime(rng, False, 3000)),
                  periodic_interval_decrement_per_orb=float(rng.choice([0, itv / 32.0, itv / 16.0])))
    elif name == "FlareSlash":
        kw = dict(damage=d, hit=h, cooldown_reduece_when_stance_changed=H.rtime(rng, True, 3000),
                  cooldown_reduce_when_cross_the_styx_hit=H.rtime(rng, True, 3000))
    elif name == "FinalCutComponent":
        kw = dict(damage=d, hit=h, sudden_raid_cooltime_reduce=float(rng.choice([0, 20, 25, 50, 100])))
    elif name == "BladeStormComponent":
        kw = dict(kd, prepare_damage=d2, prepare_hit=h2)
        base["delay"] = H.rstep(rng, 3000)
    elif name == "UltimateDarkSightComponent":
        kw = dict(lasting_duration=H.rtime(rng), final_damage_multiplier=float(rng.choice([0, 14])),
                  advanced_dark_sight_final_damage_multiplier=float(rng.choice([0, 20])))
    elif name == "KarmaBladeTriggerComponent":
        kw = dict(damage=d, hit=h, triggable_count=rng.randint(0, 4), lasting_duration=H.rtime(rng, True, 30000), finish_damage=d2, finish_hit=h2)
    elif name == "HowlingGaleComponent":
        nrows = rng.randint(1, 3)
        shape = [rng.randint(0, 2) for _ in range(nrows)]
        kw = dict(maximum_stack=rng.randint(1, 4), periodic_initial_delay=(None if rng.random() < 0.5 else H.rtime(rng, False, 3000)),
                  periodic_interval=H.rstep(rng), periodic_damage=[[H.rdmg(rng)[0] for _ in range(k)] for k in shape],
                  periodic_hit=[[H.rdmg(rng)[1] for _ in range(k)] for k in shape], lasting_duration=H.rtime(rng, False, 30000))
        base["cooldown_duration"] = H.rstep(rng, 60000)
    else:
        raise KeyError(name)
    return cls(**base, **kw)


def _rlasting(rng):
    from simaple.simulate.component.entity import Lasting
    return Lasting(time_left=rng.choice([-30.0, 0.0, 0.5, H.rtime(rng)]), assigned_duration=H.rtime(rng))


def _rkeydown(rng, interval=None):
    from simaple.simulate.component.entity import Keydown
    r = rng.random()
    itv = interval if interval is not None else H.rstep(rng, 3000)
    if r < 0.5:
        return Keydown(interval=itv, time_left=H.rtime(rng, False, 20000), interval_counter=H.rtime(rng, True, 3000))
    if r < 0.75:
        return Keydown(interval=itv, time_left=rng.choice([0.0, -250.0]), interval_counter=rng.choice([0.0, 120.0, H.rtime(rng, True, 3000)]))
    return Keydown(interval=itv)


def _rls(rng, mx=None, dur=None):
    from simaple.simulate.component.entity import LastingStack
    mx = mx if mx is not None else rng.randint(1, 12)
    dur = dur if dur is not None else H.rtime(rng, True, 40000)
    r = rng.random()
    if r < 0.3:
        return LastingStack(maximum_stack=mx, duration=dur)
    tl = rng.choice([dur, 0.0, 0.25, min(dur, H.rtime(rng, True, 40000))])
    # boundary-biased: KarmaBlade.trigger takes its finishing branch when the LAST stack is consumed (stack 1 -> 0)
    return LastingStack(maximum_stack=mx, duration=dur, stack=rng.choice([0, 1, 1, mx, rng.randint(0, mx)]), time_left=tl)


def bound_entity(rng, comp, field, shipped_rm=None):
    from simaple.simulate.component.specific.mechanic import RobotMastery
    if field == "robot_mastery":
        if shipped_rm is not None and rng.random() < 0.3:
            return shipped_rm.model_copy(deep=True)
        return RobotMastery(summon_increment=float(rng.choice([0, 25, 50, 100, 41])), robot_damage_increment=float(rng.choice([0, 5, 108])))
    if field in ("bomber_time", "full_barrage_penalty_lasting", "cosmic_forge_lasting", "elysion_lasting"):
        return _rlasting(rng)
    if field == "full_barrage_keydown":
        return _rkeydown(rng)
    if field == "orb":
        return _rls(rng)
    raise KeyError("no generator for the bound entity %r of %s" % (field, type(comp).__name__))


def default_state(rng, comp, astat, shipped_rm=None):
    from simaple.simulate.global_property import Dynamics
    _cls, st = cls_of(type(comp).__name__)
    ents = {k: v.model_copy(deep=True) for k, v in comp.get_default_state().items()}
    for f in st.model_fields:
        if f == "dynamics":
            ents[f] = Dynamics(stat=astat)
        elif f not in ents:
            ents[f] = bound_entity(rng, comp, f, shipped_rm)
    return st(**{k: v for k, v in ents.items() if k in st.model_fields})


def random_state(rng, comp, astat, shipped_rm=None):
    """A well-formed (not necessarily reachable) state; bound entities regenerated."""
    from simaple.simulate.component import entity as E
    from simaple.simulate.component.specific.mechanic import DynamicIntervalPeriodic
    s = default_state(rng, comp, astat, shipped_rm)
    own = set(comp.get_default_state())
    for name in type(s).model_fields:
        e = getattr(s, name)
        if name not in own:
            continue
        if isinstance(e, E.Cooldown):
            e.time_left = rng.choice([-500.0, 0.0, 0.25, H.rtime(rng)])
        elif isinstance(e, E.Lasting):
            e.time_left = rng.choice([-30.0, 0.0, 0.5, H.rtime(rng)])
            e.assigned_duration = H.rtime(rng)
        elif isinstance(e, E.Consumable):
            e.stack = rng.randint(0, e.maximum_stack)
            e.time_left = e.cooldown_duration if e.stack == e.maximum_stack else \
                max(0.25, min(e.cooldown_duration, H.rtime(rng, False, max(1, int(e.cooldown_duration)))))
        elif isinstance(e, E.Periodic):
            if rng.random() < 0.7:
                e.time_left = rng.choice([0.0, H.rtime(rng, True, 60000)])
                e.interval_counter = rng.choice([e.interval, max(0.25, min(e.interval, H.rtime(rng, False, 5000))), H.rtime(rng, False, 3000)])
                e.count = rng.randint(0, 5)
        elif isinstance(e, E.Keydown):
            k = _rkeydown(rng, e.interval)
            e.time_left, e.interval_counter = k.time_left, k.interval_counter
        elif isinstance(e, E.LastingStack):
            k = _rls(rng, e.maximum_stack, e.duration)
            e.stack, e.time_left = k.stack, k.time_left
        elif isinstance(e, E.Cycle):
            e.tick = rng.randint(0, max(0, e.period - 1))
        elif isinstance(e, E.Integer):
            e.value = rng.randint(0, len(comp.periodic_damage))
        elif isinstance(e, DynamicIntervalPeriodic):
            r = rng.random()
            if r < 0.6:
                e.time_left = rng.choice([0.0, 0.25, -120.0, H.rtime(rng, True, 60000)])
                e.interval_counter = rng.choice([e.interval, 0.25, H.rtime(rng, False, 5000)])
                e.count = rng.randint(0, e.max_count)
            elif r < 0.8:
                e.time_left = H.rtime(rng, True, 60000)
                e.interval_counter = 0.0
    return s


# ------------------------------------------------------------------ encoding
class Enc:
    def __init__(self):
        self.dmg, self.hit, self.val = {}, {}, {}

    @staticmethod
    def _get(tbl, k):
        if k not in tbl:
            tbl[k] = len(tbl) + 1
        return tbl[k]

    def d(self, damage, modifier):
        return self._get(self.dmg, (float(damage), json.dumps(modifier, sort_keys=True, default=str)))

    def h(self, hit):
        return self._get(self.hit, float(hit))

    def v(self, x):
        return self._get(self.val, float(x))


_z = H._z


def total_modifier(comp, extra):
    """NamedEventProvider.dealt: the event's modifier dump for an extra modifier `extra` (Stat or None)."""
    dflt = getattr(comp, "modifier", None)
    if dflt is None and extra is None:
        return None
    tot = extra if dflt is None else (dflt if extra is None else extra + dflt)
    return tot.model_dump() if tot else None


SLOT = {"cooldown": "cd", "lasting": "las", "consumable": "cons", "keydown": "kd", "robot_mastery": "rm", "bomber_time": "l2",
        "penalty_lasting": "l2", "cosmic_forge_lasting": "l2", "elysion_lasting": "l2", "full_barrage_penalty_lasting": "l3",
        "full_barrage_keydown": "k2", "orb": "ls", "lasting_stack": "ls", "cycle": "cyc", "consumed": "int",
        "crack_cooldown": "cd2", "dynamics": None}


def slots(state):
    from simaple.simulate.component import entity as E
    from simaple.simulate.component.specific.mechanic import DynamicIntervalPeriodic
    out = {}
    for f in type(state).model_fields:
        e = getattr(state, f)
        if f == "periodic":
            k = "dp" if isinstance(e, DynamicIntervalPeriodic) else "p1"
        elif f == "stack":
            if not isinstance(e, E.LastingStack):
                raise KeyError("unexpected entity type for the field 'stack'")
            k = "ls"
        elif f in SLOT:
            k = SLOT[f]
        else:
            raise KeyError("state field %r is not mapped to a slot of the model" % f)
        if k is None:
            continue
        if k in out:
            raise KeyError("two state fields map to the slot %s" % k)
        out[k] = e
    return out


def state_times(state):
    sl = slots(state)
    out = []
    for k, e in sl.items():
        if k in ("cd", "cd2"):
            out.append(e.time_left)
        elif k in ("las", "l2", "l3"):
            out += [e.time_left, e.assigned_duration]
        elif k == "cons":
            out += [e.cooldown_duration, e.time_left]
        elif k == "p1":
            out += [e.interval, e.interval_counter, e.time_left] + ([e.initial_counter] if e.initial_counter is not None else [])
        elif k in ("kd", "k2"):
            out += [e.interval, e.interval_counter, e.time_left]
        elif k == "ls":
            out += [e.duration, e.time_left]
        elif k == "dp":
            out += [e.interval_counter, e.interval, e.time_left, e.count_interval_penalty]
    return out


def enc_state(enc, state, sc):
    T = lambda v: _z(int(Fraction(float(v)) * sc))
    sl = slots(state)
    cd, cd2, las, cons, p1, kd = (sl.get(k) for k in ("cd", "cd2", "las", "cons", "p1", "kd"))
    P = ("(P.mkP %s %s %s %s)" % (T(p1.interval), T(p1.interval_counter), T(p1.time_left), _z(int(p1.count)))) if p1 else "(P.mkP 1 1 0 0)"
    ic = "None" if (p1 is None or p1.initial_counter is None) else "(Some %s)" % T(p1.initial_counter)
    K = lambda k: ("(K.mkK %s %s %s)" % (T(k.interval), T(k.interval_counter), T(k.time_left))) if k else "(K.mkK 1 0 (-1))"
    L = lambda l: ("(%s, %s)" % (T(l.time_left), T(l.assigned_duration))) if l else "(0, 0)"
    u = "(mkU %s %s %s %s %s %s (P.mkP 1 1 0 0) (P.mkP 1 1 0 0) %s None None %s 0)" % (
        T(cd.time_left) if cd else "0", T(cd2.time_left) if cd2 else "0",
        T(las.time_left) if las else "0", T(las.assigned_duration) if las else "0",
        ("(C.mkC %s %s %s %s)" % (_z(cons.maximum_stack), _z(cons.stack), T(cons.cooldown_duration), T(cons.time_left))) if cons else "(C.mkC 1 1 1 1)",
        P, ic, K(kd))
    rm = sl.get("rm")
    ls = sl.get("ls")
    cyc = sl.get("cyc")
    it = sl.get("int")
    dp = sl.get("dp")
    return "(mkX %s %s %s %s %s %s %s %s %s)" % (
        u,
        ("(%d, %d)" % (enc.v(rm.summon_increment), enc.v(rm.robot_damage_increment))) if rm else "(0, 0)",
        L(sl.get("l2")), L(sl.get("l3")), K(sl.get("k2")),
        ("(LS.mk %s %s %s %s)" % (_z(int(ls.stack)), _z(int(ls.maximum_stack)), T(ls.duration), T(ls.time_left))) if ls else "(LS.mk 0 0 0 0)",
        ("(%s, %s)" % (_z(int(cyc.tick)), _z(int(cyc.period)))) if cyc else "(0, 1)",
        _z(int(it.value)) if it else "0",
        ("(DP.mkD %s %s %s %s %s %s)" % (T(dp.interval_counter), T(dp.interval), T(dp.time_left), _z(int(dp.count)),
                                         T(dp.count_interval_penalty), _z(int(dp.max_count)))) if dp else "(DP.mkD 1 1 0 0 0 0)")


def params(enc, comp, state):
    """(dict of Coq field values as python objects, list of time values) for the class's parameters.
    Times are raw floats here (scaled later); codes are ints."""
    from simaple.core.base import Stat
    name = type(comp).__name__
    st = state.dynamics.stat if hasattr(state, "dynamics") else None
    g = lambda f, dflt=0.0: getattr(comp, f, dflt)
    M0 = total_modifier(comp, None) if hasattr(comp, "modifier") else None
    rm = getattr(state, "robot_mastery", None)
    Mrobot = total_modifier(comp, rm.get_robot_modifier()) if rm is not None else None
    DH = lambda d, h, m=M0: (enc.d(d, m), enc.h(h))
    p = dict(dmg=(0, 0), delay=g("delay"), cdA=(st.calculate_cooldown(comp.cooldown_duration) if (st and hasattr(comp, "cooldown_duration")) else 0.0),
             cdB=0.0, last=0.0, lastraw=0.0, pd1=(0, 0), fin=(0, 0), findelay=0.0, dmg2=(0, 0), maxkd=0.0, prep=0.0,
             d2=(0, 0), n1=0, t1=0.0, t2=0.0, num=1, den=1, rows=[])
    if name == "RobotSummonSkill":
        p.update(dmg=DH(comp.damage, comp.hit), last=comp._get_lasting_duration(state), pd1=DH(comp.periodic_damage, comp.periodic_hit, Mrobot))
        p["lastraw"] = p["last"]
    elif name == "RobotSetupBuff":
        p.update(last=comp._get_lasting_duration(state))
    elif name == "HommingMissile":
        mb = total_modifier(comp, Stat(final_damage_multiplier=comp.final_damage_multiplier_during_barrage))
        p.update(last=comp.lasting_duration, lastraw=comp.lasting_duration, pd1=(enc.d(comp.periodic_damage, M0), 0),
                 d2=(enc.d(comp.periodic_damage, mb), 0), n1=int(comp.periodic_hit))
    elif name == "FullMetalBarrageComponent":
        p.update(dmg=DH(comp.damage, comp.hit), maxkd=comp.maximum_keydown_time, prep=comp.keydown_prepare_delay, fin=DH(0, 0),
                 findelay=comp.keydown_end_delay, t1=comp.homing_penalty_duration)
    elif name == "MultipleOptionComponent":
        p.update(last=comp.lasting_duration, lastraw=comp.lasting_duration, dmg2=DH(comp.missile_damage, comp.missile_hit, Mrobot),
                 d2=DH(comp.gatling_damage, comp.gatling_hit, Mrobot), n1=int(comp.missile_count))
    elif name == "MecaCarrier":
        p.update(last=comp.lasting_duration, lastraw=comp.lasting_duration,
                 pd1=DH(comp.damage_per_intercepter, comp.hit_per_intercepter, Mrobot), n1=int(comp.start_intercepter))
    elif name == "CosmicOrb":
        p.update(n1=int(comp.default_max_stack))
    elif name == "Elysion":
        p.update(last=comp.lasting_duration, d2=DH(comp.crack_damage, comp.crack_hit), t1=comp.crack_cooldown)
    elif name == "CrossTheStyx":
        p.update(dmg=DH(comp.damage, comp.hit))
    elif name == "CosmicBurst":
        p.update(dmg=(enc.d(comp.damage, M0), 0), d2=(enc.d(comp.damage * comp.damage_decrement_after_2nd_hit, M0), 0),
                 n1=int(comp.hit), t1=comp.cooltime_reduce_per_orb)
    elif name == "CosmicShower":
        p.update(last=comp.lasting_duration, lastraw=comp.lasting_duration, pd1=DH(comp.periodic_damage, comp.periodic_hit),
                 t1=comp.duration_increase_per_orb)
    elif name == "Cosmos":
        p.update(last=comp.lasting_duration, lastraw=comp.lasting_duration, pd1=DH(comp.periodic_damage, comp.periodic_hit),
                 t1=comp.periodic_interval_decrement_per_orb, t2=comp.periodic_interval)
    elif name == "FlareSlash":
        p.update(dmg=DH(comp.damage, comp.hit), t1=comp.cooldown_reduece_when_stance_changed, t2=comp.cooldown_reduce_when_cross_the_styx_hit)
    elif name == "FinalCutComponent":
        fr = Fraction(1 - comp.sudden_raid_cooltime_reduce * 0.01).limit_denominator(100000)
        p.update(dmg=DH(comp.damage, comp.hit), num=fr.numerator, den=fr.denominator)
    elif name == "BladeStormComponent":
        p.update(dmg=DH(comp.damage, comp.hit), maxkd=comp.maximum_keydown_time, prep=comp.keydown_prepare_delay, fin=DH(0, 0),
                 findelay=comp.keydown_end_delay, d2=DH(comp.prepare_damage, comp.prepare_hit))
    elif name == "UltimateDarkSightComponent":
        p.update(last=comp.lasting_duration)
    elif name == "KarmaBladeTriggerComponent":
        p.update(dmg=DH(comp.damage, comp.hit), cdB=comp.cooldown_duration, fin=DH(comp.finish_damage, comp.finish_hit),
                 lastraw=comp.lasting_duration, n1=int(comp.triggable_count))
    elif name == "HowlingGaleComponent":
        p.update(last=comp._get_lasting_duration(state), rows=[[DH(d, h) for d, h in zip(ds, hs)] for ds, hs in zip(comp.periodic_damage, comp.periodic_hit)])
        p["lastraw"] = p["last"]
    else:
        raise KeyError(name)
    times = [p[k] for k in ("delay", "cdA", "cdB", "last", "lastraw", "findelay", "maxkd", "prep", "t1", "t2")]
    return p, times


def enc_par(p, sc):
    T = lambda v: _z(int(Fraction(float(v)) * sc))
    dh = lambda x: "(%d, %d)" % x
    par = "(mkPar false %s %s %s %s %s %s 0%%nat [] %s (0, 0) (0, 0) %s %s %s %s %s 0 0 (0, 0))" % (
        dh(p["dmg"]), T(p["delay"]), T(p["cdA"]), T(p["cdB"]), T(p["last"]), T(p["lastraw"]), dh(p["pd1"]), dh(p["fin"]),
        T(p["findelay"]), dh(p["dmg2"]), T(p["maxkd"]), T(p["prep"]))
    rows = "[" + "; ".join("[" + "; ".join(dh(x) for x in r) + "]" for r in p["rows"]) + "]"
    return "(mkXP %s %s %s %s %s %s %s %s)" % (par, dh(p["d2"]), _z(p["n1"]), T(p["t1"]), T(p["t2"]), _z(p["num"]), _z(p["den"]), rows)


def enc_events(enc, events, comp, sc):
    from simaple.simulate.reserved_names import Tag
    T = lambda v: _z(int(Fraction(float(v)) * sc))
    int_hit = type(comp).__name__ in INT_HIT
    out, problems = [], []
    for e in events or []:
        tag = e["tag"]
        if e["name"] != comp.name:
            problems.append("event name %r is not the component's name" % e["name"])
        if tag == Tag.REJECT:
            out.append("EReject")
        elif tag == Tag.DAMAGE:
            pl = e["payload"]
            if int_hit:
                if float(pl["hit"]) != int(pl["hit"]):
                    raise H.OffGrid("non-integer hit")
                hit = _z(int(pl["hit"]))
            else:
                hit = "%d" % enc.h(pl["hit"])
            out.append("EDealt %d %s" % (enc.d(pl["damage"], pl.get("modifier")), hit))
        elif tag == Tag.DELAY:
            out.append("EDelay %s" % T(e["payload"]["time"]))
        elif tag == Tag.ELAPSED:
            out.append("EElapsed %s" % T(e["payload"]["time"]))
        elif tag == Tag.KEYDOWN_END:
            out.append("EKeydownEnd")
        else:
            problems.append("unmodelled event tag %r" % (tag,))
            out.append("EMobDot 0 0")
    return "[" + "; ".join(out) + "]", problems


def view_values(comp, state):
    """The real views of the input state: (validity, running, buff marker, keydown) + their time values."""
    from simaple.core.base import Stat
    views = type(comp).__views__
    times = []
    v = comp.validity(state) if "validity" in views else None
    if v is not None:
        times.append(v.time_left)
    r = comp.running(state) if "running" in views else None
    if r is not None:
        times += [r.time_left, r.lasting_duration]
    buff = None
    if "buff" in views:
        b = comp.buff(state)
        if b is None:
            buff = None
        elif type(comp).__name__ == "UltimateDarkSightComponent":
            buff = 1 if b == Stat(final_damage_multiplier=comp.final_damage_multiplier + comp.advanced_dark_sight_final_damage_multiplier) else -1
        else:
            buff = 1 if b is comp.stat else -1
    k = comp.keydown(state) if "keydown" in views else None
    if k is not None:
        times.append(k.time_left)
    return (v, r, buff, k), times


def enc_views(vals, sc):
    T = lambda v: _z(int(Fraction(float(v)) * sc))
    v, r, buff, k = vals
    oz = lambda x: "None" if x is None else "(Some %s)" % _z(int(x))
    if v is not None and v.stack is not None and float(v.stack) != int(v.stack):
        raise H.OffGrid("non-integer stack")
    val = "None" if v is None else "(Some (mkV %s %s %s))" % ("true" if v.valid else "false", T(v.time_left), oz(v.stack))
    run = "None" if r is None else "(Some (mkR %s %s %s))" % (T(r.time_left), T(r.lasting_duration), oz(r.stack))
    kd = "None" if k is None else "(Some (%s, %s))" % ("true" if k.running else "false", T(k.time_left))
    return "(%s, %s, %s, %s)" % (val, run, oz(buff), kd)


def payload_for(rng, meth, state=None):
    from simaple.simulate.event import DelayPayload
    if meth == "elapse":
        # boundaries of every guard: a timer of the state itself (exactly, or a quarter tick off)
        if state is not None and rng.random() < 0.35:
            ts = [t for t in state_times(state) if 0 < t <= 300000]
            if ts:
                return max(0.0, float(rng.choice(ts)) + rng.choice([0.0, 0.0, 0.25, -0.25]))
        return H.rtime(rng, True, 60000)
    if meth == "pause":
        return DelayPayload(time=H.rtime(rng, False, 3000))
    return None


def payload_time(meth, payload):
    if meth == "elapse":
        return float(payload)
    if meth == "pause":
        return float(payload.time)
    return 0.0


def encode_case(enc, comp, meth, state, payload, out, events):
    name = type(comp).__name__
    _m, _s, ctor, meths = TABLE[name]
    t = payload_time(meth, payload)
    p, ptimes = params(enc, comp, state)
    vals, vtimes = view_values(comp, state)
    sc = H.scale_of(state_times(state) + state_times(out) + ptimes + [t] + H.event_times(events) + vtimes)
    T = _z(int(Fraction(t) * sc))
    par = enc_par(p, sc)
    evs, problems = enc_events(enc, events, comp, sc)
    s_in = enc_state(enc, state, sc)
    ctxt = "xchk %s %s %s %s %s %s %s" % (ctor, meths[meth], par, T, s_in, enc_state(enc, out, sc), evs)
    vtxt = "xchkv %s %s %s %s" % (ctor, par, s_in, enc_views(vals, sc))
    return ctxt, vtxt, problems


def shard_text(cases_txt, views_txt):
    return ("From Coq Require Import ZArith List Bool.\nFrom V.Model Require Import Comp SpecMech SpecMechCorr.\n"
            "From V.Lib Require Import Corr.\nImport ListNotations.\nOpen Scope Z_scope.\n"
            "Eval vm_compute in (bad [\n" + ";\n".join(cases_txt) + "\n]).\n"
            "Eval vm_compute in (bad [\n" + ";\n".join(views_txt) + "\n]).\n")


# ------------------------------------------------------------------ case generation
def pool(rng, quick):
    """(component, action stat, shipped RobotMastery or None, origin)"""
    out = []
    for job in JOBS:
        for variant in ([0, 2] if quick else [0, 1, 2]):
            comps, astat = H.shipped_components(job, variant)
            rm = None
            for c in comps:
                if type(c).__name__ == "RobotMasteryComponent":
                    rm = c.get_default_state()["robot_mastery"]
            for c in comps:
                if type(c).__name__ in TABLE:
                    out.append((c, astat, rm, "shipped:%s/%d" % (job, variant)))
    for name in TABLE:
        for _ in range(5 if quick else 40):
            out.append((random_component(rng, name), H.random_action_stat(rng), None, "random"))
    return out


def generate(rng, quick):
    walk_len = 14 if quick else 18
    for comp, astat, rm, origin in pool(rng, quick):
        reds = list(TABLE[type(comp).__name__][3])
        state = default_state(rng, comp, astat, rm) if rng.random() < 0.6 else random_state(rng, comp, astat, rm)
        for _ in range(walk_len):
            meth = rng.choice(reds + [m for m in ("elapse", "use") if m in reds])
            payload = payload_for(rng, meth, state)
            yield comp, meth, state, payload, origin
            try:
                state, _ev = getattr(comp, meth)(payload, state)
            except Exception:
                state = random_state(rng, comp, astat, rm)
                continue
            r = rng.random()
            if r < 0.15:
                state = random_state(rng, comp, astat, rm)
            elif r < 0.35:
                # regenerate the bound entities only (other components change them between two calls)
                fresh = default_state(rng, comp, astat, rm)
                own = set(comp.get_default_state())
                upd = {f: getattr(fresh, f) for f in type(state).model_fields if f not in own and f != "dynamics"}
                if upd:
                    state = state.model_copy(update=upd, deep=True)


# ------------------------------------------------------------------ known findings of this extension
def replay_flareslash(reducer):
    """FlareSlash.<trigger> on a skill that is cooling down: rejected, yet the cooldown went down."""
    from simaple.core.base import ActionStat
    from simaple.simulate.component.entity import Cooldown
    from simaple.simulate.component.specific.soulmaster import FlareSlash, FlareSlashState
    from simaple.simulate.global_property import Dynamics
    c = FlareSlash(id="x", name="x", damage=1.0, hit=1.0, cooldown_duration=12000.0, delay=0.0,
                   cooldown_reduece_when_stance_changed=800.0, cooldown_reduce_when_cross_the_styx_hit=1200.0)
    s = FlareSlashState(cooldown=Cooldown(time_left=10000.0), dynamics=Dynamics(stat=ActionStat()))
    out, ev = getattr(c, reducer)(None, s)
    rej = any(e["tag"] == "global.reject" for e in ev)
    return (rej and out.cooldown.time_left != s.cooldown.time_left), \
        "rejected %s: cooldown %s -> %s" % (reducer, s.cooldown.time_left, out.cooldown.time_left)


def replay_barrage():
    """FullMetalBarrageComponent.elapse 100 then 900 vs 1000 with 100 ms of key-down left: penalty_lasting differs."""
    from simaple.core.base import ActionStat
    from simaple.simulate.component.entity import Cooldown, Keydown, Lasting
    from simaple.simulate.component.specific.mechanic import FullMetalBarrageComponent, FullMetalBarrageState
    from simaple.simulate.global_property import Dynamics
    c = FullMetalBarrageComponent(id="x", name="x", maximum_keydown_time=8000.0, damage=1.0, hit=1.0, delay=150.0, cooldown_duration=0.0,
                                  keydown_prepare_delay=0.0, keydown_end_delay=1800.0, homing_penalty_duration=2000.0,
                                  homing_final_damage_multiplier=67.0)
    s = FullMetalBarrageState(cooldown=Cooldown(time_left=0.0), keydown=Keydown(interval=150.0, interval_counter=50.0, time_left=100.0),
                              penalty_lasting=Lasting(time_left=0.0), dynamics=Dynamics(stat=ActionStat()))
    s1, _ = c.elapse(100.0, s)
    s2, _ = c.elapse(900.0, s1)
    s3, _ = c.elapse(1000.0, s)
    return (s2.penalty_lasting.time_left != s3.penalty_lasting.time_left and s2.keydown == s3.keydown), \
        "elapse 100 then 900: penalty_lasting.time_left %s; elapse 1000: %s" % (s2.penalty_lasting.time_left, s3.penalty_lasting.time_left)


EXT_STATUS = ("open-extension", "proposed")     # entries the property's driver does not consume yet


def witness_replay(entry):
    """(still_failing, detail) for an entry of KNOWN_FINDINGS.json that belongs to this extension."""
    m = entry.get("match", {})
    try:
        if m.get("component") == "FlareSlash":
            return replay_flareslash(m.get("reducer"))
        if m.get("component") == "FullMetalBarrageComponent":
            return replay_barrage()
        return False, "no replay known for %r" % (m,)
    except Exception as ex:     # the witness cannot even be built any more
        return False, "witness replay raised %r" % (ex,)


def known_match(entry, f):
    """Does the monitor observation `f` (entitycheck.monitor) fall under the entry?"""
    m = entry.get("match", {})
    if f.get("component") != m.get("component") or f.get("reducer") != m.get("reducer"):
        return False
    if entry["property"] == "C07":
        return "changed the state" in f["what"]
    return False    # C09-fullmetalbarrage-penalty-chunking: the per-component monitor cannot observe it (own ticks and views agree)


def known_replay(ctx):
    """Entries of KNOWN_FINDINGS.json that belong to this extension ("extension": "mech").  The witness of each is replayed
    on the implementation.  `open` entries are printed by the property's driver (entitycheck.run_prop), which cannot
    replay them itself: a witness that no longer reproduces is reported here as a broken tie.  `open-extension` entries
    (not yet consumed by the property's driver) are printed from here."""
    from lib.vf import load_known
    out = []
    for e in load_known(ctx.prop):
        if e.get("extension") != "mech" or e.get("status") not in ("open",) + EXT_STATUS:
            continue
        still, detail = witness_replay(e)
        out.append({"id": e["id"], "still_failing": still, "detail": detail})
        if not still:
            ctx.broken.append("known finding %s (extension mech) no longer reproduces on the implementation while the faithful "
                              "model still has it: %s" % (e["id"], detail))
        elif e.get("status") in EXT_STATUS:
            ctx.known(e, detail)
    return out


def cases(ctx, rng, quick):
    replayed = known_replay(ctx)
    enc = Enc()
    ctxts, vtxts, infos = [], [], []
    hist = collections.Counter()
    origins = collections.Counter()
    distinct = set()
    offgrid = raised = outside = 0
    shape_problems = []
    for comp, meth, state, payload, origin in generate(rng, quick):
        per = getattr(state, "periodic", None)
        if per is not None and per.interval <= 0:      # a non-positive tick interval is outside the model (and loops in Python)
            outside += 1
            continue
        try:
            out, events, pp = H.run_case(comp, meth, state, payload)
        except Exception:
            raised += 1
            continue
        events = [] if events is None else (events if isinstance(events, list) else [events])
        try:
            c, v, p2 = encode_case(enc, comp, meth, state, payload, out, events)
        except H.OffGrid:
            offgrid += 1
            continue
        desc = {"class": type(comp).__name__, "reducer": meth,
                "payload": payload.model_dump() if hasattr(payload, "model_dump") else payload,
                "component": json.loads(comp.model_dump_json()), "state": H.dump_state(state), "origin": origin}
        ctxts.append(c)
        vtxts.append(v)
        infos.append(desc)
        for q in list(pp) + list(p2):
            shape_problems.append(dict(desc, what=q))
        rej = any(e["tag"] == "global.reject" for e in events)
        hist["%s.%s%s" % (type(comp).__name__, meth, "(rejected)" if rej else "")] += 1
        origins["shipped" if origin.startswith("shipped") else "random"] += 1
        distinct.add(c)
    shards, sinfos = {}, {}
    size = 400
    for k in range(0, len(ctxts), size):
        name = "xmech_%s_%03d" % (ctx.prop.lower(), k // size)
        shards[name] = shard_text(ctxts[k:k + size], vtxts[k:k + size])
        sinfos[name] = infos[k:k + size]
    for q in shape_problems[:5]:
        ctx.broken.append("correspondence H-entity (extension mech): %s (%s.%s)" % (q["what"], q["class"], q["reducer"]))
    stats = {"cases": len(ctxts), "distinct": len(distinct), "offgrid_skipped": offgrid, "raised_skipped": raised, "outside_domain_skipped": outside,
             "event_shape_or_purity_problems": len(shape_problems), "known_findings_replayed": replayed, "instances": dict(origins), "histogram": dict(sorted(hist.items()))}
    return shards, sinfos, stats
