"""Case generation for the gen/CoreQ.v / gen/CoreF.v correspondence (C11, C12).

Python side: the real simaple classes imported from /repo. Every function the translator
emitted has a Python callable here; arguments are generated from the translator's own
parameter types, so a new field or parameter is picked up automatically."""
from __future__ import annotations

import copy
import math

from lib.numcorr import parse_type


def load():
    from simaple.core import base, damage
    from simaple.simulate.report import dpm
    return base, damage, dpm


def pyfun(defname: str):
    base, damage, dpm = load()
    Stat, ActionStat, LevelStat, ExtendedStat = base.Stat, base.ActionStat, base.LevelStat, base.ExtendedStat

    def iadd(a, b):
        a = a.model_copy(deep=True)
        a += b
        return a
    def iadd_self(a):
        a = a.model_copy(deep=True)
        a += a
        return a
    table = {
        "Stat_add": lambda a, b: a + b,
        "Stat_iadd": iadd,
        "Stat_iadd_self": iadd_self,
        "ActionStat_iadd_self": iadd_self,
        "Stat_stack": lambda a, n: a.stack(n),
        "Stat_sum": lambda l: Stat.sum(l),
        "Stat_all_stat": lambda v: Stat.all_stat(v),
        "Stat_all_stat_multiplier": lambda v: Stat.all_stat_multiplier(v),
        "ActionStat_add": lambda a, b: a + b,
        "ActionStat_iadd": iadd,
        "ActionStat_calculate_cooldown": lambda a, x: a.calculate_cooldown(x),
        "ActionStat_calculate_buff_duration": lambda a, x: a.calculate_buff_duration(x),
        "LevelStat_get_stat": lambda a, lv: a.get_stat(lv),
        "LevelStat_add": lambda a, b: a + b,
        "ExtendedStat_add": lambda a, b: a + b,
        "ExtendedStat_compute_by_level": lambda a, lv: a.compute_by_level(lv),
    }
    if defname in table:
        return table[defname]
    for b in ("STR", "DEX", "INT", "LUK"):
        if defname == "Stat_get_base_stat_coefficient_" + b:
            return lambda a, b=b: a.get_base_stat_coefficient(base.BaseStatType[b])
    for t in ("attack_power", "magic_attack"):
        if defname == "Stat_get_attack_coefficient_" + t:
            return lambda a, t=t: a.get_attack_coefficient(base.AttackType[t])
    if defname == "LevelAdvantage_get_advantage":
        def adv(self, m, c):
            try:
                return self.get_advantage(m, c)
            except IndexError:
                return None
        return adv
    if defname.startswith("DamageCalculator_") and defname.endswith("_get_damage"):
        def gd(self, log):
            try:
                return self.get_damage(log)
            except ValueError:
                return None
        return gd
    for cls in ("STRBasedDamageLogic", "INTBasedDamageLogic", "DEXBasedDamageLogic",
                "LUKBasedDamageLogic", "LUKBasedDualSubDamageLogic"):
        if defname.startswith(cls + "_"):
            m = defname[len(cls) + 1:]
            cands = [m, "_" + m]
            for mm in cands:
                if hasattr(getattr(damage, cls), mm):
                    # base-stat/attack-type helpers specialised on enums do not occur here
                    return lambda self, *a, mm=mm: getattr(self, mm)(*a)
    return None


# ------------------------------------------------------------------ random values
def rnd_num(rng, kind):
    r = rng.random()
    if kind == "int":
        return float(rng.randint(0, 400))
    if r < 0.15:
        return 0.0
    if r < 0.45:
        return float(rng.randint(-5, 300))
    if r < 0.7:
        return rng.randint(-400, 40000) / 64.0
    if r < 0.9:
        return rng.uniform(-50, 500)
    return rng.uniform(-1e6, 1e6)


def rnd_stat(rng, profile="any"):
    base, _d, _p = load()
    vals = {}
    for f in base.Stat.model_fields:
        if rng.random() < 0.25:
            continue
        if profile == "nonneg":
            v = abs(rnd_num(rng, "num")) if rng.random() < 0.8 else float(rng.randint(0, 999))
            v = min(v, 1e5)
        elif profile == "int":
            v = float(rng.randint(0, 300))
        else:
            v = rnd_num(rng, "num")
        if f == "ignored_defence":
            v = rng.choice([0.0, 100.0, float(rng.randint(0, 100)), rng.uniform(0, 100)])
        if f == "final_damage_multiplier" and profile != "nonneg":
            v = rng.choice([0.0, float(rng.randint(-90, 200)), rng.uniform(-99, 300)])
        vals[f] = v
    return base.Stat(**vals)


def rnd_value(rng, t, profile="any"):
    base, damage, _p = load()
    if t == "S":
        return rng.choice(["global.damage", "global.dot", "x"])
    if t == "Q":
        return rnd_num(rng, "num")
    if t == "B":
        return rng.random() < 0.5
    if t[0] == "rec":
        c = t[1]
        if c == "Stat":
            return rnd_stat(rng, profile)
        if c == "ActionStat":
            return base.ActionStat(
                cooltime_reduce=rng.choice([0.0, float(rng.randint(0, 9)) * 1000, rng.uniform(0, 8000)]),
                summon_duration=float(rng.randint(0, 60)), buff_duration=float(rng.randint(0, 200)),
                cooltime_reduce_rate=rng.choice([0.0, float(rng.randint(0, 100)), rng.uniform(0, 100)]))
        if c == "LevelStat":
            return base.LevelStat(**{f: float(rng.randint(0, 9)) for f in base.LevelStat.model_fields if rng.random() < 0.7})
        if c == "ExtendedStat":
            return base.ExtendedStat(stat=rnd_stat(rng, profile), action_stat=rnd_value(rng, ("rec", "ActionStat")),
                                     level_stat=rnd_value(rng, ("rec", "LevelStat")))
        if c == "LevelAdvantage":
            return _p.LevelAdvantage()
        if c == "DamageLog":
            from simaple.simulate.report.base import DamageLog
            return DamageLog(name=rng.choice(["a", "skill b"]), damage=rng.choice([0.0, float(rng.randint(1, 900)), rng.uniform(0, 900)]),
                             hit=float(rng.randint(0, 15)), buff=rnd_stat(rng, profile),
                             tag=rng.choice(["global.damage", "global.dot", "global.damage", "global.delay"]))
        if c.startswith("DamageCalculator_"):
            short = c[len("DamageCalculator_"):]
            lc = {"STR": "STRBasedDamageLogic", "INT": "INTBasedDamageLogic", "DEX": "DEXBasedDamageLogic",
                  "LUK": "LUKBasedDamageLogic", "LUKDual": "LUKBasedDualSubDamageLogic"}[short]
            return _p.DamageCalculator(character_spec=rnd_stat(rng, profile), damage_logic=rnd_value(rng, ("rec", lc)),
                                       armor=rng.choice([0, 100, 300, 380]), level_advantage=rng.choice([1.0, 1.2, 0.83]),
                                       force_advantage=rng.choice([1.0, 1.5, 0.7]))
        if hasattr(damage, c):
            return getattr(damage, c)(attack_range_constant=rng.choice([1.0, 1.2, 1.3, 1.34, 1.5, rng.uniform(0.5, 2)]),
                                      mastery=rng.choice([0.0, 1.0, 0.9, 0.95, rng.uniform(0, 1)]))
        raise ValueError(c)
    if t[0] == "list":
        n = rng.choice([0, 1, 2, 3, 5, 8])
        return [rnd_value(rng, t[1], profile) for _ in range(n)]
    raise ValueError(t)


INT_PARAMS = {"level", "lv", "stack", "mob_level", "character_level", "value", "armor"}


def rnd_args(rng, d, profile="any"):
    out = []
    for (n, ts) in d["params"]:
        t = parse_type(ts)
        if t == "Q" and n in INT_PARAMS:
            if n == "armor":
                out.append(float(rng.choice([0, 100, 300, 380, rng.randint(0, 400)])))
            elif n in ("mob_level", "character_level"):
                out.append(rng.randint(1, 400))
            else:
                out.append(rng.randint(0, 300))
        elif t == "Q" and n == "original_cooldown":
            out.append(rng.choice([0.0, float(rng.randint(0, 600)) * 1000, rng.uniform(0, 600000), rng.uniform(0, 12000)]))
        else:
            out.append(rnd_value(rng, t, profile))
    return out


def finite(v) -> bool:
    if isinstance(v, (int, float)):
        return math.isfinite(v)
    if v is None:
        return True
    if isinstance(v, list):
        return all(finite(x) for x in v)
    if hasattr(v, "model_fields"):
        return all(finite(getattr(v, f)) for f in type(v).model_fields)
    return True
