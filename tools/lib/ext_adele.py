"""Extension `adele` of the H-entity correspondence: Model/SpecAdele.v vs the real reducers / views of the
job-specific classes of component/specific/{common_v,thief,pirate,flora,cygnus,adele}.py and of
component/common/always_enabled.py, called directly as `component.<reducer>(payload, state)`.

A class that binds entities of other components (ether gauge, order swords, restore lasting) gets them in
its state: the case is (class, reducer, component, full input state incl. bound entities, payload).
Times are exact dyadic floats scaled per case to integer ticks; damage numbers (together with the kind of
modifier the event carries) are interned to codes; hit numbers are codes, except for AdeleStormComponent
(numbers, because the reducer multiplies them)."""
from __future__ import annotations

import collections
import json
from fractions import Fraction

from lib import h_entity as H

CLASSES = ["ProgrammedPeriodicComponent", "UltimateDarkSightComponent", "PenalizedBuffSkill", "MagicCurcuitFullDriveComponent",
           "TranscendentCygnusBlessing", "AdeleEtherComponent", "AdeleCreationComponent", "AdeleOrderComponent",
           "AdeleGatheringComponent", "AdeleBlossomComponent", "AdeleRuinComponent", "AdeleRestoreBuffComponent",
           "AdeleStormComponent", "AlwaysEnabledComponent"]
TARGETS = ["theories/Model/SpecAdele.vo", "theories/Lib/Corr.vo"]
PROPS = {"C07": ["theories/Props/C07_adele.v"], "C09": ["theories/Props/C09_adele.v"], "C10": ["theories/Props/C10_adele.v"]}

SPEC = "simaple.simulate.component.specific."
KINDS = {
    # coq constructor: (module, class, reducers)
    "ProgrammedPeriodic": (SPEC + "common_v", "ProgrammedPeriodicComponent", ["use", "elapse"]),
    "DarkSight": (SPEC + "thief", "UltimateDarkSightComponent", ["use", "elapse"]),
    "PenalizedBuff": (SPEC + "pirate", "PenalizedBuffSkill", ["use", "elapse"]),
    "FullDrive": (SPEC + "flora", "MagicCurcuitFullDriveComponent", ["use", "elapse"]),
    "CygnusBlessing": (SPEC + "cygnus", "TranscendentCygnusBlessing", ["use", "elapse"]),
    "Ether": (SPEC + "adele", "AdeleEtherComponent", ["elapse", "trigger", "resonance", "order"]),
    "Creation": (SPEC + "adele", "AdeleCreationComponent", ["elapse", "trigger"]),
    "Order": (SPEC + "adele", "AdeleOrderComponent", ["use", "elapse"]),
    "Gathering": (SPEC + "adele", "AdeleGatheringComponent", ["use", "elapse"]),
    "Blossom": (SPEC + "adele", "AdeleBlossomComponent", ["use", "elapse"]),
    "Ruin": (SPEC + "adele", "AdeleRuinComponent", ["use", "elapse"]),
    "Restore": (SPEC + "adele", "AdeleRestoreBuffComponent", ["use", "elapse"]),
    "Storm": (SPEC + "adele", "AdeleStormComponent", ["use", "elapse"]),
    "AlwaysEnabled": ("simaple.simulate.component.common.always_enabled", "AlwaysEnabledComponent", []),
}
METH = {"use": "XUse", "elapse": "XElapse", "trigger": "XTrigger", "resonance": "XResonance", "order": "XOrder"}
INF = 999_999_999
NUMERIC_HIT = {"Storm"}
MUTABLE = {"time_left", "assigned_duration", "stack", "interval_counter", "count", "running_swords"}


def cls_of(kind):
    import importlib
    mod, cn, _r = KINDS[kind]
    return getattr(importlib.import_module(mod), cn)


def kind_of(component):
    n = type(component).__name__
    for k, (_m, cn, _r) in KINDS.items():
        if cn == n:
            return k
    return None


def state_type(component, meth):
    """The ReducerState class a reducer/view is annotated with."""
    import inspect
    ps = list(inspect.signature(getattr(component, meth)).parameters.values())
    return ps[-1].annotation


# ------------------------------------------------------------------ generation
def _stat(rng):
    from simaple.core.base import Stat
    return Stat(**{rng.choice(["attack_power", "damage_multiplier", "final_damage_multiplier", "STR"]): float(rng.choice([5, 10, 20]))})


def random_component(rng, kind):
    from simaple.core.base import Stat
    cls = cls_of(kind)
    rt, rs, rd = H.rtime, H.rstep, H.rdmg
    dmg, hit = rd(rng)
    d2, h2 = rd(rng)
    d3, h3 = rd(rng)
    base = dict(id="x-%s" % kind, name="skill-%s" % kind, cooldown_duration=rt(rng), delay=rt(rng, hi=3000),
                disable_validity=rng.random() < 0.2)
    if rng.random() < 0.3:
        base["modifier"] = Stat(final_damage_multiplier=float(rng.choice([10, 20])))
    if kind == "ProgrammedPeriodic":
        ivs = [rs(rng) for _ in range(rng.randint(1, 5))]
        if rng.random() < 0.3:
            ivs = [900.0, 850.0, 750.0, 650.0, 5730.0]
        kw = dict(damage=dmg, hit=hit, periodic_intervals=ivs, periodic_damage=d2, periodic_hit=h2,
                  lasting_duration=rt(rng, True, 120000))
    elif kind == "DarkSight":
        kw = dict(lasting_duration=rt(rng), final_damage_multiplier=float(rng.choice([0, 10, 15])),
                  advanced_dark_sight_final_damage_multiplier=float(rng.choice([0, 5, 20])))
    elif kind == "PenalizedBuff":
        kw = dict(lasting_duration=rt(rng), advantage=Stat(attack_power=30), disadvantage=Stat(attack_power=-10, STR=float(rng.choice([0, 1]))),
                  apply_buff_duration=rng.random() < 0.7)
    elif kind == "FullDrive":
        kw = dict(lasting_duration=rt(rng, False, 120000), max_damage_multiplier=float(rng.choice([10, 20])),
                  periodic_initial_delay=(None if rng.random() < 0.5 else rt(rng, False, 3000)), periodic_interval=rs(rng),
                  periodic_damage=d2, periodic_hit=h2)
    elif kind == "CygnusBlessing":
        base["cooldown_duration"] = rs(rng, 60000)
        kw = dict(lasting_duration=rt(rng), damage_increment=float(rng.choice([0, 1, 6, 7.5])), increase_interval=rs(rng, 20000),
                  default_damage=float(rng.choice([0, 1, 30, 12.5])), maximum_damage=float(rng.choice([20, 45, 120])),
                  maximum_stack=rng.randint(1, 3))
    elif kind == "Ether":
        base = dict(id=base["id"], name=base["name"])
        kw = dict(maximum_stack=rng.choice([100, 400, 37]), periodic_interval=rs(rng, 20000), stack_per_period=rng.choice([0, 1, 5, 50]),
                  stack_per_trigger=rng.choice([0, 3, 12, 15]), stack_per_resonance=rng.choice([0, 20, 100]),
                  creation_step=rng.choice([1, 30, 100]), order_consume=rng.choice([0, 10, 100]))
    elif kind == "Creation":
        kw = dict(damage=dmg, hit_per_sword=hit)
    elif kind == "Order":
        kw = dict(periodic_interval=rs(rng), periodic_damage=d2, periodic_hit=h2, lasting_duration=rt(rng, True, 60000),
                  maximum_stack=rng.choice([0, 2, 3, 6]), restore_maximum_stack=rng.choice([1, 4, 8]))
    elif kind in ("Gathering", "Blossom"):
        kw = dict(damage=dmg, hit_per_sword=hit)
        if kind == "Blossom":
            kw["exceeded_stat"] = Stat(final_damage_multiplier=float(rng.choice([-25, -10])))
    elif kind == "Ruin":
        kw = dict(periodic_interval_first=rs(rng), periodic_damage_first=d2, periodic_hit_first=h2, lasting_duration_first=rt(rng, False, 20000),
                  periodic_interval_second=rs(rng), periodic_damage_second=d3, periodic_hit_second=h3, lasting_duration_second=rt(rng, False, 20000))
    elif kind == "Restore":
        kw = dict(lasting_duration=rt(rng), ether_multiplier=float(rng.choice([0, 50, 80, 15])), stat=_stat(rng))
    elif kind == "Storm":
        kw = dict(periodic_initial_delay=(None if rng.random() < 0.5 else rt(rng, False, 3000)), periodic_interval=rs(rng),
                  periodic_damage=d2, periodic_hit=float(rng.choice([0, 1, 2, 0.5])), lasting_duration=rt(rng, False, 60000),
                  maximum_stack=rng.choice([6, 8]))
    elif kind == "AlwaysEnabled":
        base = dict(id=base["id"], name=base["name"])
        kw = dict(stat=_stat(rng))
    return cls(**base, **kw)


def bound_defaults(rng, component, siblings=None):
    """Default entities for the names in `binds`: from the sibling component that owns them (shipped jobs) or random ones."""
    from simaple.simulate.component.specific import adele as A
    out = {}
    for local, addr in (component.binds or {}).items():
        ent = None
        if siblings is not None:
            _e, owner, name = addr.split(".")
            for s in siblings:
                if s.name == owner and name in s.get_default_state():
                    ent = s.get_default_state()[name].model_copy(deep=True)
        if ent is None:
            if local == "ether_gauge":
                ent = A.EtherGauge(maximum_stack=rng.choice([100, 400, 37]), creation_step=rng.choice([1, 30, 100]),
                                   order_consume=rng.choice([0, 10, 100]))
            elif local == "restore_lasting":
                ent = A.RestoreLasting(time_left=0, ether_multiplier=float(rng.choice([0, 50, 80, 15])))
            elif local == "order_sword":
                ent = A.OrderSword(interval=H.rstep(rng))
            else:
                raise KeyError(local)
        out[local] = ent
    return out


def default_entities(rng, component, action_stat, siblings=None):
    from simaple.simulate.global_property import Dynamics
    ents = {k: v.model_copy(deep=True) for k, v in component.get_default_state().items()}
    ents.update(bound_defaults(rng, component, siblings))
    ents["dynamics"] = Dynamics(stat=action_stat)
    return ents


def randomize(rng, ents, names=None, lasting_hint=60000.0):
    """Random well-formed (not necessarily reachable) values for the entities `names` (default: all)."""
    from simaple.simulate.component import entity as E
    from simaple.simulate.component.specific import adele as A
    from simaple.simulate.component.specific.common_v import ProgrammedPeriodic
    rt = H.rtime
    for name in (names or list(ents)):
        e = ents[name]
        if isinstance(e, E.Cooldown):
            e.time_left = rng.choice([-500.0, 0.0, 0.25, rt(rng)])
        elif isinstance(e, E.Lasting):
            e.time_left = rng.choice([-30.0, 0.0, 0.5, rt(rng)])
            e.assigned_duration = rng.choice([rt(rng), max(e.time_left, 0.0) + rt(rng, True, 60000)])
        elif isinstance(e, E.Consumable):
            e.stack = rng.randint(0, e.maximum_stack)
            if e.cooldown_duration > 0:
                e.time_left = e.cooldown_duration if e.stack == e.maximum_stack else \
                    max(0.25, min(e.cooldown_duration, rt(rng, False, max(1, int(e.cooldown_duration)))))
        elif isinstance(e, E.Periodic):
            if e.time_left >= INF - 1e6:     # the ether clock: stays practically infinite
                e.time_left = float(INF - rng.choice([0, 30, 10020, 123456.5]))
                e.interval_counter = rng.choice([e.interval, max(0.25, min(e.interval, rt(rng, False, 5000)))])
                e.count = rng.randint(0, 500)
            elif rng.random() < 0.75:
                e.time_left = rng.choice([0.0, rt(rng, True, 60000)])
                e.interval_counter = rng.choice([e.interval, max(0.25, min(e.interval, rt(rng, False, 5000))), rt(rng, False, 3000)])
                e.count = rng.randint(0, 5)
        elif isinstance(e, A.EtherGauge):
            e.stack = rng.choice([0, e.order_consume, max(0, e.order_consume - 1), e.creation_step, e.creation_step * 2 - 1, e.creation_step * 3,
                                  e.maximum_stack, rng.randint(0, e.maximum_stack), -e.order_consume])
        elif isinstance(e, E.Stack):
            e.stack = rng.randint(0, e.maximum_stack)
        elif isinstance(e, ProgrammedPeriodic):
            e.time_left = rng.choice([0.0, -900.0, rt(rng, True, 60000), rt(rng, False, 60000)])
            e.interval_counter = rng.choice([0.0, rt(rng, False, 6000), -rt(rng, True, 20000), -rt(rng, True, 250000)])
            e.count = rng.randint(0, 12)
        elif isinstance(e, A.OrderSword):
            n = rng.choice([0, 0, 1, 2, 3, 4])
            tls = sorted(rng.choice([rt(rng, False, int(lasting_hint) or 1), lasting_hint or 1.0, 0.25, e.interval, e.interval * 2 + 0.5]) for _ in range(n))
            if rng.random() < 0.15:
                rng.shuffle(tls)
            # counters: fresh, one interval, inside the interval, overdue, and == time_left (the boundary of `counter < time_left`)
            e.running_swords = [(rng.choice([0.0, e.interval, max(0.25, min(e.interval, rt(rng, False, 5000))), -rt(rng, True, 3000), float(t)]), float(t)) for t in tls]
    return ents


# ------------------------------------------------------------------ encoding
class Enc:
    def __init__(self):
        self.codes = {}

    def code(self, x) -> int:
        if x not in self.codes:
            self.codes[x] = len(self.codes) + 1
        return self.codes[x]


_z = H._z


def ent_times(e):
    from simaple.simulate.component import entity as E
    from simaple.simulate.component.specific import adele as A
    from simaple.simulate.component.specific.common_v import ProgrammedPeriodic
    if isinstance(e, E.Cooldown):
        return [e.time_left]
    if isinstance(e, E.Lasting):
        return [e.time_left, e.assigned_duration]
    if isinstance(e, E.Consumable):
        return [e.cooldown_duration, e.time_left]
    if isinstance(e, E.Periodic):
        return [e.interval, e.interval_counter, e.time_left] + ([e.initial_counter] if e.initial_counter is not None else [])
    if isinstance(e, ProgrammedPeriodic):
        return [e.interval_counter, e.time_left] + list(e.intervals)
    if isinstance(e, A.OrderSword):
        return [e.interval] + [x for sw in e.running_swords for x in sw]
    return []


def state_times(state):
    out = []
    for n in type(state).model_fields:
        out += ent_times(getattr(state, n))
    return out


def params(kind, c, state):
    """Python-side parameters of the model (times as floats; see SpecAdele.v)."""
    g = lambda f, d=0.0: getattr(c, f, d)
    st = state.dynamics.stat if hasattr(state, "dynamics") else None
    p = dict(disable=bool(g("disable_validity", False)), delay=g("delay"), cdA=0.0, last=0.0, lastraw=g("lasting_duration"),
             dmg=(0.0, 0.0), pd1=(0.0, 0.0), pd2=(0.0, 0.0), dmgx=(0.0, 0.0), last2=0.0, swi=1.0, bint=1.0,
             gmax=0, cstep=1, ocons=0, sper=0, strig=0, strig_r=0, sres=0, maxsw=0, maxsw_r=0, bdef=0.0, binc=0.0, bmax=0.0)
    if st is not None and hasattr(c, "cooldown_duration"):
        p["cdA"] = st.calculate_cooldown(c.cooldown_duration)
    p["last"] = p["lastraw"]
    if kind in ("ProgrammedPeriodic",):
        p.update(dmg=(c.damage, c.hit), pd1=(c.periodic_damage, c.periodic_hit))
    if kind == "PenalizedBuff" and c.apply_buff_duration:
        p["last"] = st.calculate_buff_duration(c.lasting_duration)
    if kind == "Restore":
        p["last"] = st.calculate_buff_duration(c.lasting_duration)
    if kind in ("FullDrive", "Storm"):
        p.update(dmg=(0, 0), pd1=(c.periodic_damage, c.periodic_hit))
    if kind == "CygnusBlessing":
        p.update(bint=c.increase_interval, bdef=c.default_damage, binc=c.damage_increment, bmax=c.maximum_damage)
    if kind == "Ether":
        p.update(sper=c.stack_per_period, sres=c.stack_per_resonance, strig=int(c.stack_per_trigger * 1),
                 strig_r=int(c.stack_per_trigger * (1 + state.restore_lasting.ether_multiplier / 100)))
    if kind in ("Creation", "Gathering", "Blossom"):
        p.update(dmg=(c.damage, c.hit_per_sword))
    if kind == "Blossom":
        p.update(dmgx=(c.damage, c.hit_per_sword))
    if kind == "Order":
        p.update(pd1=(c.periodic_damage, c.periodic_hit), maxsw=c.maximum_stack, maxsw_r=c.restore_maximum_stack)
    if kind == "Ruin":
        p.update(lastraw=c.lasting_duration_first, last=c.lasting_duration_first, last2=c.lasting_duration_second,
                 pd1=(c.periodic_damage_first, c.periodic_hit_first), pd2=(c.periodic_damage_second, c.periodic_hit_second))
    if hasattr(state, "ether_gauge"):
        eg = state.ether_gauge
        p.update(gmax=eg.maximum_stack, cstep=eg.creation_step, ocons=eg.order_consume)
    if hasattr(state, "order_sword"):
        p["swi"] = state.order_sword.interval
    return p


def par_times(p):
    return [p[k] for k in ("delay", "cdA", "last", "lastraw", "last2", "swi", "bint")]


def modifier_kind(c, m):
    """Which modifier a damage event carries: the component's own (None or .modifier), the exceeded one, other."""
    own = c.modifier.model_dump() if getattr(c, "modifier", None) else None
    if m == own:
        return "own"
    ex = getattr(c, "exceeded_stat", None)
    if ex is not None:
        tot = (ex + c.modifier) if getattr(c, "modifier", None) else ex
        if m == tot.model_dump():
            return "exceeded"
    return "other:" + json.dumps(m, sort_keys=True)


def enc_case(enc: Enc, kind, c, meth, state, payload, out, events):
    """-> (reducer case text or None, view case text, problems). Raises H.OffGrid."""
    p = params(kind, c, state)
    t = float(payload) if meth == "elapse" else 0.0
    vals, vtimes = views(kind, c, state)
    times = state_times(state) + par_times(p) + [t] + vtimes
    if out is not None:
        times += state_times(out) + H.event_times(events)
    sc = H.scale_of(times)
    T = lambda v: _z(int(Fraction(float(v)) * sc))
    numeric = kind in NUMERIC_HIT
    hv = [p["pd1"][1]] + ([e["payload"]["hit"] for e in (events or []) if e["tag"] == "global.damage"] if numeric else [])
    hsc = H.scale_of(hv) if numeric else 1
    vsc = H.scale_of([p["bdef"], p["binc"], p["bmax"]] + list(vals.get("buffnum", [])))

    def hitc(h):
        return int(Fraction(float(h)) * hsc) if numeric else enc.code(("hit", float(h)))

    def dh(d, h, mk="own"):
        return "(%d, %s)" % (enc.code(("dmg", float(d), mk)), _z(hitc(h)))
    V = lambda v: _z(int(Fraction(float(v)) * vsc))
    par = ("(mkPar %s %s %s %s 0 %s %s 0%%nat [] %s %s (0, 0) (0, 0) 0 (0, 0) 0 0 0 0 (0, 0))" % (
        "true" if p["disable"] else "false", dh(*p["dmg"]), T(p["delay"]), T(p["cdA"]), T(p["last"]), T(p["lastraw"]),
        dh(*p["pd1"]), dh(*p["pd2"])))
    xpar = "(mkXP %s %s %s %s %s %s %s %s %s %s %s %s %s %s %s %s %s %s)" % (
        par, _z(p["gmax"]), _z(p["cstep"]), _z(p["ocons"]), _z(p["sper"]), _z(p["strig"]), _z(p["strig_r"]), _z(p["sres"]),
        T(p["swi"]), _z(p["maxsw"]), _z(p["maxsw_r"]), dh(p["dmgx"][0], p["dmgx"][1], "exceeded"), T(p["last2"]), T(INF),
        T(p["bint"]), V(p["bdef"]), V(p["binc"]), V(p["bmax"]))
    problems = []
    if not p["swi"] > 0:        # hypothesis of C09_adele_elapse_chunk (wf_x); with it the model never answers out-of-fuel
        problems.append("OrderSword.interval %r is not positive (parameter condition of wf_x)" % (p["swi"],))
    ctxt = None
    if out is not None:
        evs = []
        for e in events or []:
            tag = e["tag"]
            if e["name"] != c.name:
                problems.append("event name %r is not the component's name" % e["name"])
            if tag == "global.reject":
                evs.append("EReject")
            elif tag == "global.damage":
                mk = modifier_kind(c, e["payload"].get("modifier"))
                evs.append("EDealt %d %s" % (enc.code(("dmg", float(e["payload"]["damage"]), mk)), _z(hitc(e["payload"]["hit"]))))
            elif tag == "global.delay":
                evs.append("EDelay %s" % T(e["payload"]["time"]))
            elif tag == "global.elapsed":
                evs.append("EElapsed %s" % T(e["payload"]["time"]))
            else:
                problems.append("unmodelled event tag %r" % (tag,))
                evs.append("EKeydownEnd")
        if residue(state) != residue(out):
            problems.append("a constant field of an entity (or an unmodelled entity) was changed by the reducer")
        ctxt = "chk %s %s %s %s %s %s [%s]" % (kind, METH[meth], xpar, T(t), enc_xst(state, sc), enc_xst(out, sc), "; ".join(evs))
    # views of the input state
    v = vals.get("validity")
    val = "None" if v is None else "(Some (mkV %s %s %s))" % ("true" if v.valid else "false", T(v.time_left),
                                                               "None" if v.stack is None else "(Some %s)" % _z(int(v.stack)))
    r = vals.get("running")
    run = "None" if r is None else "(Some (mkR %s %s %s))" % (T(r.time_left), T(r.lasting_duration),
                                                               "None" if r.stack is None else "(Some %s)" % _z(int(r.stack)))
    b = vals.get("buff")
    if b is None:
        buff = "None"
    elif kind == "CygnusBlessing":
        buff = "(Some %s)" % V(b)
    else:
        buff = "(Some %s)" % _z(b)
    vtxt = "chkv %s %s %s (%s, %s, %s)" % (kind, xpar, enc_xst(state, sc), val, run, buff)
    return ctxt, vtxt, problems


def residue(state):
    """Everything of the state the model treats as constant."""
    d = json.loads(json.dumps(state.model_dump(), default=str))
    for _n, e in d.items():
        if isinstance(e, dict):
            for k in list(e):
                if k in MUTABLE:
                    del e[k]
    return d


def enc_xst(state, sc) -> str:
    T = lambda v: _z(int(Fraction(float(v)) * sc))
    f = {n: getattr(state, n) for n in type(state).model_fields}
    cd, las, cons = f.get("cooldown"), f.get("lasting"), f.get("consumable")
    from simaple.simulate.component.specific import adele as A
    rl = f.get("restore_lasting")
    if isinstance(las, A.RestoreLasting):       # the restore component's own `lasting` IS the restore lasting entity
        rl, las = las, None
    pers = [f.get("periodic") or f.get("interval_state_first"), f.get("interval_state_second"), None]
    stk = f.get("stack")

    def per(p):
        if p is None:
            return "(P.mkP 1 1 0 0)", "None"
        return ("(P.mkP %s %s %s %s)" % (T(p.interval), T(p.interval_counter), T(p.time_left), _z(int(p.count))),
                "None" if p.initial_counter is None else "(Some %s)" % T(p.initial_counter))
    ps = [per(p) for p in pers]
    ust = ("(mkU %s 0 %s %s %s %s %s %s %s %s %s (K.mkK 1 0 (-1)) %s)" % (
        T(cd.time_left) if cd else "0", T(las.time_left) if las else "0", T(las.assigned_duration) if las else "0",
        ("(C.mkC %s %s %s %s)" % (_z(cons.maximum_stack), _z(cons.stack), T(cons.cooldown_duration), T(cons.time_left))) if cons else "(C.mkC 1 1 1 1)",
        ps[0][0], ps[1][0], ps[2][0], ps[0][1], ps[1][1], ps[2][1], _z(int(stk.stack)) if stk else "0"))
    pg = f.get("programmed_periodic")
    pgt = ("(PG.mk %s [%s] %s %s)" % (T(pg.interval_counter), "; ".join(T(x) for x in pg.intervals), T(pg.time_left), _z(int(pg.count)))) if pg else "(PG.mk 1 [1] 0 0)"
    eg = f.get("ether_gauge")
    sw = f.get("order_sword")
    swt = "[" + "; ".join("(%s, %s)" % (T(a), T(b)) for a, b in (sw.running_swords if sw else [])) + "]"
    return "(mkX %s %s %s %s %s %s)" % (ust, pgt, _z(int(eg.stack)) if eg else "0", T(rl.time_left) if rl else "0",
                                        T(rl.assigned_duration) if rl else "0", swt)


def as_type(st_type, ents):
    return st_type(**{k: ents[k] for k in st_type.model_fields})


def views(kind, c, state):
    """Real views of the (reducer) state -> ({validity, running, buff code, buffnum}, times)."""
    from simaple.core.base import Stat
    vs = type(c).__views__
    ents = {n: getattr(state, n) for n in type(state).model_fields}
    out, times = {}, []
    if "validity" in vs:
        v = c.validity(as_type(state_type(c, "validity"), ents))
        out["validity"] = v
        times.append(v.time_left)
    if "running" in vs:
        r = c.running(as_type(state_type(c, "running"), ents))
        out["running"] = r
        times += [r.time_left, r.lasting_duration]
    if "buff" in vs:
        b = c.buff(as_type(state_type(c, "buff"), ents))
        if b is None:
            out["buff"] = None
        elif kind == "CygnusBlessing":
            ok = b == Stat(damage_multiplier=b.damage_multiplier)
            out["buff"] = b.damage_multiplier if ok else -12345.0
            out["buffnum"] = [out["buff"]]
        else:
            want = {"DarkSight": lambda: [Stat(final_damage_multiplier=c.final_damage_multiplier + c.advanced_dark_sight_final_damage_multiplier)],
                    "PenalizedBuff": lambda: [c.advantage, c.disadvantage],
                    "FullDrive": lambda: [Stat(damage_multiplier=c.max_damage_multiplier)],
                    "Restore": lambda: [c.stat], "AlwaysEnabled": lambda: [c.stat]}[kind]()
            # the views return the configured object itself: identity first (two configured stats may be equal)
            out["buff"] = next((i + 1 for i, w in enumerate(want) if b is w), None) or next((i + 1 for i, w in enumerate(want) if b == w), -1)
    return out, times


def shard_text(cases_txt, views_txt) -> str:
    return ("From Coq Require Import ZArith List Bool.\nFrom V.Model Require Import Comp SpecAdele.\nFrom V.Lib Require Import Corr.\n"
            "Import ListNotations.\nOpen Scope Z_scope.\n"
            "Definition ev_eqb (a b : ev) : bool := match a, b with EReject, EReject => true | EDealt d h, EDealt d' h' => (d =? d') && (h =? h')\n"
            " | EDelay t, EDelay t' => t =? t' | EElapsed t, EElapsed t' => t =? t' | EKeydownEnd, EKeydownEnd => true\n"
            " | EMobDot d l, EMobDot d' l' => (d =? d') && (l =? l') | _, _ => false end.\n"
            "Definition oz_eqb (a b : option Z) := match a, b with Some x, Some y => x =? y | None, None => true | _, _ => false end.\n"
            "Definition p_eqb (a b : P.P) := (P.interval a =? P.interval b) && (P.counter a =? P.counter b) && (P.tl a =? P.tl b) && (P.cnt a =? P.cnt b).\n"
            "Definition ust_eqb (a b : ust) : bool := (u_cd a =? u_cd b) && (u_cd2 a =? u_cd2 b) && (u_ltl a =? u_ltl b) && (u_lad a =? u_lad b)\n"
            " && (C.maxs (u_cons a) =? C.maxs (u_cons b)) && (C.stack (u_cons a) =? C.stack (u_cons b)) && (C.cd (u_cons a) =? C.cd (u_cons b)) && (C.tl (u_cons a) =? C.tl (u_cons b))\n"
            " && p_eqb (u_p1 a) (u_p1 b) && p_eqb (u_p2 a) (u_p2 b) && p_eqb (u_p3 a) (u_p3 b)\n"
            " && oz_eqb (u_ic1 a) (u_ic1 b) && oz_eqb (u_ic2 a) (u_ic2 b) && oz_eqb (u_ic3 a) (u_ic3 b)\n"
            " && (K.itv (u_kd a) =? K.itv (u_kd b)) && (K.cnt (u_kd a) =? K.cnt (u_kd b)) && (K.tl (u_kd a) =? K.tl (u_kd b)) && (u_stk a =? u_stk b).\n"
            "Definition pg_eqb (a b : PG.T) := (PG.ic a =? PG.ic b) && lclose Z.eqb (PG.ivs a) (PG.ivs b) && (PG.tl a =? PG.tl b) && (PG.cnt a =? PG.cnt b).\n"
            "Definition sw_eqb (a b : sword) := (fst a =? fst b) && (snd a =? snd b).\n"
            "Definition xst_eqb (a b : xst) := ust_eqb (x_u a) (x_u b) && pg_eqb (x_pg a) (x_pg b) && (x_gauge a =? x_gauge b) && (x_rl a =? x_rl b)\n"
            " && (x_rlad a =? x_rlad b) && lclose sw_eqb (x_sw a) (x_sw b).\n"
            "Definition chk (c : xcomp) (m : xmeth) (p : xpar) (t : Z) (s : xst) (s' : xst) (es : list ev) : bool :=\n"
            "  match xreduce_exec c m p t s with Some (r, e) => xst_eqb r s' && lclose ev_eqb e es | None => false end.\n"
            "Definition v_eqb (a b : option validity) := match a, b with Some a, Some b => Bool.eqb (v_valid a) (v_valid b) && (v_time_left a =? v_time_left b) && oz_eqb (v_stack a) (v_stack b) | None, None => true | _, _ => false end.\n"
            "Definition r_eqb (a b : option running) := match a, b with Some x, Some y => (r_time_left x =? r_time_left y) && (r_duration x =? r_duration y) && oz_eqb (r_stack x) (r_stack y) | None, None => true | _, _ => false end.\n"
            "Definition chkv (c : xcomp) (p : xpar) (s : xst) (e : option validity * option running * option Z) : bool :=\n"
            "  let '(v, r, b) := e in v_eqb (xview_validity c p s) v && r_eqb (xview_running c p s) r && oz_eqb (xview_buff c p s) b.\n"
            "Eval vm_compute in (bad [\n" + ";\n".join(cases_txt) + "\n]).\n"
            "Eval vm_compute in (bad [\n" + ";\n".join(views_txt) + "\n]).\n")


# ------------------------------------------------------------------ case generation
def pool(rng, quick):
    """(component, action_stat, siblings or None)"""
    out = []
    kinds = [k for k in KINDS]
    n = 8 if quick else 40
    for i in range(n * len(kinds)):
        kind = kinds[i % len(kinds)]
        try:
            out.append((random_component(rng, kind), H.random_action_stat(rng), None))
        except Exception:      # pydantic refuses the parameters (e.g. a non-positive initial delay)
            continue
    jobs = [("adele", 0), ("adele", 2), ("dualblade", 1), ("archmagefb", 0), ("mechanic", 2), ("soulmaster", 1), ("windbreaker", 0), ("bishop", 1), ("archmagetc", 2)]
    if quick:
        jobs = jobs[:2] + rng.sample(jobs[2:], 2)
    for job, variant in jobs:
        comps, astat = H.shipped_components(job, variant)
        mine = [c for c in comps if kind_of(c)]
        seen = collections.Counter()
        for c in mine:
            seen[type(c).__name__] += 1
            if seen[type(c).__name__] <= 2:
                out.append((c, astat, comps))
    return out


def make_ready(rng, ents):
    """Push the entities towards a state in which `use` is accepted (so that accepted and rejected uses are both frequent)."""
    from simaple.simulate.component import entity as E
    from simaple.simulate.component.specific import adele as A
    for e in ents.values():
        if isinstance(e, E.Cooldown):
            e.time_left = rng.choice([0.0, 0.0, -250.0])
        elif isinstance(e, A.EtherGauge):
            e.stack = rng.choice([e.maximum_stack, max(e.order_consume, 0), e.creation_step * rng.randint(1, 4)])
        elif isinstance(e, A.OrderSword) and not e.running_swords:
            e.running_swords = [(rng.choice([0.0, e.interval]), H.rtime(rng, False, 40000))]
        elif isinstance(e, E.Consumable) and e.stack <= 0:
            e.stack = 1


# ------------------------------------------------------------------ the recorded finding of this extension
FINDING_ID = "C09-adele-order-tick-cap"      # fixed by 4d5f5f0; its witness is replayed on every run as a regression
NAME = "adele"


def order_witness():
    """The two witnesses of C09-adele-order-tick-cap on the real AdeleOrderComponent.
    (1) right after an accepted use (shipped parameters of 오더 VI: interval 1020, lasting 45000): elapse(100); elapse(44800)
    vs elapse(44900) -- the old code dealt 45 vs 44 ticks and left the counter at 1000 vs -20;
    (2) four swords over a capacity of 6: elapse(100); elapse(9900) vs elapse(10000) -- the old code dealt 31 vs 40 ticks.
    -> (still failing, detail): failing = ticks or the remaining swords depend on the chunking."""
    from simaple.core.base import ActionStat
    from simaple.simulate.component.entity import Cooldown
    from simaple.simulate.component.specific import adele as A
    from simaple.simulate.global_property import Dynamics
    c = A.AdeleOrderComponent(id="x", name="order", periodic_interval=1020.0, periodic_damage=360.0, periodic_hit=2.0, lasting_duration=45000.0,
                              maximum_stack=6, restore_maximum_stack=8, cooldown_duration=500.0, delay=0.0)
    s = A.AdeleOrderState(ether_gauge=A.EtherGauge(stack=400, maximum_stack=400, creation_step=100, order_consume=100),
                          restore_lasting=A.RestoreLasting(time_left=0, ether_multiplier=80.0), cooldown=Cooldown(time_left=0),
                          order_sword=A.OrderSword(interval=1020.0), dynamics=Dynamics(stat=ActionStat()))
    s0, ev = c.use(None, s)
    if any(e["tag"] == "global.reject" for e in ev):
        return False, "the use of the witness is rejected"
    n = lambda evs: sum(1 for e in evs if e["tag"] == "global.damage")
    sw = lambda st: [tuple(x) for x in st.order_sword.running_swords]
    s1, e1 = c.elapse(100.0, s0)
    s2, e2 = c.elapse(44800.0, s1)
    s3, e3 = c.elapse(44900.0, s0)
    detail = "after use: elapse(100)+elapse(44800) deals %d ticks, swords %s; elapse(44900) deals %d ticks, swords %s" % (
        n(e1) + n(e2), sw(s2), n(e3), sw(s3))
    # second facet: four swords while the restore buff (another component's entity) has run out
    s.order_sword.running_swords = [(40.0, 43000.0), (540.0, 43500.0), (20.0, 44000.0), (520.0, 44500.0)]
    t1, f1 = c.elapse(100.0, s)
    t2, f2 = c.elapse(9900.0, t1)
    t3, f3 = c.elapse(10000.0, s)
    detail += "; 4 swords over a capacity of 6: elapse(100)+elapse(9900) deals %d ticks, elapse(10000) deals %d" % (n(f1) + n(f2), n(f3))
    failing = (n(e1) + n(e2) != n(e3) or sw(s2) != sw(s3) or n(f1) + n(f2) != n(f3) or sw(t2) != sw(t3))
    return failing, detail


def witness_replay(entry):
    """(still_failing, detail) for an entry of KNOWN_FINDINGS.json that belongs to this extension.  entitycheck.run_prop calls
    it for `open` entries (KNOWN-FINDING line) and for `fixed` ones (regression: still failing = the defect has returned)."""
    m = entry.get("match", {})
    try:
        if m.get("component") == "AdeleOrderComponent" and m.get("reducer") == "elapse":
            return order_witness()
        return False, "no replay known for %r" % (m,)
    except Exception as ex:
        return False, "witness replay raised %r" % (ex,)


def known_match(entry, f):
    m = entry.get("match", {})
    return f.get("component") == m.get("component") and f.get("reducer") == m.get("reducer")


def known_replay(ctx):
    """Entries of KNOWN_FINDINGS.json with "extension": "adele".  `open` and `fixed` entries are replayed by the property's
    driver (entitycheck.run_prop: KNOWN-FINDING line / regression), so nothing is done for them here; an entry still recorded
    as `open-extension` (not consumed by the driver) is replayed and printed by this module."""
    from lib.vf import load_known
    out = []
    for e in load_known(ctx.prop):
        if e.get("extension") != NAME or e.get("status") != "open-extension":
            continue
        still, detail = witness_replay(e)
        out.append({"id": e["id"], "still_failing": still, "detail": detail})
        if still:
            ctx.known(e, detail)
        else:
            ctx.broken.append("known finding %s (extension adele) no longer reproduces on the implementation while the faithful "
                              "model still has it: %s" % (e["id"], detail))
    return out


def cases(ctx, rng, quick):
    known_replay(ctx)
    enc = Enc()
    ctx_, vtx_, info = [], [], []
    hist = collections.Counter()
    offgrid = raised = purity = 0
    distinct = set()
    extra = []
    walk_len = 8 if quick else 12
    for comp, astat, sib in pool(rng, quick):
        kind = kind_of(comp)
        reds = KINDS[kind][2]
        lasting_hint = float(getattr(comp, "lasting_duration", 60000.0))
        try:
            ents = default_entities(rng, comp, astat, sib)
        except Exception:
            raised += 1
            continue
        if rng.random() < 0.5:
            randomize(rng, ents, lasting_hint=lasting_hint)
        if not reds:        # view-only class
            for _ in range(1):
                try:
                    _c, v, pr = enc_case(enc, kind, comp, "use", NoStateProxy(), None, None, None)
                except H.OffGrid:
                    offgrid += 1
                    continue
                vtx_.append(v)
                ctx_.append("true")
                info.append({"class": type(comp).__name__, "reducer": "(views only)", "payload": None,
                             "component": json.loads(comp.model_dump_json()), "state": {}})
                hist["%s.views" % kind] += 1
                distinct.add(v)
            continue
        for _ in range(walk_len):
            meth = rng.choice(reds + ["elapse"] + (["use"] if "use" in reds else []))
            payload = H.payload_for(rng, meth)
            if meth in ("use", "trigger") and rng.random() < 0.35:
                make_ready(rng, ents)
            state = as_type(state_type(comp, meth), ents)
            try:
                out, events, pp = H.run_case(comp, meth, state, payload)
            except Exception:
                raised += 1
                randomize(rng, ents, lasting_hint=lasting_hint)
                continue
            purity += len(pp)
            events = [] if events is None else (events if isinstance(events, list) else [events])
            try:
                c, v, problems = enc_case(enc, kind, comp, meth, state, payload, out, events)
            except H.OffGrid:
                offgrid += 1
                ents.update({n: getattr(out, n) for n in type(out).model_fields})
                continue
            desc = {"class": type(comp).__name__, "reducer": meth, "payload": payload,
                    "component": json.loads(comp.model_dump_json()), "state": H.dump_state(state)}
            ctx_.append(c if not problems else "false")
            vtx_.append(v)
            info.append(dict(desc, problems=problems) if problems else desc)
            rej = any(e["tag"] == "global.reject" for e in events)
            hist["%s.%s%s" % (kind, meth, "(rejected)" if rej else "")] += 1
            distinct.add(c)
            # continue the walk from the real output; the entities other components own keep moving
            ents.update({n: getattr(out, n).model_copy(deep=True) for n in type(out).model_fields})
            r = rng.random()
            if r < 0.12:
                randomize(rng, ents, lasting_hint=lasting_hint)
            elif r < 0.45 and comp.binds:
                randomize(rng, ents, names=list(comp.binds), lasting_hint=lasting_hint)
    shards, infos = {}, {}
    size = 400
    for k in range(0, len(ctx_), size):
        name = "xadele_%s_%03d" % (ctx.prop.lower(), k // size)
        shards[name] = shard_text(ctx_[k:k + size], vtx_[k:k + size])
        infos[name] = info[k:k + size]
    stats = {"cases": len(ctx_), "distinct": len(distinct), "offgrid_skipped": offgrid, "raised_skipped": raised,
             "purity_problems": purity, "histogram": dict(sorted(hist.items()))}
    return shards, infos, stats


class NoStateProxy:
    """State of a view-only component (no entities)."""
    model_fields = {}
