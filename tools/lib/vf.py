"""Shared plumbing of the checks: work directories, Coq builds, evidence, verdicts.

Everything a check does goes through a `Ctx`:
  * a private work directory /verif/work/<prop>.<pid> (removed at exit) holding a copy
    of /verif/coq (with whatever .vo files setup built, so unchanged files are reused)
    into which the translators write `gen/*.v` from /repo's *current* working tree;
  * `build()` = coq_makefile + make of the requested .vo targets, full .vo, under timeout;
  * `coqc_capture()` to run the Props file and read the `Print Assumptions` blocks;
  * `coq_eval()` to run generated `cases_*.v` shards in parallel for correspondence;
  * `violation()/known()` verdict helpers and `write_evidence()`.
"""
from __future__ import annotations

import atexit
import hashlib
import json
import os
import random
import re
import shutil
import subprocess
import sys
import time
from pathlib import Path

VERIF = Path("/verif")
REPO = Path(os.environ.get("VERIF_REPO", "/repo"))
PY = "/venv/bin/python"
NPROC = 16


def repo_env() -> dict:
    env = dict(os.environ)
    env["PYTHONPATH"] = str(REPO)
    env["PYTHONDONTWRITEBYTECODE"] = "1"
    env["PYTHONHASHSEED"] = "0"
    env["SIMAPLE_VERIF"] = "1"
    return env


def sh(cmd, timeout=600, cwd=None, env=None, input=None):
    """Run a command, return (rc, stdout+stderr). rc=124 on timeout."""
    try:
        p = subprocess.run(
            cmd, shell=isinstance(cmd, str), cwd=cwd, env=env, input=input,
            stdout=subprocess.PIPE, stderr=subprocess.STDOUT, timeout=timeout, text=True,
        )
        return p.returncode, p.stdout
    except subprocess.TimeoutExpired as e:
        out = e.stdout or ""
        if isinstance(out, bytes):
            out = out.decode("utf8", "replace")
        return 124, out + "\n[timeout after %ss]" % timeout


def repo_head() -> str:
    rc, out = sh(["git", "-C", str(REPO), "rev-parse", "HEAD"])
    return out.strip() if rc == 0 else "unknown"


def repo_dirty() -> list:
    rc, out = sh(["git", "-C", str(REPO), "status", "--porcelain"])
    return [l[3:] for l in out.splitlines() if l.strip()] if rc == 0 else []


class Ctx:
    def __init__(self, prop: str, tier: str, seed: int):
        self.prop = prop
        self.tier = tier
        self.seed = seed
        self.rng = random.Random(seed)
        self.t0 = time.time()
        self.work = VERIF / "work" / f"{prop}.{os.getpid()}"
        if self.work.exists():
            shutil.rmtree(self.work)
        self.work.mkdir(parents=True)
        atexit.register(self._cleanup)
        self.coq = self.work / "coq"
        self.violations: list = []     # (replay_path, no_input)
        self.known_printed: list = []
        self.cov: dict = {}
        self.assumptions: list = []
        self.theorems: dict = {}
        self.obligations = 0
        self.discharged = 0
        self.checker_cmds: list = []
        self.broken: list = []         # names of proof obligations / correspondences that broke
        self._coq_ready = False

    thorough = property(lambda self: self.tier == "thorough")

    def _cleanup(self):
        if os.environ.get("VERIF_KEEP_WORK"):
            return
        shutil.rmtree(self.work, ignore_errors=True)

    def log(self, *a):
        print("[%s %6.1fs]" % (self.prop, time.time() - self.t0), *a, flush=True)

    # ---------------------------------------------------------------- Coq project
    def prepare_coq(self):
        if self._coq_ready:
            return
        src = VERIF / "coq"
        # cp -a keeps mtimes, so .vo files built by setup stay "up to date" for make
        sh(["cp", "-a", str(src), str(self.coq)])
        gen = self.coq / "gen"
        gen.mkdir(exist_ok=True)
        # The generated files that setup left describe the tree AS IT WAS THEN.  They are set aside (with their compiled files): a
        # theory can only import a generated file that THIS run regenerated from the tree under test (write_gen); a check that forgets
        # to regenerate one it depends on fails to build instead of silently proving things about an old tree.
        aside = self.coq / "gen_setup"
        aside.mkdir(exist_ok=True)
        for f in list(gen.iterdir()):
            if f.is_file():
                f.rename(aside / f.name)
        self._coq_ready = True

    def write_gen(self, name: str, text: str):
        """Write a translator output.  If setup generated the identical text, its file comes back with its mtime and its compiled
        files (same text, same .vo: nothing to rebuild); anything else is written anew and therefore rebuilt."""
        self.prepare_coq()
        gen = self.coq / "gen"
        p = gen / name
        if p.exists():
            if p.read_text() == text:
                return p
            p.write_text(text)
            return p
        aside = self.coq / "gen_setup"
        old = aside / name
        stem = name[:-2] if name.endswith(".v") else name
        if old.exists() and old.read_text() == text:
            for f in list(aside.iterdir()):
                if f.name == name or f.name.startswith(stem + ".") or f.name == "." + stem + ".aux":
                    f.rename(gen / f.name)
            return p
        p.write_text(text)
        return p

    def coq_files(self):
        fs = []
        for d in ("theories", "gen"):
            for p in sorted((self.coq / d).rglob("*.v")):
                fs.append(str(p.relative_to(self.coq)))
        return fs

    def build(self, targets: list, timeout=1500):
        """make the given .vo targets (paths relative to coq/). Returns (ok, log, failed_file)."""
        self.prepare_coq()
        proj = "-Q theories V\n-Q gen G\n-arg -w -arg -all\n" + "\n".join(self.coq_files()) + "\n"
        (self.coq / "_CoqProject").write_text(proj)
        rc, out = sh("coq_makefile -f _CoqProject -o Makefile", cwd=self.coq, timeout=120)
        if rc != 0:
            return False, out, None
        cmd = "make -j%d -k %s" % (NPROC, " ".join(targets))
        self.checker_cmds.append("cd coq && coq_makefile -f _CoqProject -o Makefile && " + cmd)
        rc, out = sh("timeout %d %s" % (timeout, cmd), cwd=self.coq, timeout=timeout + 30)
        failed = None
        if rc != 0:
            m = re.search(r'File "\./([^"]+)", line (\d+)', out)
            if m:
                failed = m.group(1)
        return rc == 0, out, failed

    def coqc_capture(self, relpath: str, timeout=600):
        """Re-run coqc on one file (its dependencies are built) and return (rc, output)."""
        cmd = ["timeout", str(timeout), "coqc", "-w", "-all", "-Q", "theories", "V", "-Q", "gen", "G", relpath]
        return sh(cmd, cwd=self.coq, timeout=timeout + 30)

    def check_props(self, relpath: str):
        """Compile Props/<file>, count theorems, read every Print Assumptions block.
        Returns True when the file compiles and nothing but allowed assumptions appear."""
        src = (self.coq / relpath).read_text()
        names = re.findall(r"^\s*(?:Theorem|Corollary)\s+([A-Za-z0-9_']+)", src, re.M)
        pa = re.findall(r"^\s*Print Assumptions\s+([A-Za-z0-9_'.]+)\s*\.", src, re.M)
        self.obligations += len(names)
        rc, out = self.coqc_capture(relpath)
        self.checker_cmds.append("coqc -Q theories V -Q gen G " + relpath)
        if rc != 0:
            self.broken.append("%s does not compile: %s" % (relpath, out.strip().splitlines()[-1] if out.strip() else rc))
            self.cov.setdefault("coq_errors", []).append(out[-2000:])
            return False
        blocks = re.split(r"(?m)^(?=Closed under the global context|Axioms:)", out)
        blocks = [b.strip() for b in blocks if b.startswith(("Closed under", "Axioms:"))]
        ok = True
        if len(blocks) != len(pa):
            self.broken.append("%s: %d Print Assumptions blocks for %d commands" % (relpath, len(blocks), len(pa)))
            ok = False
        for n, b in zip(pa, blocks):
            self.theorems[n] = " ".join(b.split())
            if not b.startswith("Closed under"):
                for l in b.splitlines()[1:]:
                    if l and not l.startswith(" "):
                        ax = l.split(":")[0].strip()
                        if ax not in self.assumptions:
                            self.assumptions.append(ax)
        missing = [n for n in names if n not in pa]
        if missing:
            self.broken.append("%s: theorems without Print Assumptions: %s" % (relpath, missing))
            ok = False
        if ok:
            self.discharged += len(names)
        if ok and self.thorough and self.prop not in ("C13", "C14", "C15", "C19"):   # those four run it themselves
            ok = self.coqchk(relpath) and ok
        return ok

    def coqchk(self, relpath: str, timeout=900) -> bool:
        """Thorough tier: re-check the compiled closure of a Props file with the independent checker and
        record the axioms it reports (`-o`)."""
        mod = "V." + relpath.replace("theories/", "").replace(".v", "").replace("/", ".")
        cmd = "coqchk -silent -o -Q theories V -Q gen G " + mod
        rc, out = sh("timeout %d %s" % (timeout, cmd), cwd=self.coq, timeout=timeout + 30)
        self.checker_cmds.append(cmd)
        m = re.search(r"\* Axioms:\s*(.*?)(?:\n\s*\n|\n\* |\Z)", out, re.S)
        axioms = " ".join(m.group(1).split()) if m else "?"
        self.cov.setdefault("coqchk", {})[mod] = {"rc": rc, "axioms": axioms}
        if rc != 0:
            self.broken.append("coqchk does not re-check %s: %s" % (mod, out[-300:]))
            return False
        if axioms not in ("<none>", "?") and axioms:
            self.cov["trusted_extra"] = self.cov.get("trusted_extra", []) + ["coqchk -o axioms for %s: %s" % (mod, axioms)]
        return True

    def coq_eval(self, shards: dict, timeout=900, requires=""):
        """shards: name -> Coq source that ends with Eval/Print commands.
        Runs them in parallel; returns name -> (rc, output)."""
        self.prepare_coq()
        d = self.coq / "cases"
        d.mkdir(exist_ok=True)
        for n, t in shards.items():
            (d / (n + ".v")).write_text(t)
        names = list(shards)
        from concurrent.futures import ThreadPoolExecutor

        def one(n):
            cmd = ["timeout", str(timeout), "coqc", "-w", "-all", "-Q", "theories", "V", "-Q", "gen", "G",
                   "-Q", "cases", "C", "cases/%s.v" % n]
            return n, sh(cmd, cwd=self.coq, timeout=timeout + 30)

        with ThreadPoolExecutor(NPROC) as ex:
            res = dict(ex.map(one, names))
        return res

    # ---------------------------------------------------------------- verdicts
    def replay_path(self, payload: dict) -> Path:
        d = VERIF / "work" / "replays"
        d.mkdir(parents=True, exist_ok=True)
        h = hashlib.sha1(json.dumps(payload, sort_keys=True, default=str).encode()).hexdigest()[:8]
        return d / f"{self.prop}-{h}.json"

    def violation(self, kind: str, what: str, input=None, expected=None, observed=None, no_input=False):
        payload = {
            "property": self.prop, "kind": kind, "what": what, "input": input,
            "expected": expected, "observed": observed, "seed": self.seed,
            "repo_head": repo_head(), "dirty_files": repo_dirty(),
        }
        p = self.replay_path(payload)
        p.write_text(json.dumps(payload, indent=1, default=str, ensure_ascii=False))
        line = "VIOLATION property=%s replay=%s" % (self.prop, p)
        if no_input:
            line += " no-failing-input-found"
        print(line, flush=True)
        self.violations.append((str(p), no_input, what))

    def known(self, entry: dict, detail: str = ""):
        line = "KNOWN-FINDING: property=%s %s" % (self.prop, entry["what"])
        if detail:
            line += " [" + detail + "]"
        print(line, flush=True)
        self.known_printed.append(entry["id"])

    # ---------------------------------------------------------------- evidence
    def write_evidence(self, level="proof", extra_assumptions=None):
        cov = dict(self.cov)
        if self.discharged >= 1:
            cov.setdefault("obligations", self.obligations)
            cov.setdefault("discharged", self.discharged)
        else:   # nothing proved on this run (build broken): fall back to the exploration keys
            cov["obligations_attempted"] = self.obligations
        cov.setdefault("checker_cmd", " ; ".join(dict.fromkeys(self.checker_cmds)) or "n/a")
        tb = ["Coq 8.16.1 kernel + vm_compute (no native_compute)"]
        if self.assumptions:
            tb += ["axiom (Print Assumptions): " + a for a in self.assumptions]
        else:
            tb += ["Print Assumptions: every property theorem 'Closed under the global context'"]
        tb += cov.pop("trusted_extra", [])
        cov.setdefault("trusted_base", tb)
        cov.setdefault("theorems", self.theorems)
        cov.setdefault("broken", self.broken)
        cov.setdefault("known_findings_printed", self.known_printed)
        cov.setdefault("evaluations", 0)
        cov.setdefault("distinct_nontrivial", 0)
        cov.setdefault("rule", "")
        cov.setdefault("samples", [])
        ev = {
            "property_id": self.prop, "tier": self.tier, "seed": self.seed, "level": level,
            "coverage": cov, "assumptions": extra_assumptions or [],
            "wall_s": round(time.time() - self.t0, 2), "violations": len(self.violations),
        }
        # /verif/evidence describes runs against /repo itself; a run against another tree (VERIF_REPO: a seeded worktree during development)
        # writes its record next to the other scratch output
        d = VERIF / "evidence" if REPO.resolve() == Path("/repo") else VERIF / "work" / ("evidence." + REPO.resolve().name)
        d.mkdir(parents=True, exist_ok=True)
        (d / f"{self.prop}.json").write_text(json.dumps(ev, indent=1, default=str, ensure_ascii=False))

    def finish(self, level="proof", extra_assumptions=None) -> int:
        self.write_evidence(level, extra_assumptions)
        if self.violations:
            self.log("FAIL: %d violation(s)" % len(self.violations))
            return 1
        self.log("OK (obligations %d/%d, evaluations %s, known findings %d)" % (
            self.discharged, self.obligations, self.cov.get("evaluations"), len(self.known_printed)))
        return 0


# -------------------------------------------------------------------- known findings
def load_known(prop: str) -> list:
    p = VERIF / "KNOWN_FINDINGS.json"
    if not p.exists():
        return []
    return [e for e in json.loads(p.read_text()) if e["property"] == prop]


def open_known(prop: str) -> list:
    return [e for e in load_known(prop) if e.get("status") == "open"]


# -------------------------------------------------------------------- helpers for Coq text
def qlit(x) -> str:
    """Exact rational literal for a Python int/float/Fraction."""
    from fractions import Fraction
    f = Fraction(x)
    n, d = f.numerator, f.denominator
    if n < 0:
        return "((-%d)#%d)" % (-n, d)
    return "(%d#%d)" % (n, d)


def zlit(n: int) -> str:
    return "(%d)%%Z" % n if n >= 0 else "(-%d)%%Z" % (-n)


def coq_list(items) -> str:
    return "[" + "; ".join(items) + "]"


def run_py(script: str, args=(), timeout=900, input=None):
    """Run a Python helper against REPO's working tree in a fresh interpreter."""
    return sh([PY, script, *map(str, args)], timeout=timeout, env=repo_env(), cwd=str(VERIF), input=input)
