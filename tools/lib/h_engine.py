"""H-engine: drive real simaple engines through scenarios (plain runs, resume at a cut,
rollback interleavings, incremental re-runs), record every `play` the engine makes, and
emit one Coq shard per scenario in which Model/EngineInst.v re-executes the scenario with
the recorded play table as its only oracle.  The model's logs must equal the
implementation's logs (commands, clocks, actions, events, checkpoints, descriptions)."""
from __future__ import annotations

import hashlib
import json
from fractions import Fraction

from lib import simenv


def norm(x):
    """JSON value with numbers normalised by value (int 0 and float 0.0 coincide)."""
    if isinstance(x, bool) or x is None or isinstance(x, str):
        return x
    if isinstance(x, (int, float)):
        return float(x)
    if isinstance(x, dict):
        return {k: norm(v) for k, v in x.items()}
    if isinstance(x, (list, tuple)):
        return [norm(v) for v in x]
    if hasattr(x, "model_dump"):
        return norm(x.model_dump())
    return repr(x)


def digest(x) -> str:
    return hashlib.sha1(json.dumps(norm(x), sort_keys=True, ensure_ascii=False).encode()).hexdigest()


class Interner:
    def __init__(self, start=1):
        self.ids = {}
        self.start = start

    def __call__(self, key: str) -> int:
        if key not in self.ids:
            self.ids[key] = len(self.ids) + self.start
        return self.ids[key]


def qlit(x) -> str:
    f = Fraction(x)
    if f < 0:
        return "((-%d)#%d)" % (-f.numerator, f.denominator)
    return "(%d#%d)" % (f.numerator, f.denominator)


def nlit(n: int) -> str:
    return "%d%%N" % n


class Recorder:
    """Interning + the recorded oracle tables of one scenario."""

    def __init__(self):
        self.names = Interner(1)     # 0 is "*"
        self.evs = Interner(1)
        self.stores = Interner(1)    # 0 is the model's error store
        self.texts = Interner(1)
        self.descs = Interner(1)
        self.exprs = Interner(1)
        self.methods = {"use": 1, "elapse": 2, "stop": 3}
        self.table = {}              # (store, action) -> (store', [events])
        self.clock = {}              # store -> clock
        self.insp = {}               # (text, store) -> desc
        self.conflicts = []
        self.plays = 0
        self.views = Interner(1)
        self.vw = {}                 # store -> view digest id
        self.viewer_calls = []       # checkpoint ids in the order the extraction asked for viewers

    # ---- encoders (Python value -> Coq term text, with interning)
    def name(self, s):
        return 0 if s == "*" else self.names(s)

    def store_id(self, saved: dict) -> int:
        return self.stores(digest(saved))

    def event(self, ev) -> str:
        from simaple.simulate.reserved_names import Tag
        eid = self.evs(digest(ev))
        delay = "None"
        if ev.get("tag") == Tag.DELAY:
            delay = "(Some %s)" % qlit(ev["payload"]["time"])
        return "(%s, %s, %s)" % (nlit(eid), nlit(self.name(ev["name"])), delay)

    def event_id(self, ev) -> int:
        return self.evs(digest(ev))

    def action(self, a) -> str:
        m = a["method"]
        if m not in self.methods:
            self.methods[m] = 10 + len(self.methods)
        p = a.get("payload")
        if p is None:
            ps = "None"
        elif isinstance(p, (int, float)) and not isinstance(p, bool):
            ps = "(Some %s)" % qlit(p)
        else:
            ps = "(Some %s)" % qlit(-self.evs("payload:" + digest(p)))
        return "(%s, %s, %s)" % (nlit(self.name(a["name"])), nlit(self.methods[m]), ps)

    def cmd(self, c) -> str:
        if getattr(c, "command_type", None) == "console":
            return "(Console Q N %s)" % nlit(self.texts(c.text))
        x = nlit(self.exprs(c.expr))
        n = nlit(self.name(c.name))
        w = c.command
        if w == "CAST":
            return "(Op Q N (CAST Q N %s) %s)" % (n, x)
        if w == "USE":
            return "(Op Q N (USE Q N %s) %s)" % (n, x)
        if w == "ELAPSE":
            return "(Op Q N (ELAPSE Q N %s) %s)" % (qlit(c.time), x)
        if w == "KEYDOWNSTOP":
            return "(Op Q N (KEYDOWNSTOP Q N %s) %s)" % (n, x)
        if w == "RESOLVE":
            return "(Op Q N (RESOLVE Q N %s) %s)" % (n, x)
        # the history's own "init" entry (never executed, only compared)
        return "(Op Q N (USE Q N %s) %s)" % (nlit(self.name("<%s>" % w)), nlit(self.exprs("<%s:%s>" % (w, c.name))))

    # ---- recording
    def record_play(self, before_saved, action, after_saved, events, clock_before, clock_after):
        sb, sa = self.store_id(before_saved), self.store_id(after_saved)
        key = (sb, self.action(action))
        val = (sa, [self.event(e) for e in events])
        if key in self.table and self.table[key] != val:
            self.conflicts.append({"store": sb, "action": action})
        self.table[key] = val
        self.clock[sb] = clock_before
        self.clock[sa] = clock_after
        self.plays += 1

    # ---- observable summaries of implementation logs
    def obs_log(self, log) -> str:
        pls = []
        for p in log.playlogs:
            pls.append("(%s, %s, [%s], %s)" % (
                qlit(p.clock), self.action(p.action), "; ".join(nlit(self.event_id(e)) for e in p.events),
                nlit(self.store_id(p.checkpoint.store_ckpt))))
        d = "None" if log.description is None else "(Some %s)" % nlit(self.descs(log.description))
        return "(%s, [%s], %s)" % (self.cmd(log.command), "; ".join(pls), d)

    def model_log(self, log) -> str:
        """An implementation log as a model oplog (used for the initial history)."""
        pls = []
        for p in log.playlogs:
            pls.append("(mk_pl %s %s [%s] %s)" % (
                qlit(p.clock), self.action(p.action), "; ".join(self.event(e) for e in p.events),
                nlit(self.store_id(p.checkpoint.store_ckpt))))
            self.clock[self.store_id(p.checkpoint.store_ckpt)] = p.clock
        d = "None" if log.description is None else "(Some %s)" % nlit(self.descs(log.description))
        return "(mk_log %s [%s] %s)" % (self.cmd(log.command), "; ".join(pls), d)

    def tables(self) -> str:
        t = "; ".join("(%s, %s, (%s, [%s]))" % (nlit(s), a, nlit(v[0]), "; ".join(v[1])) for (s, a), v in self.table.items())
        c = "; ".join("(%s, %s)" % (nlit(s), qlit(q)) for s, q in self.clock.items())
        i = "; ".join("(%s, %s, %s)" % (nlit(t_), nlit(s), nlit(d)) for (t_, s), d in self.insp.items())
        v = "; ".join("(%s, %s)" % (nlit(s_), nlit(d)) for s_, d in self.vw.items())
        return ("Definition vw : list (N * N) := [%s].\n" % v) + ("Definition tbl : list (N * IAct * (N * list IEv)) := [%s].\n"
                "Definition clk : list (N * Q) := [%s].\n"
                "Definition insp : list (N * N * N) := [%s].\n" % (t, c, i))


HEADER = """From Coq Require Import List NArith QArith Bool.
From V.Model Require Import Engine EngineInst.
Import ListNotations.
"""


class Driver:
    """Runs engines with `play` instrumented so that every play lands in the recorder."""

    def __init__(self, job, variant, rec: Recorder):
        import simaple.simulate.engine as eng_mod
        from simaple.simulate.timer import clock_view
        self.job, self.variant, self.rec = job, variant, rec
        self.eng_mod = eng_mod
        self.orig_play = eng_mod.play
        rec_ = rec

        def recording_play(store, action, router):
            before = store.save()
            cb = clock_view(store)
            out = self.orig_play(store, action, router)
            st2, events = out
            rec_.record_play(before, action, st2.save(), events, cb, clock_view(st2))
            return out
        self.recording_play = recording_play

        cls = eng_mod.BasicOperationEngine
        self.cls = cls
        self.orig_console = cls._console
        self.orig_get_viewer = cls.get_viewer

        def console(engine_self, console_text):
            sid = rec_.store_id(engine_self._history.current_store().save())
            log = self.orig_console(engine_self, console_text)
            rec_.insp[(rec_.texts(console_text.text), sid)] = rec_.descs(log.description)
            return log

        def get_viewer(engine_self, playlog):
            rec_.viewer_calls.append(rec_.store_id(playlog.checkpoint.store_ckpt))
            return self.orig_get_viewer(engine_self, playlog)
        self.console, self.get_viewer = console, get_viewer

    def __enter__(self):
        self.eng_mod.play = self.recording_play
        self.cls._console = self.console
        self.cls.get_viewer = self.get_viewer
        return self

    def __exit__(self, *a):
        self.eng_mod.play = self.orig_play
        self.cls._console = self.orig_console
        self.cls.get_viewer = self.orig_get_viewer

    def engine(self):
        return simenv.make_engine(self.job, self.variant)

    def exec(self, engine, command):
        return engine.exec(command)


def simenv_repo():
    """root of the tree under test (the directory that holds the imported `simaple` package)"""
    import os
    import simaple
    return os.path.dirname(os.path.dirname(os.path.abspath(simaple.__file__)))


def json_roundtrip_logs(logs):
    from simaple.simulate.policy.base import OperationLog
    return [OperationLog.model_validate(json.loads(l.model_dump_json())) for l in logs]


def scenario_steps(job, variant, steps, via_json=False):
    """steps: list of ("exec", Command) | ("rollback", i) | ("reload",).
    Returns (coq shard text, python logs, recorder)."""
    rec = Recorder()
    with Driver(job, variant, rec) as d:
        e = d.engine()
        init_logs = list(e.operation_logs())
        init_txt = "[" + "; ".join(rec.model_log(l) for l in init_logs) + "]"
        coq_steps = []
        for st in steps:
            if st[0] == "exec":
                d.exec(e, st[1])
                coq_steps.append("SExec (%s)" % rec.cmd(st[1]))
            elif st[0] == "rollback":
                e.rollback(st[1])
                coq_steps.append("SRollback %d" % st[1])
            elif st[0] == "reload":
                logs = list(e.operation_logs())
                if via_json:
                    logs = json_roundtrip_logs(logs)
                e = d.engine()
                e.reload(logs)
                coq_steps.append("SReload")
            elif st[0] == "reload_same":
                # a prefix of its own logs reloaded into the SAME, already used engine: for the model this is rollback(k)
                logs = list(e.operation_logs())[:st[1] + 1]
                if via_json:
                    logs = json_roundtrip_logs(logs)
                e.reload(logs)
                coq_steps.append("SRollback %d" % st[1])
        final = list(e.operation_logs())
    expected = "[" + ";\n ".join(rec.obs_log(l) for l in final) + "]"
    txt = (HEADER + rec.tables() +
           "Definition init : list Ilog := %s.\nDefinition script : list step := [%s].\n"
           "Definition expected : list (Icmd * list (Q * IAct * list N * N) * option N) := %s.\n"
           "Eval vm_compute in (run_scenario tbl clk insp init script expected).\n"
           % (init_txt, "; ".join(coq_steps), expected))
    return txt, final, rec


def parse_scenario_result(out: str):
    """-> ("ok",) | ("diff", i) | ("chain",) | ("stuck",) | ("unparsed", text)"""
    import re
    m = re.search(r"=\s*(.*?)\s*:\s*option \(option N \* bool\)", out, re.S)
    if not m:
        return ("unparsed", out[-400:])
    v = " ".join(m.group(1).split())
    if v == "None":
        return ("stuck",)
    if v == "Some (None, true)":
        return ("ok",)
    m2 = re.match(r"Some \(Some (\d+)%N, (true|false)\)", v)
    if m2:
        return ("diff", int(m2.group(1)))
    if v == "Some (None, false)":
        return ("chain",)
    return ("unparsed", v)


# ------------------------------------------------------------------ implementation-side hash chain checks
def hash_chain_problems(logs, live=None):
    """prev-hash links, hash = function of (prev, command, stripped playlogs), hash locates its log - in a history built from
    the logs and, when `live` (the engine's own SimulationHistory, whatever bookkeeping it accumulated over the executions and
    rollbacks that produced it) is given, in that one too."""
    from simaple.simulate.policy.base import OperationLog, SimulationHistory
    probs = []
    for i in range(1, len(logs)):
        if logs[i].previous_hash != logs[i - 1].hash:
            probs.append("log %d: previous_hash is not the hash of log %d" % (i, i - 1))
    for i, l in enumerate(logs):
        twin = OperationLog(command=l.command, playlogs=[p.model_copy(update={}) for p in l.playlogs],
                            previous_hash=l.previous_hash, description=l.description)
        if twin.hash != l.hash:
            probs.append("log %d: an equal log has a different hash" % i)
    h = SimulationHistory(logs=list(logs))
    hashes = [l.hash for l in logs]
    if len(set(hashes)) == len(hashes):
        for i, l in enumerate(logs):
            try:
                j = h.get_hash_index(l.hash)
            except Exception as ex:     # noqa
                j = repr(ex)
            if j != i:
                probs.append("get_hash_index(hash of log %d) = %r" % (i, j))
        if live is not None and hasattr(live, "get_hash_index"):
            for i, l in enumerate(logs):
                try:
                    j = live.get_hash_index(l.hash)
                except Exception as ex:     # noqa
                    j = repr(ex)
                if j != i:
                    probs.append("the engine's own history: get_hash_index(hash of log %d) = %r" % (i, j))
        for unknown in ("0" * 40, hashes[-1][::-1] if hashes[-1][::-1] not in hashes else "f" * 40):
            if unknown in hashes:
                continue
            try:
                probs.append("get_hash_index(%r), not the hash of any log, = %r" % (unknown, h.get_hash_index(unknown)))
            except ValueError:
                pass
            except Exception as ex:     # noqa
                probs.append("get_hash_index(%r) raised %r, not ValueError" % (unknown, ex))
    return probs


def logs_json(logs):
    return [json.loads(l.model_dump_json()) for l in logs]


# ------------------------------------------------------------------ incremental runner (api)
def plan_text(job, variant, lines, author="verif"):
    import yaml
    env = simenv.get_env(job, variant)
    hdr = yaml.safe_dump({"author": author, "environment": json.loads(env.model_dump_json())}, allow_unicode=True)
    return "---\n" + hdr + "\n---\n" + "\n".join(lines)


def resp_json(resps):
    return [r.model_dump(mode="json") for r in resps]


def _view_digest(pl) -> str:
    d = pl.model_dump(mode="json")
    for k in ("events", "clock", "action", "checkpoint"):
        d.pop(k, None)
    for entry in d.get("report", {}).get("time_series", []):
        entry.pop("action", None)       # repeats the play log's action and clock, compared separately
        entry.pop("clock", None)
    return digest(d)


def scenario_hint(job, variant, prev_lines, hops, via_json=False):
    """hops: list of command-line lists. Returns (coq text, impl mismatches, recorder).
    impl mismatches: hop indices where run_plan_with_hint(...) != run_plan(new) as JSON."""
    from simaple.api.base import run_plan, run_plan_with_hint
    from simaple.api.models.simulation import OperationLogResponse
    rec = Recorder()
    mism = []

    def absorb_views(resps, start):
        """pair the viewer calls made by this extraction with the play logs it produced"""
        pls = [pl for r in resps if r.index >= start for pl in r.logs]
        calls = rec.viewer_calls[-len(pls):] if pls else []
        for sid, pl in zip(calls, pls):
            vd = rec.views(_view_digest(pl))
            if sid in rec.vw and rec.vw[sid] != vd:
                rec.conflicts.append({"store": sid, "what": "two different view sets for one checkpoint"})
            rec.vw[sid] = vd

    def obs(resps):
        out = []
        for r in resps:
            pls = []
            for pl in r.logs:
                ck = "None" if pl.checkpoint is None else "(Some %s)" % nlit(rec.store_id(pl.checkpoint.store_ckpt))
                pls.append("(%s, %s, [%s], %s, %s)" % (qlit(pl.clock), rec.action(pl.action),
                           "; ".join(nlit(rec.event_id(e)) for e in pl.events), nlit(rec.views(_view_digest(pl))), ck))
            d = "None" if r.description is None else "(Some %s)" % nlit(rec.descs(r.description))
            out.append("(%d%%nat, %s, [%s], %s)" % (r.index, rec.cmd(r.command), "; ".join(pls), d))
        return "[" + ";\n  ".join(out) + "]"

    with Driver(job, variant, rec) as d:
        e0 = d.engine()
        init_logs = list(e0.operation_logs())
        init_txt = "[" + "; ".join(rec.model_log(l) for l in init_logs) + "]"
        prev_plan = plan_text(job, variant, prev_lines)
        hist = run_plan(prev_plan)
        absorb_views(hist, 0)
        pcs = simenv.parse_commands(prev_lines)
        coq_hops = []
        for hi, lines in enumerate(hops):
            new_plan = plan_text(job, variant, lines)
            want = run_plan(new_plan)
            absorb_views(want, 0)
            hint = hist
            def js(v):
                if isinstance(v, float) and v.is_integer() and abs(v) < 2 ** 53:
                    return int(v)
                if isinstance(v, dict):
                    return {k: js(x) for k, x in v.items()}
                if isinstance(v, list):
                    return [js(x) for x in v]
                return v
            if via_json:
                hint = [OperationLogResponse.model_validate(json.loads(json.dumps(x))) for x in resp_json(hist)]
                # a JSON round trip keeps VALUES, not bytes: besides Python's own (order preserving) one, the hint also travels through one
                # that sorts the members of every object and one that writes whole floats as integers (what a JavaScript client does to
                # 1000.0); each result must be the full run, compared as JSON.  (Outside the recorded flow: the recorder is switched off.)
                for mode, tr in (("sorted members", lambda x: json.loads(json.dumps(x, sort_keys=True))),
                                 ("javascript numbers", lambda x: json.loads(json.dumps(js(x))))):
                    keep = (len(rec.viewer_calls), rec.plays)
                    alt = run_plan_with_hint(prev_plan, [OperationLogResponse.model_validate(tr(x)) for x in resp_json(hist)], new_plan)
                    del rec.viewer_calls[keep[0]:]
                    if resp_json(alt) != resp_json(want):
                        gj, wj = resp_json(alt), resp_json(want)
                        k = next((k for k, (a, b) in enumerate(zip(gj, wj)) if a != b), min(len(gj), len(wj)))
                        fields = [f for f in wj[k] if k < len(gj) and gj[k].get(f) != wj[k].get(f)] if k < len(wj) else []
                        mism.append({"hop": hi, "first_differing_log": k, "differing_fields": fields, "transport": "JSON round trip with " + mode,
                                     "previous_plan": prev_lines if hi == 0 else hops[hi - 1], "new_plan": lines, "via_json": True})
            n_before = len(rec.viewer_calls)
            got = run_plan_with_hint(prev_plan, hint, new_plan)
            # views of the re-extracted tail
            new_pls = len(rec.viewer_calls) - n_before
            tail = [pl for r in got for pl in r.logs][-new_pls:] if new_pls else []
            for sid, pl in zip(rec.viewer_calls[n_before:], tail):
                rec.vw.setdefault(sid, rec.views(_view_digest(pl)))
            if resp_json(got) != resp_json(want):
                gj, wj = resp_json(got), resp_json(want)
                i = next((i for i, (a, b) in enumerate(zip(gj, wj)) if a != b), min(len(gj), len(wj)))
                mism.append({"hop": hi, "first_differing_log": i, "previous_plan": prev_lines if hi == 0 else hops[hi - 1],
                             "new_plan": lines, "via_json": via_json})
            cs = simenv.parse_commands(lines)
            coq_hops.append("([%s], %s)" % ("; ".join(rec.cmd(c) for c in cs), obs(got)))
            prev_plan, hist = new_plan, got
    # a second editing session in the SAME process under a sibling environment (same job and skills, other armour / mob level / main
    # stats: the same commands mostly give the same actions and events, hence the same log hashes, but other damage figures): whatever
    # the first session left behind in the process must not reach it.  Outside the recorded flow.
    if hops:
        import yaml
        envb = json.loads(simenv.get_env(job, variant).model_dump_json())
        envb["armor"] = 120 if envb.get("armor") != 120 else 250
        envb["mob_level"] = 250 if envb.get("mob_level") != 250 else 265
        envb["character"]["stat"]["ignored_defence"] = 90.0      # a positive armour factor: damage figures that do depend on the environment
        for k in ("STR", "DEX", "INT", "LUK"):
            envb["character"]["stat"][k] = envb["character"]["stat"].get(k, 0) + 777
        def text_b(lines):
            return "---\n" + yaml.safe_dump({"author": "verif", "environment": envb}, allow_unicode=True) + "\n---\n" + "\n".join(lines)
        pb = prev_lines if len(hops) == 1 else hops[-2]
        hist_b = run_plan(text_b(pb))
        got_b, want_b = run_plan_with_hint(text_b(pb), hist_b, text_b(hops[-1])), run_plan(text_b(hops[-1]))
        if resp_json(got_b) != resp_json(want_b):
            gj, wj = resp_json(got_b), resp_json(want_b)
            k = next((k for k, (a, b) in enumerate(zip(gj, wj)) if a != b), min(len(gj), len(wj)))
            fields = [f for f in wj[k] if k < len(gj) and gj[k].get(f) != wj[k].get(f)] if k < len(wj) else []
            mism.append({"hop": len(hops) - 1, "first_differing_log": k, "differing_fields": fields, "previous_plan": pb, "new_plan": hops[-1],
                         "via_json": False, "transport": "in memory; second session of the process, sibling environment",
                         "sibling_environment": {"armor": envb["armor"], "mob_level": envb["mob_level"], "main stats": "+777"},
                         "first_session": {"previous_plan": prev_lines, "hops": hops}})
    txt = (HEADER + rec.tables() +
           "Definition init : list Ilog := %s.\nDefinition pcs : list Icmd := [%s].\n"
           "Definition hops : list (list Icmd * list (nat * Icmd * list (Q * IAct * list N * N * option N) * option N)) := [%s].\n"
           "Eval vm_compute in (hint_scenario tbl clk insp vw init pcs hops).\n"
           % (init_txt, "; ".join(rec.cmd(c) for c in pcs), ";\n ".join(coq_hops)))
    return txt, mism, rec


def parse_hint_result(out: str):
    """-> list of per-hop results: "ok" | ("diff", i) | "stuck"; or ("unparsed", text)"""
    import re
    m = re.search(r"=\s*(.*?)\s*:\s*option \(list \(option \(option N\)\)\)", out, re.S)
    if not m:
        return ("unparsed", out[-400:])
    v = " ".join(m.group(1).split())
    if v == "None":
        return ["stuck"]
    inner = re.match(r"Some \[(.*)\]$", v)
    if not inner:
        return ("unparsed", v)
    res = []
    for item in [x.strip() for x in inner.group(1).split(";") if x.strip()]:
        if item == "Some None":
            res.append("ok")
        elif item == "None":
            res.append("stuck")
        else:
            m2 = re.match(r"Some \(Some (\d+)%N\)", item)
            res.append(("diff", int(m2.group(1))) if m2 else ("unparsed", item))
    return res


# ------------------------------------------------------------------ relay (C05) and clock (C06)
class RouterProxy:
    """Stands in for engine._router: records every action handed to the real router."""

    def __init__(self, inner, sink):
        self.inner, self.sink = inner, sink

    def __call__(self, action, store):
        self.sink.append(action)
        return self.inner(action, store)

    def __getattr__(self, k):
        return getattr(self.inner, k)


class RelayEnc:
    def __init__(self):
        self.names, self.meths, self.tags, self.pays = Interner(1), Interner(1), Interner(1), Interner(1)

    def tag(self, t):
        return 0 if not t else self.tags(t)

    def am(self, method: str) -> str:
        for kind, ctor in ((".emitted.", "Emitted"), (".done.", "Done")):
            if kind in method:
                m, _, t = method.rpartition(kind)
                return "(%s N N %s %s)" % (ctor, nlit(self.meths(m)), nlit(self.tag(t)))
        return "(Direct N N %s)" % nlit(self.meths(method))

    def action(self, a) -> str:
        p = a.get("payload")
        ap = "(PNone N)" if p is None else "(PEvent N %s)" % nlit(self.pays(digest(p)))
        return "(Play.Build_action N N N N %s %s %s)" % (nlit(self.names(a["name"])), self.am(a["method"]), ap)

    def event(self, e) -> str:
        return "(Play.Build_event N N N N %s %s %s %s)" % (
            nlit(self.names(e["name"])), nlit(self.meths(e["method"])), nlit(self.tag(e.get("tag"))),
            nlit(self.pays(digest(e["payload"]))))


def scenario_relay(job, variant, steps, via_json=True):
    """Like scenario_steps, but records the router-level dispatch of every play.
    Returns (coq text, impl findings, info)."""
    import simaple.simulate.engine as eng_mod
    from simaple.simulate.timer import clock_view
    rec = Recorder()
    enc = RelayEnc()
    plays = []          # (prev_events, action, dispatched, events, clock_before, clock_after)
    findings = []
    sink = []
    orig_play = eng_mod.play
    state = {"prev": []}

    def recording_play(store, action, router):
        del sink[:]
        cb = clock_view(store)
        out = orig_play(store, action, router)
        st2, events = out
        plays.append((list(state["prev"]), dict(action), list(sink), list(events), cb, clock_view(st2)))
        state["prev"] = list(events)
        return out

    def attach(e):
        e._router = RouterProxy(e._router, sink)
        pls = [p for l in e.operation_logs() for p in l.playlogs]
        state["prev"] = list(pls[-1].events) if pls else []
        return e

    eng_mod.play = recording_play
    try:
        e = attach(simenv.make_engine(job, variant))
        init_logs = list(e.operation_logs())
        for st in steps:
            if st[0] == "exec":
                e.exec(st[1])
            elif st[0] == "rollback":
                e.rollback(st[1])
                attach_prev = [p for l in e.operation_logs() for p in l.playlogs]
                state["prev"] = list(attach_prev[-1].events) if attach_prev else []
            elif st[0] == "reload":
                logs = list(e.operation_logs())
                if via_json:
                    logs = json_roundtrip_logs(logs)
                e = simenv.make_engine(job, variant)
                e.reload(logs)
                attach(e)
            elif st[0] == "reload_same":
                logs = list(e.operation_logs())[:st[1] + 1]
                if via_json:
                    logs = json_roundtrip_logs(logs)
                e.reload(logs)
                attach_prev = [p for l in e.operation_logs() for p in l.playlogs]
                state["prev"] = list(attach_prev[-1].events) if attach_prev else []
        final = list(e.operation_logs())
    finally:
        eng_mod.play = orig_play
    # implementation-side statements of C05 / C06 on the recorded plays
    for i, (prev, action, disp, events, cb, ca) in enumerate(plays):
        want = 0.0
        if action["name"] == "*" and action["method"] == "elapse":
            want = action["payload"]
        if cb + want != ca:
            findings.append({"what": "C06: a play moved the clock by %r, its action asked for %r" % (ca - cb, want),
                             "play_index": i, "action": action})
        em = [a for a in disp if ".emitted." in a["method"]]
        dn = [a for a in disp if ".done." in a["method"]]
        if len(em) != len(prev) or len(dn) != len(prev):
            findings.append({"what": "C05: %d events of the previous action, %d offered as emitted, %d as done" % (len(prev), len(em), len(dn)),
                             "play_index": i, "action": action})
        for ev in events:
            from simaple.simulate.reserved_names import Tag
            if ev.get("tag") == Tag.ELAPSED and action["method"] == "elapse" and action["name"] == "*" and ev["payload"].get("time") != action["payload"]:
                findings.append({"what": "C06: an 'elapsed' notification carries %r for an elapse of %r" % (ev["payload"].get("time"), action["payload"]),
                                 "event": ev, "play_index": i})
    # documented advance per command, on the surviving history
    from simaple.simulate.reserved_names import Tag as _Tag

    def first_delay(evs, name=None):
        for ev in evs:
            if ev.get("tag") == _Tag.DELAY and ev["payload"]["time"] > 0 and (name is None or ev["name"] == name):
                return ev["payload"]["time"]
        return 0.0
    last_pl = final[0].playlogs[-1]
    for li, log in enumerate(final[1:], start=1):
        c = log.command
        if getattr(c, "command_type", "") == "console":
            if log.playlogs:
                findings.append({"what": "C06: a console entry played an action", "log_index": li})
            continue
        before = last_pl.clock
        after = log.playlogs[-1].clock if log.playlogs else before
        w = c.command
        exp = {"ELAPSE": lambda: c.time, "USE": lambda: 0.0, "KEYDOWNSTOP": lambda: 0.0,
               "CAST": lambda: first_delay(log.playlogs[0].events) if log.playlogs else 0.0,
               "RESOLVE": lambda: first_delay(last_pl.events, c.name)}.get(w, lambda: None)()
        if exp is not None and abs((after - before) - exp) > 1e-9 * max(1.0, abs(after)):
            findings.append({"what": "C06: %s advanced the clock by %r, documented advance %r" % (c.expr, after - before, exp),
                             "log_index": li, "command": c.expr})
        if after < before and not (w == "ELAPSE" and c.time < 0):
            findings.append({"what": "C06: the clock decreased (%r -> %r) on %s" % (before, after, c.expr), "log_index": li})
        if w == "CAST" and log.playlogs and any(ev.get("tag") == _Tag.REJECT and ev["name"] == c.name for ev in log.playlogs[0].events) \
                and after != before:
            findings.append({"what": "C06: rejected %s advanced the clock by %r" % (c.expr, after - before), "log_index": li})
        if log.playlogs:
            last_pl = log.playlogs[-1]
    cases = "; ".join("([%s], %s, [%s])" % ("; ".join(enc.event(x) for x in prev), enc.action(a),
                                             "; ".join(enc.action(x) for x in disp)) for (prev, a, disp, _e, _cb, _ca) in plays)
    logs_txt = "[" + "; ".join(rec.model_log(l) for l in final[1:]) + "]"
    init_txt = "[" + "; ".join(rec.model_log(l) for l in init_logs) + "]"
    txt = (HEADER + "From V.Model Require Import Play.\n"
           "Definition cases : list (list QEv * QAct * list QAct) := [%s].\n"
           "Eval vm_compute in (queue_bad 0 cases).\n"
           "Definition init : list Ilog := %s.\nDefinition rest : list Ilog := %s.\n"
           "Eval vm_compute in (advance_bad 1 init rest).\n" % (cases, init_txt, logs_txt))
    return txt, findings, {"plays": len(plays), "dispatched": sum(len(p[2]) for p in plays), "logs": len(final)}


def parse_two_lists(out: str):
    """the two `list N` results of a relay shard -> (queue_bad, advance_bad) or None"""
    import re
    ms = re.findall(r"=\s*\[(.*?)\]\s*:\s*list N", out, re.S)
    if len(ms) != 2:
        return None
    return tuple([int(x.strip().replace("%N", "")) for x in m.split(";") if x.strip()] for m in ms)
