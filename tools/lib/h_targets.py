"""C19 (real targets): tie between the GENERATED objectives (gen/Targets.v, tools/tr_targets.py) and the real target objects.

`run(ctx)` (called by tools/props/c19.py):
  1. regenerate gen/Targets.v from the tree (fail closed), build Proofs/Targets.vo, check Props/C19_targets.v;
  2. a worker (fresh interpreter, PYTHONPATH=<tree>) builds the REAL targets -- HyperstatTarget(get_kms_hyperstat()),
     UnionSquadTarget(create_with_some_large_blocks(jobs), preempted_jobs=jobs), UnionOccupationTarget(UnionOccupation()),
     LinkSkillTarget(get_kms_link_skill_set(), preempted_jobs=jobs) -- with random damage logic, reference stat (integer
     valued and fractional), armour, puts them into random states inside the tables (plus a few outside: a level beyond a
     table, a state of the wrong length, an unknown preset job) and records get_value(), get_cost(), the constructor's
     start state and Hyperstat.get_maximum_cost_from_level;
  3. the same calls are evaluated on the generated Coq definitions inside coqc (`*_value_fast`, proved == the generated
     get_value in Props/C19_targets.v; the generated get_cost / constructors / tables directly) and compared THERE:
     costs, start states, budgets exactly; values with the rounding-noise rule `qclose` (the Python side is binary64);
     an exception must be `None`;
  4. the worker also runs the real StepwizeOptimizer on the real targets with small budgets and evaluates the property as
     stated (h_opt.check_real: budget, bounds, presets, never worse, ...), scans the real tables for entries that dip or
     are negative and, at each such entry, runs the optimizer from the state in which that raise is the only affordable
     legal step -- which turns a non-monotone table into a concrete "result scores worse than the start" input.
"""
from __future__ import annotations

import json
import os
import subprocess
import sys
import time
from fractions import Fraction

LOGIC_CTOR = {"STRBasedDamageLogic": "LSTR (mkSTRBasedDamageLogic", "INTBasedDamageLogic": "LINT (mkINTBasedDamageLogic",
              "DEXBasedDamageLogic": "LDEX (mkDEXBasedDamageLogic", "LUKBasedDamageLogic": "LLUK (mkLUKBasedDamageLogic",
              "LUKBasedDualSubDamageLogic": "LDual (mkLUKBasedDualSubDamageLogic"}
PROPS = "theories/Props/C19_targets.v"
BUILD = ["theories/Proofs/Targets.vo", "theories/Lib/Corr.vo"]
KINDS = ["hyperstat", "union_squad", "union_occupation", "link"]


# ====================================================================================== worker (runs against the tree)
def _frac(x):
    return str(Fraction(x))


def _value(fn):
    """-> ("ok", exact value of the float) | ("raise", exception class name)"""
    try:
        v = fn()
    except Exception as e:      # the model says None for every exception; the class is kept for the report
        return ["raise", type(e).__name__]
    if isinstance(v, bool) or not isinstance(v, (int, float)) or v != v or v in (float("inf"), float("-inf")):
        return ["raise", "not-a-finite-number:%r" % (v,)]
    return ["ok", _frac(v)]


def _gen_ref(rng):
    from lib import h_opt
    stat = h_opt.gen_stat(rng)
    if rng.random() < 0.3:                      # fractional blocks: compared with the rounding-noise rule all the same
        for k in rng.sample(sorted(stat), 6):
            stat[k] = stat[k] + rng.choice([0.5, 0.37, 12.125])
    logic = {"cls": rng.choice(h_opt.LOGICS), "arc": rng.choice([1.0, 1.2, 1.34, 1.5]), "mastery": rng.choice([0.85, 0.9, 0.95])}
    armor = rng.choice([300, 300, 0, 100, 250, 380, 37.5])
    return stat, logic, armor


def _mk(kind, stat, logic, armor, jobs):
    from simaple import optimizer as O
    from simaple.core import JobType, Stat
    from lib import h_opt
    s, lg = Stat(**stat), h_opt.make_logic(logic)
    if kind == "hyperstat":
        from simaple.data.system.hyperstat import get_kms_hyperstat
        return O.HyperstatTarget(s, lg, h_opt.proto("hyperstat", get_kms_hyperstat), armor=armor)
    if kind == "union_squad":
        from simaple.data.system.union_block import create_with_some_large_blocks
        js = [JobType(j) for j in jobs]
        squad = h_opt.proto(("squad",) + tuple(jobs), lambda: create_with_some_large_blocks(large_block_jobs=js))
        return O.UnionSquadTarget(s, lg, squad, preempted_jobs=js, armor=armor)
    if kind == "union_occupation":
        from simaple.system.union import UnionOccupation
        return O.UnionOccupationTarget(s, lg, UnionOccupation(), armor=armor)
    from simaple.data.system.link import get_kms_link_skill_set
    js = [JobType(j) for j in jobs]
    return O.LinkSkillTarget(s, lg, h_opt.proto("link", get_kms_link_skill_set), preempted_jobs=js, armor=armor)


def _caps(kind, target):
    if kind == "hyperstat":
        return [len(o) - 1 for (_p, o) in target._hyperstat_prototype.options]
    if kind == "union_occupation":
        return [len(r) - 1 for r in target._union_occupation_prototype.occupation_value]
    return [1] * target.state_length


def _gen_state(rng, kind, target, i):
    caps = _caps(kind, target)
    n = len(caps)
    start = list(target.state)
    if kind in ("hyperstat", "union_occupation"):
        mode = i % 8
        if mode == 0:
            return [0] * n
        if mode == 1:
            return list(caps)
        if mode == 2:                                     # one level beyond a table: IndexError in get_stat
            st = [rng.randint(0, c) for c in caps]
            st[rng.randrange(n)] = caps[0] + 1
            return st
        if mode == 3 and i % 16 == 3:                     # wrong length: the assertion of get_*_rearranged
            return [rng.randint(0, c) for c in caps][:-1]
        return [rng.choice([0, 1, c // 2, c - 1, c, rng.randint(0, c)]) for c in caps]
    k = rng.choice([0, 1, 2, 3, 5, 8, 13, 21, n])
    st = list(start)
    for j in rng.sample(range(n), min(k, n)):
        st[j] = 1
    if i % 11 == 5 and n:
        st[rng.randrange(n)] = 2                          # any non-zero entry enables the slot (`if enabled`)
    return st


def job_cases(job):
    import random
    from simaple.core import JobType
    from simaple.system.hyperstat import Hyperstat
    from lib import h_opt
    rng = random.Random(job["seed"])
    out = {"cases": [], "init": [], "levels": [], "errors": []}
    pools = {"union_squad": h_opt.preset_job_pool("union_squad"), "link": h_opt.preset_job_pool("link")}
    all_jobs = sorted(j.value for j in JobType)
    for kind in KINDS:
        for i in range(job["n"].get(kind, 0)):
            stat, logic, armor = _gen_ref(rng)
            jobs = rng.sample(pools[kind], rng.choice([0, 1, 1, 2, 3])) if kind in pools else []
            try:
                t = _mk(kind, stat, logic, armor, jobs)
                st = _gen_state(rng, kind, t, i)
                t.set_state(list(st))
                out["cases"].append({"target": kind, "logic": logic, "stat": stat, "armor": armor, "jobs": jobs, "state": st,
                                     "value": _value(t.get_value), "cost": _value(t.get_cost),
                                     "maximum_step": int(t.maximum_step), "state_length": int(t.state_length)})
            except Exception as e:
                out["errors"].append("%s: %r" % (kind, e))
    # the constructors: start state with presets, KeyError for a job without a block / link
    for kind in ("union_squad", "link"):
        for i in range(job.get("n_init", 0)):
            jobs = rng.sample(pools[kind], rng.choice([0, 1, 2, 3]))
            if i % 4 == 3:
                outside = [j for j in all_jobs if j not in pools[kind]]
                if outside:
                    jobs = jobs + [rng.choice(outside)]
            stat, logic, armor = _gen_ref(rng)
            try:
                t = _mk(kind, stat, logic, armor, jobs)
                out["init"].append({"target": kind, "jobs": jobs, "state": ["ok", [int(x) for x in t.state]],
                                    "maximum_step": int(t.maximum_step)})
            except KeyError:
                out["init"].append({"target": kind, "jobs": jobs, "state": ["raise", "KeyError"], "maximum_step": None})
            except Exception as e:
                out["errors"].append("%s constructor: %r" % (kind, e))
    for lv in sorted(set([0, 1, 100, 139, 140, 141, 149, 150, 151, 199, 200, 209, 210, 250, 275, 299, 300, 301, 400] +
                         [rng.randint(0, 400) for _ in range(job.get("n_levels", 0))])):
        out["levels"].append([lv, int(Hyperstat.get_maximum_cost_from_level(lv))])
    return out


GOOD_STAT = {"STR": 4000.0, "DEX": 4000.0, "INT": 4000.0, "LUK": 4000.0, "attack_power": 2000.0, "magic_attack": 2000.0,
             "critical_rate": 50.0, "critical_damage": 40.0, "boss_damage_multiplier": 150.0, "damage_multiplier": 60.0,
             "ignored_defence": 85.0, "STR_multiplier": 100.0, "DEX_multiplier": 100.0, "INT_multiplier": 100.0,
             "LUK_multiplier": 100.0, "attack_power_multiplier": 30.0, "magic_attack_multiplier": 30.0}


def _tables(kind, target):
    """per slot: (the list of Stat contributions by index as the tables hold them, the index the target reads when the slot's
    state goes from 0 to 1 -- None for the two targets whose state IS the index)"""
    from simaple.core import Stat
    if kind == "hyperstat":
        return [(list(o), None) for (_p, o) in target._hyperstat_prototype.options]
    if kind == "union_occupation":
        return [([v[0] for v in row], None) for row in target._union_occupation_prototype.occupation_value]
    if kind == "union_squad":
        sq = target._union_squad
        return [([Stat()] + list(b.options), s) for b, s in zip(sq.blocks, sq.block_size)]
    ls = target._link_skillset
    return [([Stat()] + list(l.options), s) for l, s in zip(ls.links, ls.link_levels)]


def scan_tables(kind, target):
    """entries of the real tables that are negative or lower than the entry before them:
    {slot, level (the state value before the raise that reaches the entry, when a raise can), index, field, before, after}"""
    out = []
    for i, (tab, used) in enumerate(_tables(kind, target)):
        for l, s in enumerate(tab):
            d = s.model_dump()
            prev = tab[l - 1].model_dump() if l else None
            for f, v in d.items():
                if v < 0 or (prev is not None and v < prev[f]):
                    if used is None:
                        lvl = l - 1 if l else None
                    else:                       # a mask slot reads entry `used` only, coming from the empty contribution
                        lvl = 0 if (l == used and v < 0) else None
                    out.append({"slot": i, "level": lvl, "index": l, "field": f, "before": prev[f] if prev else 0.0, "after": v})
    return out


def forced_step(kind, slot, level, logic, armor=300):
    """the state in which raising `slot` from `level` is the only affordable legal step: every other slot at its last value;
    -> finding or None"""
    from simaple.optimizer.optimizer import StepwizeOptimizer
    t = _mk(kind, GOOD_STAT, logic, armor, [])
    caps = _caps(kind, t)
    st = list(caps)
    st[slot] = level
    t.set_state(list(st))
    v0, c0 = t.get_value(), t.get_cost()
    nxt = list(st)
    nxt[slot] += 1
    t2 = t.clone()
    t2.set_state(nxt)
    budget = t2.get_cost()
    if not v0 > 0:
        return None
    res = StepwizeOptimizer(t, budget, 1).optimize()
    v1 = res.get_value()
    if v1 < v0 - 1e-9 * abs(v0):
        return {"what": "result scores worse than the starting point",
                "config": {"target": kind, "logic": logic, "stat": GOOD_STAT, "armor": armor, "start": st, "budget": budget,
                           "step_size": 1, "table_entry": {"slot": slot, "level": level}},
                "result": list(res.state), "start_value": v0, "value": v1, "start_cost": c0, "cost": res.get_cost()}
    return None


def job_optimizer(job):
    import random
    from lib import h_opt
    rng = random.Random(job["seed"])
    out = {"runs": [], "findings": [], "scan": {}, "errors": []}
    small = {"hyperstat": [0, 1, 3, 7, 20, 60, 150], "union_squad": [0, 1, 2, 4, 6], "union_occupation": [0, 1, 2, 5, 9, 41],
             "link": [0, 1, 2, 3, 5]}
    for kind in KINDS:
        for _ in range(job["n"]):
            cfg = h_opt.gen_real_config(rng, kind)
            cfg["budget"] = rng.choice(small[kind]) + (len(cfg.get("preset_jobs") or []))
            try:
                r = h_opt.check_real(cfg)
            except Exception as e:
                out["errors"].append("%s: %r" % (kind, e))
                continue
            out["runs"].append({"target": kind, "budget": cfg["budget"], "skipped": bool(r.get("skipped")),
                                "steps": (r.get("info") or {}).get("steps")})
            for f in r.get("findings") or []:
                out["findings"].append(dict(f, mode="real", config=cfg))
    # tables that dip: look for a concrete run in which the optimizer ends below its start
    logics = [{"cls": c, "arc": 1.2, "mastery": 0.9} for c in h_opt.LOGICS]
    for kind in KINDS:
        try:
            dips = scan_tables(kind, _mk(kind, GOOD_STAT, logics[0], 300, []))
        except Exception as e:
            out["errors"].append("table scan %s: %r" % (kind, e))
            continue
        out["scan"][kind] = {"entries_not_monotone_or_negative": len(dips), "first": dips[:3]}
        if kind == "hyperstat":
            cost = list(_mk(kind, GOOD_STAT, logics[0], 300, [])._hyperstat_prototype.cost)
            out["scan"][kind]["negative_cost_entries"] = [[i, c] for i, c in enumerate(cost) if c < 0]
        tried = 0
        for d in [x for x in dips if x["level"] is not None][:6]:
            for lg in logics:
                tried += 1
                try:
                    f = forced_step(kind, d["slot"], d["level"], lg)
                except Exception as e:
                    out["errors"].append("forced step %s: %r" % (kind, e))
                    f = None
                if f:
                    f["config"]["table_entry"].update(d)
                    out["findings"].append(dict(f, mode="targets"))
                    break
        out["scan"][kind]["forced_runs"] = tried
    return out


def replay_config(inp):
    """re-run one forced-step finding on the tree -> (still failing, details)"""
    cfg = inp.get("config") or inp
    f = forced_step(cfg["target"], cfg["table_entry"]["slot"], cfg["table_entry"]["level"], cfg["logic"], cfg.get("armor", 300))
    return bool(f), f


WORKER_JOBS = {"cases": job_cases, "optimizer": job_optimizer,
               "replay": lambda job: {"failing": replay_config(job["input"])[0], "details": replay_config(job["input"])[1]}}

if __name__ == "__main__":
    sys.path.insert(0, "/verif/tools")
    _job = json.loads(sys.stdin.read())
    _res = WORKER_JOBS[_job["job"]](_job)
    sys.stdout.write("\n@@RESULT@@" + json.dumps(_res, default=str))
    sys.exit(0)


# ====================================================================================== driver side
def _spawn(job):
    """start a worker; its output goes to temporary files (a pipe would fill up and block a worker with a large result)"""
    import tempfile
    from lib.vf import PY, REPO, VERIF
    env = dict(os.environ)
    env["PYTHONPATH"] = "%s:%s" % (REPO, VERIF / "tools")
    env["PYTHONDONTWRITEBYTECODE"] = "1"
    env["PYTHONHASHSEED"] = "0"
    fin, fout, ferr = tempfile.TemporaryFile("w+"), tempfile.TemporaryFile("w+"), tempfile.TemporaryFile("w+")
    fin.write(json.dumps(job))
    fin.seek(0)
    p = subprocess.Popen([PY, str(VERIF / "tools" / "lib" / "h_targets.py")], stdin=fin, stdout=fout, stderr=ferr,
                         text=True, env=env, cwd=str(VERIF))
    p._files = (fin, fout, ferr)
    return p


def _collect(p, timeout=900):
    fin, fout, ferr = p._files
    try:
        p.wait(timeout=timeout)
    except subprocess.TimeoutExpired:
        p.kill()
        return None, "timeout after %ss" % timeout
    fout.seek(0)
    ferr.seek(0)
    out, err = fout.read(), ferr.read()
    for f in (fin, fout, ferr):
        f.close()
    if "@@RESULT@@" not in out:
        return None, (err or out)[-1500:]
    return json.loads(out.split("@@RESULT@@", 1)[1]), None


def ql(s) -> str:
    f = Fraction(s)
    return "((%d)#%d)%%Q" % (f.numerator, f.denominator) if f < 0 else "(%d#%d)%%Q" % (f.numerator, f.denominator)


def zl(n) -> str:
    return "(%d)%%Z" % n


def coq_logic(lg) -> str:
    return "(%s %s %s))" % (LOGIC_CTOR[lg["cls"]], ql(lg["arc"]), ql(lg["mastery"]))


def coq_stat(stat, fields) -> str:
    unknown = set(stat) - set(fields)
    if unknown:
        raise ValueError("stat fields %s are not in the generated Stat record" % sorted(unknown))
    return "(S_ %s)" % " ".join(ql(stat.get(f, 0)) for f in fields)


def coq_nats(st) -> str:
    return "[" + "; ".join("%d" % x for x in st) + "]%nat"


def coq_strs(xs) -> str:
    return "[" + "; ".join('"%s"%%string' % x for x in xs) + "]"


def case_term(c, fields) -> str:
    L, D, A, st = coq_logic(c["logic"]), coq_stat(c["stat"], fields), ql(c["armor"]), coq_nats(c["state"])
    k = c["target"]
    exp_v = "(Some %s)" % ql(c["value"][1]) if c["value"][0] == "ok" else "None"
    exp_c = "(Some %s)" % zl(int(Fraction(c["cost"][1]))) if c["cost"][0] == "ok" else "None"
    if k == "hyperstat":
        val, cost = "hyper_value_fast %s %s %s %s" % (L, D, A, st), "hyper_cost_opt %s" % st
        mx = "Z.eqb (HyperstatTarget_maximum_step (HyperstatTarget_init Stat_zero (fun _ _ => 0%%Q) get_kms_hyperstat 0%%Q)) %s" % zl(c["maximum_step"])
    elif k == "union_squad":
        sizes = "(UnionSquad_block_size (create_with_some_large_blocks %s 4%%Z 5%%Z))" % coq_strs(c["jobs"])
        val, cost = "squad_value_fast %s %s %s %s %s" % (L, D, A, sizes, st), "squad_cost_opt %s %s" % (sizes, st)
        mx = "Nat.eqb (squad_M %s) %d" % (sizes, c["maximum_step"])
    elif k == "union_occupation":
        val, cost = "occ_value_fast %s %s %s %s" % (L, D, A, st), \
            "Some (UnionOccupationTarget_get_cost (occ_target (fun _ _ => 0%%Q) Stat_zero 0%%Q %s))" % st
        mx = "Nat.eqb occ_M %d" % c["maximum_step"]
    else:
        lv = "(LinkSkillset_link_levels get_kms_link_skill_set)"
        val, cost = "link_value_fast %s %s %s %s %s" % (L, D, A, lv, st), "link_cost_opt %s %s" % (lv, st)
        mx = "Nat.eqb (link_M %s) %d" % (lv, c["maximum_step"])
    return "oq_close (%s) %s qclose && oz_eq (%s) %s && %s" % (val, exp_v, cost, exp_c, mx)


def init_term(c) -> str:
    jobs = coq_strs(c["jobs"])
    if c["target"] == "union_squad":
        call = "UnionSquadTarget_init Stat_zero (fun _ _ => 0%%Q) (create_with_some_large_blocks %s 4%%Z 5%%Z) %s 0%%Q" % (jobs, jobs)
        proj, mx = "UnionSquadTarget_state", "UnionSquadTarget_maximum_step"
    else:
        call = "LinkSkillTarget_init Stat_zero (fun _ _ => 0%%Q) get_kms_link_skill_set %s 0%%Q" % jobs
        proj, mx = "LinkSkillTarget_state", "LinkSkillTarget_maximum_step"
    if c["state"][0] == "ok":
        exp = "[" + "; ".join(zl(x) for x in c["state"][1]) + "]"
        return "match %s with Some t => lclose Z.eqb (%s t) %s && Z.eqb (%s t) %s | None => false end" % (
            call, proj, exp, mx, zl(c["maximum_step"]))
    return "match %s with Some _ => false | None => true end" % call


SHARD_HEAD = ("From Coq Require Import List ZArith QArith Bool String.\nFrom V.Lib Require Import Corr.\n"
              "From V.Model Require Import Greedy TargetsRt Targets.\nFrom G Require Import CoreQ Targets.\n"
              "Import ListNotations.\nClose Scope Z_scope.\n")


def shard(terms):
    return SHARD_HEAD + "Definition cases : list bool := [\n  " + ";\n  ".join(terms) + "].\nEval vm_compute in (bad cases).\n"


def err_of(log: str) -> str:
    ls = [l for l in log.splitlines() if l.strip()]
    for i, l in enumerate(ls):
        if l.startswith("Error"):
            return " ".join(ls[max(0, i - 2):i + 4])[:500]
    return " ".join(ls[-3:])[:400]


def lemma_at(ctx, relpath, log):
    """name of the lemma inside which the build stopped"""
    import re
    m = re.search(r'File "\./%s", line (\d+)' % re.escape(relpath), log)
    if not m:
        return None
    try:
        lines = (ctx.coq / relpath).read_text().splitlines()[:int(m.group(1))]
    except OSError:
        return None
    for l in reversed(lines):
        mm = re.match(r"\s*(?:Lemma|Theorem|Example|Definition)\s+([A-Za-z0-9_']+)", l)
        if mm:
            return mm.group(1)
    return None


def run(ctx):
    """-> list of implementation findings (dicts with `what`, `mode`, ...) for the caller's verdict; records everything
    else in ctx.broken / ctx.cov["targets"]"""
    from lib import h_opt
    from lib.vf import REPO
    t0 = time.time()
    quick = not ctx.thorough
    n = {"hyperstat": 40, "union_squad": 40, "union_occupation": 32, "link": 32} if quick else \
        {"hyperstat": 400, "union_squad": 400, "union_occupation": 300, "link": 300}
    # the workers only need the tree: start them first
    nw = 2 if quick else 8
    cases_p = [_spawn({"job": "cases", "seed": ctx.seed + 4100 + k, "n": {kk: v // nw for kk, v in n.items()},
                       "n_init": 6 if quick else 20, "n_levels": 10 if quick else 100}) for k in range(nw)]
    opt_p = _spawn({"job": "optimizer", "seed": ctx.seed + 4200, "n": 6 if quick else 60})
    cov = {"translator": None, "cases": 0, "differences": 0}
    ctx.cov["targets"] = cov
    findings = []

    # ---- 1. translate, build, check the property file
    import tr_targets
    meta = None
    try:
        files, meta = tr_targets.gen(str(REPO))
        for name, text in files.items():
            ctx.write_gen(name, text)
        cov["translator"] = {"files": meta["files"], "tables": meta["tables"], "run": meta["run"],
                             "definitions": len(meta["defs"]), "records": list(meta["records"])}
    except Exception as e:
        ctx.broken.append("translator tr_targets rejected the optimizer targets / system tables: %r" % e)
        ctx.prepare_coq()                   # fail closed: no stale generated file may stand in for the source
        for f in (ctx.coq / "gen").glob("Targets.*"):
            f.unlink()
        cov["translator"] = {"rejected": repr(e)[:500]}
    props_ok = False
    props_future = None
    if meta is not None:
        ok, log, failed = ctx.build(BUILD)
        if ok:
            # compile the property file (28 x Print Assumptions over the generated tables) while the shards are evaluated
            from concurrent.futures import ThreadPoolExecutor
            pool = ThreadPoolExecutor(1)
            props_future = pool.submit(ctx.check_props, PROPS)
        else:
            src = (ctx.coq / PROPS).read_text() if (ctx.coq / PROPS).exists() else ""
            ctx.obligations += max(1, src.count("\nTheorem "))
            where = lemma_at(ctx, failed, log) if failed else None
            ctx.broken.append("real optimizer targets (Props/C19_targets.v): proof obligation %s of %s no longer holds for the "
                              "objectives regenerated from the tree: %s" % (where or "?", failed, err_of(log)))
            cov["build_failed_at"] = {"file": failed, "lemma": where}
    else:
        src = (ctx.coq / PROPS).read_text() if (ctx.coq / PROPS).exists() else ""
        ctx.obligations += max(1, src.count("\nTheorem "))
    cov["seconds_translate_build"] = round(time.time() - t0, 1)

    # ---- 2./3. correspondence
    cases, inits, levels = [], [], []
    for p in cases_p:
        r, err = _collect(p)
        if r is None:
            ctx.broken.append("targets harness worker did not run: %s" % err)
            continue
        cases += r["cases"]
        inits += r["init"]
        levels += r["levels"]
        for e in r["errors"]:
            ctx.broken.append("targets harness could not build a real target: %s" % e[:300])
    levels = sorted({tuple(x) for x in levels})
    diffs = []
    model_ok = meta is not None and (ctx.coq / "theories/Model/Targets.vo").exists() and (ctx.coq / "gen/Targets.vo").exists()
    if model_ok and (cases or inits):
        fields = meta["stat_fields"]
        shards, index = {}, {}
        per = 12
        for k in range(0, len(cases), per):
            nm = "c19_tg_%03d" % (k // per)
            chunk = cases[k:k + per]
            try:
                shards[nm] = shard([case_term(c, fields) for c in chunk])
            except ValueError as e:
                ctx.broken.append("targets harness: %s" % e)
                continue
            index[nm] = [("value/cost", c) for c in chunk]
        extra = [init_term(c) for c in inits] + \
                ["Z.eqb (Hyperstat_get_maximum_cost_from_level %s) %s" % (zl(lv), zl(v)) for lv, v in levels]
        shards["c19_tg_init"] = shard(extra)
        index["c19_tg_init"] = [("constructor", c) for c in inits] + [("maximum_cost_from_level", {"level": lv, "python": v}) for lv, v in levels]
        out = ctx.coq_eval(shards, timeout=600)
        for nm, (rc, txt) in sorted(out.items()):
            bad = h_opt.parse_bad(txt) if rc == 0 else None
            if bad is None:
                diffs.append({"what": "targets shard %s did not evaluate" % nm, "output": txt[-400:]})
                continue
            for i in bad:
                kind, c = index[nm][i]
                diffs.append({"what": "real target differs from the generated model (%s)" % kind, "mode": "targets-correspondence",
                              "case": c})
    elif meta is not None and not model_ok:
        cov["correspondence_skipped"] = "generated model did not build"
    if props_future is not None:
        props_ok = bool(props_future.result())
        pool.shutdown()
    cov["props_ok"] = props_ok
    for d in diffs[:5]:
        ctx.broken.append("generated target model and implementation disagree: %s" % json.dumps(d, ensure_ascii=False, default=str)[:400])
    cov.update({
        "cases": len(cases) + len(inits) + len(levels), "value_cost_cases": len(cases), "constructor_cases": len(inits),
        "maximum_cost_from_level_cases": len(levels), "differences": len(diffs),
        "per_target": {k: sum(1 for c in cases if c["target"] == k) for k in KINDS},
        "python_raised": sum(1 for c in cases if c["value"][0] != "ok") + sum(1 for c in inits if c["state"][0] != "ok"),
        "fractional_reference_blocks": sum(1 for c in cases if any(float(v) != int(float(v)) for v in c["stat"].values())),
        "rule": "real target objects (shipped prototypes) x random logic / reference stat / armour x states inside the tables "
                "(corners 0 and last level, masks with 0..all slots enabled, presets) plus states outside (level beyond a table, "
                "wrong length, unknown preset job); get_value by qclose, get_cost / start state / maximum step / "
                "get_maximum_cost_from_level exactly, exceptions = None; evaluated in coqc on gen/Targets.v",
        "sample": cases[1] if len(cases) > 1 else None,
        "first_differences": diffs[:3],
    })

    # ---- 4. the real optimizer on the real targets
    r, err = _collect(opt_p)
    if r is None:
        ctx.broken.append("targets optimizer worker did not run: %s" % err)
    else:
        for e in r["errors"]:
            ctx.broken.append("targets optimizer worker: %s" % e[:300])
        findings += r["findings"]
        for kind, sc in r["scan"].items():
            if sc["entries_not_monotone_or_negative"]:
                ctx.broken.append("the shipped %s tables are not monotone / non-negative (%d entries), e.g. slot %s field %s: "
                                  "index %s holds %s after %s" % (kind, sc["entries_not_monotone_or_negative"], sc["first"][0]["slot"],
                                                                 sc["first"][0]["field"], sc["first"][0]["index"],
                                                                 sc["first"][0]["after"], sc["first"][0]["before"]))
        neg = (r["scan"].get("hyperstat") or {}).get("negative_cost_entries")
        if neg:
            ctx.broken.append("the shipped hyper stat cost table has negative entries (index, cost): %s" % neg[:4])
        cov["optimizer_runs"] = {"runs": len(r["runs"]), "with_steps": sum(1 for x in r["runs"] if x.get("steps")),
                                 "skipped_outside_domain": sum(1 for x in r["runs"] if x.get("skipped")),
                                 "findings": len(r["findings"]), "table_scan": r["scan"]}
    cov["seconds"] = round(time.time() - t0, 1)
    n_thm = (ctx.coq / PROPS).read_text().count("\nTheorem ") if (ctx.coq / PROPS).exists() else 0
    cov["model_files"] = ["gen/Targets.v", "Model/TargetsRt.v", "Model/Targets.v"]
    ctx.log("real targets: %d theorems ok=%s, %d correspondence cases, %d differences, %d findings, %.0fs" % (
        n_thm, props_ok, cov["cases"], len(diffs), len(findings), time.time() - t0))
    return findings


def replay(ctx, inp):
    p = _spawn({"job": "replay", "input": inp})
    r, err = _collect(p)
    if r is None:
        print("worker failed:", err)
        return 2
    print(json.dumps(r, indent=1, default=str)[:3000])
    return 1 if r["failing"] else 0
