"""H-entity: correspondence between Model/Comp.v (entities, traits, the stateful classes of
component/common) and the real reducers / views, called directly as
`component.<reducer>(payload, state)`.

Cases are (class, reducer, component instance, input state, payload). The Python side runs
the real method and ALSO checks, for the same call, that the input state object is not
modified and that a second call returns the same result (used by C08). All times are exact
dyadic floats, scaled per case by one power of two to integer ticks; damage/hit numbers
are interned to integer codes."""
from __future__ import annotations

import json
from fractions import Fraction

KINDS = {
    # kind: (module, class, state class, reducers)
    "AttackSkill": ("attack_skill", "AttackSkillComponent", "AttackSkillState",
                    ["use", "elapse", "use_with_ignore_reject", "reset_cooldown"]),
    "BuffSkill": ("buff_skill", "BuffSkillComponent", "BuffSkillState", ["use", "elapse"]),
    "ConsumableBuffSkill": ("consumable_buff_skill", "ConsumableBuffSkillComponent", "ConsumableBuffSkillState", ["use", "elapse"]),
    "DOTEmittingAttackSkill": ("dot_emitting_attack_skill", "DOTEmittingAttackSkillComponent", "DOTEmittingState",
                               ["use", "elapse", "reset_cooldown"]),
    "HitLimitedPeriodic": ("hit_limited_periodic_damage", "HitLimitedPeriodicDamageComponent", "HitLimitedPeriodicDamageState", ["use", "elapse"]),
    "KeydownSkill": ("keydown_skill", "KeydownSkillComponent", "KeydownSkillState", ["use", "elapse", "stop"]),
    "MultipleAttackSkill": ("multiple_attack_skill", "MultipleAttackSkillComponent", "MultipleAttackSkillState",
                            ["use", "elapse", "reset_cooldown"]),
    "MultipleHitHexa": ("multiple_hit_hexa_skill", "MultipleHitHexaSkillComponent", "MultipleHitHexaSkillState", ["use", "elapse"]),
    "PeriodicAttack": ("periodic_damage_configurated_attack_skill", "PeriodicDamageConfiguratedAttackSkillComponent", "PeriodicDamageState", ["use", "elapse"]),
    "PeriodicHexa": ("periodic_damage_configurated_hexa_skill", "PeriodicDamageConfiguratedHexaSkillComponent", "PeriodicDamageHexaState", ["use", "elapse"]),
    "PeriodicWithFinish": ("periodic_with_finish_skill", "PeriodicWithFinishSkillComponent", "PeriodicWithFinishState", ["use", "elapse"]),
    "StackableBuff": ("stackable_buff_skill", "StackableBuffSkillComponent", "StackableBuffSkillState", ["use", "elapse"]),
    "Synergy": ("synergy_skill", "SynergySkillComponent", "SynergyState", ["use", "elapse"]),
    "TemporalEnhancing": ("temporal_enhancing_attack_skill", "TemporalEnhancingAttackSkill", "TemporalEnhancingAttackSkillState", ["use", "elapse"]),
    "TriggableBuff": ("triggable_buff_skill", "TriggableBuffSkillComponent", "TriggableBuffState", ["use", "elapse", "trigger"]),
    "TriplePeriodic": ("triple_periodic_damage_hexa_skill", "TriplePeriodicDamageHexaComponent", "TriplePeriodicDamageHexaComponentState", ["use", "elapse"]),
}
METH = {"use": "MUse", "elapse": "MElapse", "use_with_ignore_reject": "MUseIgnoreReject",
        "reset_cooldown": "MResetCooldown", "stop": "MStop", "trigger": "MTrigger"}
VIEWS = ["validity", "running", "buff", "keydown"]


def classes(kind):
    import importlib
    mod, cn, sn, reds = KINDS[kind]
    m = importlib.import_module("simaple.simulate.component.common." + mod)
    return getattr(m, cn), getattr(m, sn), reds


def kind_of(component):
    for k, (_m, cn, _s, _r) in KINDS.items():
        if type(component).__name__ == cn:
            return k
    return None


# ------------------------------------------------------------------ random generation
GRID = [0, 0.25, 0.5, 1, 30, 100, 120, 250, 480, 500, 690, 720, 999.75, 1000, 1000.25, 1500, 2000, 3000, 5000, 10000,
        12000, 30000, 60000, 90000, 180000]
POS = [g for g in GRID if g > 0]
TINY = 2.0 ** -24          # 6e-8 ms, exactly representable; cases containing it are scaled by 2^24


def rtime(rng, allow_zero=True, hi=240000):
    r = rng.random()
    if r < 0.55:
        v = rng.choice(GRID if allow_zero else POS)
    elif r < 0.85:
        v = rng.randint(0 if allow_zero else 1, max(1, hi // 30)) * 30.0
    else:
        v = rng.randint(0 if allow_zero else 1, max(1, hi * 4)) / 4.0
    return float(v)


def rstep(rng, hi=5000):
    """A positive step size (tick interval / recharge time): not tiny, or the real loops take minutes."""
    return float(rng.choice([30, 120, 250, 500, 720, 1000, 1000.25, 999.75, 3000, rng.randint(4, hi // 30) * 30, rng.randint(120, hi * 4) / 4.0]))


def rdmg(rng):
    return float(rng.choice([0, 1, 50, 123.5, 270, 560, 900, 1500])), float(rng.choice([0, 1, 2, 3, 6, 12, 15]))


def random_action_stat(rng):
    from simaple.core.base import ActionStat
    # rates whose products are exact in binary64, so applied durations stay on the grid
    return ActionStat(cooltime_reduce=float(rng.choice([0, 0, 1000, 2000, 4000])),
                      cooltime_reduce_rate=float(rng.choice([0, 0, 25, 50])),
                      buff_duration=float(rng.choice([0, 25, 50, 100])),
                      summon_duration=float(rng.choice([0, 25])))


def random_component(rng, kind):
    cls, _st, _r = classes(kind)
    dmg, hit = rdmg(rng)
    base = dict(id="t-%s" % kind, name="skill-%s" % kind, cooldown_duration=rtime(rng), delay=rtime(rng, hi=3000),
                disable_validity=rng.random() < 0.2)
    d2, h2 = rdmg(rng)
    d3, h3 = rdmg(rng)
    per = dict(periodic_interval=rstep(rng), periodic_damage=d2, periodic_hit=h2,
               lasting_duration=rtime(rng, False, 120000),
               periodic_initial_delay=(None if rng.random() < 0.5 else rtime(rng, False, 3000)))
    hits = [{"damage": rdmg(rng)[0], "hit": rdmg(rng)[1]} for _ in range(rng.randint(0, 3))]
    from simaple.core.base import Stat
    stat = Stat(attack_power=10)
    kw = {
        "AttackSkill": dict(damage=dmg, hit=hit),
        "BuffSkill": dict(stat=stat, lasting_duration=rtime(rng), apply_buff_duration=rng.random() < 0.7),
        "ConsumableBuffSkill": dict(stat=stat, lasting_duration=rtime(rng), maximum_stack=rng.randint(1, 4),
                                    apply_buff_duration=rng.random() < 0.7),
        "DOTEmittingAttackSkill": dict(damage=dmg, hit=hit, dot_damage=d2, dot_lasting_duration=rtime(rng)),
        "HitLimitedPeriodic": dict(per, max_count=rng.randint(1, 6)),
        "KeydownSkill": dict(maximum_keydown_time=rtime(rng, False, 20000), damage=dmg, hit=hit,
                             keydown_prepare_delay=rtime(rng, hi=2000), keydown_end_delay=rtime(rng, hi=2000),
                             finish_damage=d2, finish_hit=h2),
        "MultipleAttackSkill": dict(damage=dmg, hit=hit, multiple=rng.randint(0, 4)),
        "MultipleHitHexa": dict(damage_and_hits=hits),
        "PeriodicAttack": dict(per, damage=dmg, hit=hit),
        "PeriodicHexa": dict(per, damage_and_hits=hits),
        "PeriodicWithFinish": dict(per, finish_damage=d3, finish_hit=h3),
        "StackableBuff": dict(stat=stat, lasting_duration=rtime(rng), maximum_stack=rng.randint(1, 5),
                              apply_buff_duration=rng.random() < 0.7),
        "Synergy": dict(damage=dmg, hit=hit, synergy=stat, lasting_duration=rtime(rng)),
        "TemporalEnhancing": dict(damage=dmg, hit=hit, reforged_damage=d2, reforged_hit=h2,
                                  reforged_multiple=rng.randint(0, 3), reforge_cooldown_duration=rtime(rng)),
        "TriggableBuff": dict(stat=stat, lasting_duration=rtime(rng), apply_buff_duration=rng.random() < 0.7,
                              trigger_cooldown_duration=rtime(rng), trigger_damage=d2, trigger_hit=h2),
        "TriplePeriodic": dict(damage_and_hits=hits, lasting_duration=rtime(rng, False, 120000), synergy=stat,
                               periodic_01=dict(interval=rstep(rng), damage=d2, hit=h2,
                                                initial_delay=(None if rng.random() < 0.5 else rtime(rng, False, 3000))),
                               periodic_02=dict(interval=rstep(rng), damage=d3, hit=h3, initial_delay=None),
                               periodic_03=dict(interval=rstep(rng), damage=dmg, hit=hit,
                                                initial_delay=rtime(rng, False, 3000))),
    }[kind]
    if kind == "KeydownSkill":
        base["delay"] = rstep(rng, 3000)   # Keydown.interval = delay; 0 would never terminate
    if kind == "PeriodicHexa":
        base["delay"] = rtime(rng, False, 3000)   # Periodic.initial_counter = delay must be > 0 (pydantic)
    if kind == "ConsumableBuffSkill":
        base["cooldown_duration"] = rstep(rng, 60000)   # Consumable.elapse loops forever on a zero recharge time
    return cls(**base, **kw)


def default_state(component, action_stat):
    from simaple.simulate.global_property import Dynamics
    kind = kind_of(component)
    _cls, st, _r = classes(kind)
    ents = {k: v.model_copy(deep=True) for k, v in component.get_default_state().items()}
    return st(**ents, dynamics=Dynamics(stat=action_stat))


def random_state(rng, component, action_stat):
    """A well-formed (not necessarily reachable) state."""
    from simaple.simulate.component import entity as E
    s = default_state(component, action_stat)
    for name in type(s).model_fields:
        e = getattr(s, name)
        if isinstance(e, E.Cooldown):
            # TINY / -TINY: a residue far below any tick, as float cooldown reductions leave behind (every comparison with 0 must be exact)
            e.time_left = rng.choice([-500.0, 0.0, 0.25, TINY, -TINY, rtime(rng)])
        elif isinstance(e, E.Lasting):
            e.time_left = rng.choice([-30.0, 0.0, 0.5, TINY, -TINY, rtime(rng)])
            e.assigned_duration = rtime(rng)
        elif isinstance(e, E.Consumable):
            e.stack = rng.randint(0, e.maximum_stack)
            if e.cooldown_duration > 0:
                e.time_left = e.cooldown_duration if e.stack == e.maximum_stack else \
                    max(0.25, min(e.cooldown_duration, rtime(rng, False, max(1, int(e.cooldown_duration)))))
        elif isinstance(e, E.Periodic):
            if rng.random() < 0.7:
                e.time_left = rng.choice([0.0, rtime(rng, True, 60000)])
                e.interval_counter = rng.choice([e.interval, max(0.25, min(e.interval, rtime(rng, False, 5000))), rtime(rng, False, 3000)])
                e.count = rng.randint(0, 5)
        elif isinstance(e, E.Keydown):
            r = rng.random()
            if r < 0.5:
                e.time_left = rtime(rng, False, 20000)
                e.interval_counter = rtime(rng, True, 3000)
            elif r < 0.7:
                e.time_left = rng.choice([0.0, -250.0])
                e.interval_counter = rng.choice([0.0, 120.0, rtime(rng, True, 3000)])
        elif isinstance(e, E.Stack):
            e.stack = rng.randint(0, e.maximum_stack)
    return s


# ------------------------------------------------------------------ encoding
class Enc:
    """Per-shard encoder: value codes for damage/hit, tick scaling per case."""

    def __init__(self):
        self.codes = {}

    def code(self, x) -> int:
        x = float(x)
        if x not in self.codes:
            self.codes[x] = len(self.codes) + 1
        return self.codes[x]


def _z(n: int) -> str:
    return "(%d)" % n if n >= 0 else "(-%d)" % (-n)


class OffGrid(Exception):
    pass


def scale_of(values) -> int:
    sc = 1
    for v in values:
        f = Fraction(float(v))
        sc = max(sc, f.denominator)
        if abs(f) >= 2 ** 34:
            raise OffGrid("magnitude %r" % v)
    if sc > 2 ** 24:
        raise OffGrid("denominator %d" % sc)
    return sc


def state_times(state):
    from simaple.simulate.component import entity as E
    out = []
    for name in type(state).model_fields:
        e = getattr(state, name)
        if isinstance(e, (E.Cooldown,)):
            out += [e.time_left]
        elif isinstance(e, E.Lasting):
            out += [e.time_left, e.assigned_duration]
        elif isinstance(e, E.Consumable):
            out += [e.cooldown_duration, e.time_left]
        elif isinstance(e, E.Periodic):
            out += [e.interval, e.interval_counter, e.time_left] + ([e.initial_counter] if e.initial_counter is not None else [])
        elif isinstance(e, E.Keydown):
            out += [e.interval, e.interval_counter, e.time_left]
    return out


def applied(component, state):
    """The values the reducers obtain from the Dynamics entity (parameters of the model)."""
    st = state.dynamics.stat
    kind = kind_of(component)
    cdA = st.calculate_cooldown(component.cooldown_duration)
    cdB = 0.0
    last = lastraw = 0.0
    if hasattr(component, "lasting_duration"):
        lastraw = component.lasting_duration
        last = lastraw
        if kind in ("BuffSkill", "ConsumableBuffSkill", "StackableBuff", "TriggableBuff") and component.apply_buff_duration:
            last = st.calculate_buff_duration(lastraw)
    if kind == "TemporalEnhancing":
        cdB = st.calculate_cooldown(component.reforge_cooldown_duration)
    if kind == "TriggableBuff":
        cdB = component.trigger_cooldown_duration
    return cdA, cdB, last, lastraw


def par_times(component, state):
    cdA, cdB, last, lastraw = applied(component, state)
    out = [component.delay, cdA, cdB, last, lastraw]
    for f in ("keydown_end_delay", "maximum_keydown_time", "keydown_prepare_delay", "dot_lasting_duration"):
        if hasattr(component, f):
            out.append(getattr(component, f))
    return out


def enc_par(enc: Enc, component, state, sc) -> str:
    kind = kind_of(component)
    T = lambda v: _z(int(Fraction(float(v)) * sc))
    dh = lambda d, h: "(%d, %d)" % (enc.code(d), enc.code(h))
    g = lambda f, dflt=0.0: getattr(component, f, dflt)
    cdA, cdB, last, lastraw = applied(component, state)
    dmg = dh(g("damage"), g("hit"))
    hits = "[" + "; ".join(dh(e.damage, e.hit) for e in g("damage_and_hits", [])) + "]"
    if kind == "TriplePeriodic":
        pds = [dh(p.damage, p.hit) for p in (component.periodic_01, component.periodic_02, component.periodic_03)]
    else:
        pds = [dh(g("periodic_damage"), g("periodic_hit"))] + ["(0, 0)"] * 2
    dmg2 = {"TemporalEnhancing": lambda: dh(component.reforged_damage, component.reforged_hit),
            "TriggableBuff": lambda: dh(component.trigger_damage, component.trigger_hit)}.get(kind, lambda: "(0, 0)")()
    mult = {"MultipleAttackSkill": lambda: component.multiple, "TemporalEnhancing": lambda: component.reforged_multiple}.get(kind, lambda: 0)()
    return ("(mkPar %s %s %s %s %s %s %s %d%%nat %s %s %s %s %s %s %s %s %s %s %s (%d, %s))" % (
        "true" if component.disable_validity else "false", dmg, T(component.delay), T(cdA), T(cdB), T(last), T(lastraw),
        mult, hits, pds[0], pds[1], pds[2], dh(g("finish_damage"), g("finish_hit")), T(g("keydown_end_delay")), dmg2,
        T(g("maximum_keydown_time")), T(g("keydown_prepare_delay")), _z(int(g("max_count", 0))), _z(int(g("maximum_stack", 0))),
        enc.code(g("dot_damage")), T(g("dot_lasting_duration"))))


def enc_ust(state, sc) -> str:
    from simaple.simulate.component import entity as E
    T = lambda v: _z(int(Fraction(float(v)) * sc))
    f = {n: getattr(state, n) for n in type(state).model_fields}
    cd = f.get("cooldown")
    cd2 = f.get("reforged_cooldown") or f.get("trigger_cooldown")
    las = f.get("lasting")
    cons = f.get("consumable")
    pers = [f.get("periodic") or f.get("periodic_01"), f.get("periodic_02"), f.get("periodic_03")]
    kd = f.get("keydown")
    stk = f.get("stack")

    def per(p):
        if p is None:
            return "(P.mkP 1 1 0 0)", "None"
        return ("(P.mkP %s %s %s %s)" % (T(p.interval), T(p.interval_counter), T(p.time_left), _z(int(p.count))),
                "None" if p.initial_counter is None else "(Some %s)" % T(p.initial_counter))
    ps = [per(p) for p in pers]
    return ("(mkU %s %s %s %s %s %s %s %s %s %s %s %s %s)" % (
        T(cd.time_left) if cd else "0", T(cd2.time_left) if cd2 else "0",
        T(las.time_left) if las else "0", T(las.assigned_duration) if las else "0",
        ("(C.mkC %s %s %s %s)" % (_z(cons.maximum_stack), _z(cons.stack), T(cons.cooldown_duration), T(cons.time_left))) if cons else "(C.mkC 1 1 1 1)",
        ps[0][0], ps[1][0], ps[2][0], ps[0][1], ps[1][1], ps[2][1],
        ("(K.mkK %s %s %s)" % (T(kd.interval), T(kd.interval_counter), T(kd.time_left))) if kd else "(K.mkK 1 0 (-1))",
        _z(int(stk.stack)) if stk else "0"))


def enc_events(enc: Enc, events, component, sc):
    """Returns (coq list text, problems). Problems are properties of the events the model does
    not carry (wrong name, unexpected modifier, unknown tag)."""
    from simaple.simulate.reserved_names import Tag
    T = lambda v: _z(int(Fraction(float(v)) * sc))
    out, problems = [], []
    for e in events or []:
        tag = e["tag"]
        if e["name"] != component.name:
            problems.append("event name %r is not the component's name" % e["name"])
        if tag == Tag.REJECT:
            out.append("EReject")
        elif tag == Tag.DAMAGE:
            out.append("EDealt %d %d" % (enc.code(e["payload"]["damage"]), enc.code(e["payload"]["hit"])))
            if e["payload"].get("modifier") != component.modifier and not (
                    e["payload"].get("modifier") is not None and component.modifier is not None
                    and e["payload"]["modifier"] == component.modifier.model_dump()):
                problems.append("damage event modifier is not the component's modifier")
        elif tag == Tag.DELAY:
            out.append("EDelay %s" % T(e["payload"]["time"]))
        elif tag == Tag.ELAPSED:
            out.append("EElapsed %s" % T(e["payload"]["time"]))
        elif tag == Tag.KEYDOWN_END:
            out.append("EKeydownEnd")
        elif tag == Tag.MOB and e.get("method") == "add_dot":
            out.append("EMobDot %d %s" % (enc.code(e["payload"]["damage"]), T(e["payload"]["lasting_time"])))
            if e["payload"].get("name") != component.name:
                problems.append("dot payload name is not the component's name")
        else:
            problems.append("unmodelled event tag %r" % (tag,))
            out.append("EReject")
    return "[" + "; ".join(out) + "]", problems


def event_times(events):
    out = []
    for e in events or []:
        p = e.get("payload") or {}
        for k in ("time", "lasting_time"):
            if k in p:
                out.append(p[k])
    return out


def enc_views(component, state, sc):
    """Expected views as Coq terms (validity, running, buff, keydown)."""
    T = lambda v: _z(int(Fraction(float(v)) * sc))
    views = type(component).__views__
    v = component.validity(state)
    val = "(mkV %s %s %s)" % ("true" if v.valid else "false", T(v.time_left),
                              "None" if v.stack is None else "(Some %s)" % _z(int(v.stack)))
    if "running" in views:
        r = component.running(state)
        run = "(Some (mkR %s %s %s))" % (T(r.time_left), T(r.lasting_duration),
                                         "None" if r.stack is None else "(Some %s)" % _z(int(r.stack)))
        rt = [r.time_left, r.lasting_duration]
    else:
        run, rt = "None", []
    if "buff" in views:
        b = component.buff(state)
        base = getattr(component, "stat", None) or getattr(component, "synergy", None)
        from simaple.core.base import Stat
        if b is None:
            buff = "None"
        elif b is base:
            buff = "(Some 1)"
        elif kind_of(component) == "StackableBuff":
            buff = "(Some %s)" % _z(int(state.stack.stack) if base.stack(state.stack.stack) == b else -1)
        elif b == Stat():
            buff = "(Some 0)"
        else:
            n = None
            for k in range(1, 8):
                if base.stack(k) == b:
                    n = k
                    break
            buff = "(Some %s)" % _z(n if n is not None else -1)
    else:
        buff = "None"
    if "keydown" in views:
        k = component.keydown(state)
        kd = "(Some (%s, %s))" % ("true" if k.running else "false", T(k.time_left))
        rt.append(k.time_left)
    else:
        kd = "None"
    return "(%s, %s, %s, %s)" % (val, run, buff, kd), [v.time_left] + rt


def dump_state(state):
    return json.loads(json.dumps(state.model_dump(), default=str))


def run_case(component, meth, state, payload):
    """Run the real reducer; returns (out_state, events, purity_problems)."""
    before = dump_state(state)
    out, events = getattr(component, meth)(payload, state)
    problems = []
    if dump_state(state) != before:
        problems.append("input state modified by %s.%s" % (type(component).__name__, meth))
    out2, events2 = getattr(component, meth)(payload, state)
    if dump_state(out2) != dump_state(out) or json.dumps(events2, default=str, sort_keys=True) != json.dumps(events, default=str, sort_keys=True):
        problems.append("second call of %s.%s with equal arguments gave a different result" % (type(component).__name__, meth))
    return out, events, problems


def shard_text(cases_txt, views_txt) -> str:
    return ("From Coq Require Import ZArith List Bool.\nFrom V.Model Require Import Comp.\nFrom V.Lib Require Import Corr.\n"
            "Import ListNotations.\nOpen Scope Z_scope.\n"
            "Definition ev_eqb (a b : ev) : bool := match a, b with EReject, EReject => true | EDealt d h, EDealt d' h' => (d =? d') && (h =? h')\n"
            " | EDelay t, EDelay t' => t =? t' | EElapsed t, EElapsed t' => t =? t' | EKeydownEnd, EKeydownEnd => true\n"
            " | EMobDot d l, EMobDot d' l' => (d =? d') && (l =? l') | _, _ => false end.\n"
            "Definition oz_eqb (a b : option Z) := match a, b with Some x, Some y => x =? y | None, None => true | _, _ => false end.\n"
            "Definition p_eqb (a b : P.P) := (P.interval a =? P.interval b) && (P.counter a =? P.counter b) && (P.tl a =? P.tl b) && (P.cnt a =? P.cnt b).\n"
            "Definition ust_eqb (a b : ust) : bool := (u_cd a =? u_cd b) && (u_cd2 a =? u_cd2 b) && (u_ltl a =? u_ltl b) && (u_lad a =? u_lad b)\n"
            " && (C.maxs (u_cons a) =? C.maxs (u_cons b)) && (C.stack (u_cons a) =? C.stack (u_cons b)) && (C.cd (u_cons a) =? C.cd (u_cons b)) && (C.tl (u_cons a) =? C.tl (u_cons b))\n"
            " && p_eqb (u_p1 a) (u_p1 b) && p_eqb (u_p2 a) (u_p2 b) && p_eqb (u_p3 a) (u_p3 b)\n"
            " && oz_eqb (u_ic1 a) (u_ic1 b) && oz_eqb (u_ic2 a) (u_ic2 b) && oz_eqb (u_ic3 a) (u_ic3 b)\n"
            " && (K.itv (u_kd a) =? K.itv (u_kd b)) && (K.cnt (u_kd a) =? K.cnt (u_kd b)) && (K.tl (u_kd a) =? K.tl (u_kd b)) && (u_stk a =? u_stk b).\n"
            "Definition chk (c : comp) (m : meth) (p : par) (t : Z) (s : ust) (s' : ust) (es : list ev) : bool :=\n"
            "  match reduce_exec c m p t s with Some (r, e) => ust_eqb r s' && lclose ev_eqb e es | None => false end.\n"
            "Definition v_eqb (a b : validity) := Bool.eqb (v_valid a) (v_valid b) && (v_time_left a =? v_time_left b) && oz_eqb (v_stack a) (v_stack b).\n"
            "Definition r_eqb (a b : option running) := match a, b with Some x, Some y => (r_time_left x =? r_time_left y) && (r_duration x =? r_duration y) && oz_eqb (r_stack x) (r_stack y) | None, None => true | _, _ => false end.\n"
            "Definition k_eqb (a b : option (bool * Z)) := match a, b with Some (x, y), Some (x', y') => Bool.eqb x x' && (y =? y') | None, None => true | _, _ => false end.\n"
            "Definition chkv (c : comp) (p : par) (s : ust) (e : validity * option running * option Z * option (bool * Z)) : bool :=\n"
            "  let '(v, r, b, k) := e in v_eqb (view_validity c p s) v && r_eqb (view_running c p s) r && oz_eqb (view_buff c s) b && k_eqb (view_keydown c s) k.\n"
            "Eval vm_compute in (bad [\n" + ";\n".join(cases_txt) + "\n]).\n"
            "Eval vm_compute in (bad [\n" + ";\n".join(views_txt) + "\n]).\n")


def parse_bad_lists(out: str):
    import re
    ls = re.findall(r"=\s*\[(.*?)\]\s*:\s*list N", out, re.S)
    if len(ls) != 2:
        return None
    return [[int(x.replace("%N", "")) for x in l.replace("\n", " ").split(";") if x.strip()] for l in ls]


def encode_case(enc: Enc, component, meth, state, payload, out, events):
    """Returns (case text, view text, problems) or raises OffGrid."""
    t = float(payload) if meth == "elapse" else 0.0
    times = state_times(state) + state_times(out) + par_times(component, state) + [t] + event_times(events)
    vtxt_times = []
    sc = scale_of(times)
    vexp, vt = enc_views(component, state, sc)
    sc2 = scale_of(times + vt)
    if sc2 != sc:
        sc = sc2
        vexp, vt = enc_views(component, state, sc)
    kind = kind_of(component)
    par = enc_par(enc, component, state, sc)
    evs, problems = enc_events(enc, events, component, sc)
    T = _z(int(Fraction(t) * sc))
    ctxt = "chk %s %s %s %s %s %s %s" % (kind, METH[meth], par, T, enc_ust(state, sc), enc_ust(out, sc), evs)
    vtxt = "chkv %s %s %s %s" % (kind, par, enc_ust(state, sc), vexp)
    return ctxt, vtxt, problems


# ------------------------------------------------------------------ shipped instances
def shipped_components(job, variant):
    from lib import simenv
    from simaple.container.simulation import get_skill_components
    env = simenv.get_env(job, variant)
    return [c for c in get_skill_components(env)], env.character.action_stat


def payload_for(rng, meth):
    return rtime(rng, True, 60000) if meth == "elapse" else None


def generate(rng, n_walks, walk_len, shipped_jobs=()):
    """Yields (component, meth, state, payload). Random components with random walks from the
    default state (reachable states) and random well-formed states; shipped instances likewise."""
    pool = []
    kinds = list(KINDS)
    for i in range(n_walks):
        kind = kinds[i % len(kinds)]
        pool.append((random_component(rng, kind), random_action_stat(rng)))
    for job, variant in shipped_jobs:
        comps, astat = shipped_components(job, variant)
        comps = [c for c in comps if kind_of(c)]
        rng.shuffle(comps)
        for c in comps[:6]:
            pool.append((c, astat))
    for comp, astat in pool:
        _cls, _st, reds = classes(kind_of(comp))
        state = default_state(comp, astat) if rng.random() < 0.6 else random_state(rng, comp, astat)
        for _ in range(walk_len):
            meth = rng.choice(reds + ["elapse", "use"])
            payload = payload_for(rng, meth)
            yield comp, meth, state, payload
            try:
                state, _ev = getattr(comp, meth)(payload, state)
            except Exception:
                break
            if rng.random() < 0.15:
                state = random_state(rng, comp, astat)
