"""Extension `mage`: correspondence between Model/SpecMage.v and the job-specific component classes of
simaple/simulate/component/specific/{magician,bishop,archmagefb,archmagetc}.py, called directly as
`component.<reducer>(payload, state)` / `component.<view>(state)`.

Discovered by entitycheck.extensions(). Cases: random instances of every class (random walks of the real
reducers from the default state, with the bound entities perturbed between steps as the other components of
the job would, and random well-formed states) and the SHIPPED instances of archmagefb / archmagetc / bishop
with their real parameters. Times are dyadic floats scaled per case to integer ticks; damage / hit numbers are
interned codes; Stat modifiers are decoded to the small integers the model uses (see Model/SpecMage.v)."""
from __future__ import annotations

import collections
import importlib
import json
from fractions import Fraction

from lib import h_entity as H

NAME = "mage"
TARGETS = ["theories/Model/SpecMage.vo", "theories/Model/SpecMageCorr.vo"]
PROPS = {"C07": ["theories/Props/C07_mage.v"], "C09": ["theories/Props/C09_mage.v"], "C10": ["theories/Props/C10_mage.v"]}

# coq constructor -> (module, class, state class, reducers)
SPEC = {
    "DotPunisher": ("archmagefb", "DotPunisherComponent", "DotPunisherState", ["use", "elapse", "reset_cooldown"]),
    "Infinity": ("magician", "Infinity", "InfinityState", ["use", "elapse"]),
    "DivineAttack": ("bishop", "DivineAttackSkillComponent", "DivineAttackSkillState", ["use", "elapse"]),
    "DivineMinion": ("bishop", "DivineMinion", "DivineMinionState", ["use", "elapse"]),
    "HexaAngelRay": ("bishop", "HexaAngelRayComponent", "HexaAngelRayState", ["use", "stack", "elapse"]),
    "Ifritt": ("archmagefb", "IfrittComponent", "IfrittState", ["use", "elapse"]),
    "PoisonNova": ("archmagefb", "PoisonNovaComponent", "PoisonNovaState", ["use", "elapse", "trigger"]),
    "PoisonChain": ("archmagefb", "PoisonChainComponent", "PoisonChainState", ["use", "elapse"]),
    "InfernalVenom": ("archmagefb", "InfernalVenom", "InfernalVenomState", ["use", "elapse"]),
    "FlameSwipVI": ("archmagefb", "FlameSwipVI", "FlameSwipVIState", ["use", "explode"]),
    "FerventDrain": ("archmagefb", "FerventDrain", "FerventDrainState", []),
    "FrostEffect": ("archmagetc", "FrostEffect", "FrostEffectState", ["increase_step", "increase_three"]),
    "ThunderAttack": ("archmagetc", "ThunderAttackSkillComponent", "ThunderAttackSkillState", ["use", "elapse"]),
    "JupyterThunder": ("archmagetc", "JupyterThunder", "JupyterThunderState", ["use", "elapse"]),
    "ThunderBreak": ("archmagetc", "ThunderBreak", "ThunderBreakState", ["use", "elapse"]),
    "ChainLightningVI": ("archmagetc", "ChainLightningVIComponent", "ChainLightningVISkillState", ["use", "elapse"]),
}
CLASSES = [v[1] for v in SPEC.values()]
METH = {"use": "XUse", "elapse": "XElapse", "reset_cooldown": "XResetCooldown", "trigger": "XTrigger", "stack": "XStack",
        "explode": "XExplode", "increase_step": "XIncStep", "increase_three": "XIncThree"}
SHIPPED_JOBS = ["archmagefb", "archmagetc", "bishop"]
BISHOP = ("DivineAttack", "DivineMinion", "HexaAngelRay")
TC = ("ThunderAttack", "JupyterThunder", "ThunderBreak", "ChainLightningVI")
_z = H._z


def kind_of(component):
    n = type(component).__name__
    for k, v in SPEC.items():
        if v[1] == n:
            return k
    return None


def classes(kind):
    mod, cn, sn, reds = SPEC[kind]
    m = importlib.import_module("simaple.simulate.component.specific." + mod)
    return getattr(m, cn), getattr(m, sn), reds


# ------------------------------------------------------------------ generation
MARKS = [dict(final_damage_multiplier=25), dict(final_damage_multiplier=10), dict(damage_multiplier=7, critical_rate=5)]


def _stat(d):
    from simaple.core.base import Stat
    return Stat(**d)


def random_component(rng, kind):
    from simaple.core.base import Stat
    cls, _st, _r = classes(kind)
    dmg, hit = H.rdmg(rng)
    d2, h2 = H.rdmg(rng)
    base = dict(id="t-%s" % kind, name="skill-%s" % kind, cooldown_duration=H.rtime(rng), delay=H.rtime(rng, hi=3000))
    if kind not in ("FerventDrain", "FrostEffect"):
        base["disable_validity"] = rng.random() < 0.2
        if rng.random() < 0.25:
            base["modifier"] = Stat(critical_rate=25, final_damage_multiplier=rng.choice([0, 20]))
    per = dict(periodic_interval=H.rstep(rng), periodic_damage=d2, periodic_hit=h2, lasting_duration=H.rtime(rng, False, 120000),
               periodic_initial_delay=(None if rng.random() < 0.5 else H.rtime(rng, False, 3000)))
    dot = dict(dot_damage=float(rng.choice([0, 35.5, 240])), dot_lasting_duration=H.rtime(rng))
    opt = lambda: (None if rng.random() < 0.4 else Stat(attack_power=10))
    kw = {
        "DotPunisher": lambda: dict(dot, damage=dmg, hit=hit, multiple=rng.randint(0, 4)),
        "Infinity": lambda: dict(lasting_duration=H.rtime(rng), final_damage_increment=float(rng.choice([0, 1, 3, 2.5])),
                                 increase_interval=H.rstep(rng, 8000), default_final_damage=float(rng.choice([0, 40, 70])),
                                 maximum_final_damage=float(rng.choice([60, 73, 115])), apply_buff_duration=rng.random() < 0.7),
        "DivineAttack": lambda: dict(damage=dmg, hit=hit, synergy=opt()),
        "DivineMinion": lambda: dict(per, damage=dmg, hit=hit, mark_advantage=_stat(rng.choice(MARKS)), stat=opt()),
        "HexaAngelRay": lambda: dict(damage=dmg, hit=hit, punishing_damage=d2, punishing_hit=h2,
                                     stack_resolve_amount=rng.choice([1, 2, 3, 12]), synergy=Stat(attack_power=10)),
        "Ifritt": lambda: dict(per, damage=dmg, hit=hit, **dot),
        "PoisonNova": lambda: dict(dot, damage=dmg, hit=hit, nova_remaining_time=H.rtime(rng, True, 120000),
                                   nova_damage=d2, nova_single_hit=rng.randint(0, 12), nova_hit_count=rng.randint(0, 6)),
        "PoisonChain": lambda: dict(per, damage=dmg, hit=hit, periodic_damage_increment=float(rng.choice([0, 60, 12.5]))),
        "InfernalVenom": lambda: dict(first_damage=dmg, first_hit=hit, second_damage=d2, second_hit=h2, lasting_duration=H.rtime(rng)),
        "FlameSwipVI": lambda: dict(dot, damage=dmg, hit=int(hit), explode_damage=d2, explode_hit=int(h2)),
        "FerventDrain": lambda: dict(),
        "FrostEffect": lambda: dict(critical_damage_per_stack=rng.choice([0, 3, 4]), maximum_stack=rng.randint(0, 6)),
        "ThunderAttack": lambda: dict(damage=dmg, hit=hit),
        "JupyterThunder": lambda: dict(per, max_count=rng.choice([1, 2, 5, 6, 11, 30])),
        "ThunderBreak": lambda: dict(per, max_count=rng.choice([1, 2, 3, 8]), decay_rate=float(rng.choice([1, 0.5, 0.75, 0.9]))),
        "ChainLightningVI": lambda: dict(damage=dmg, hit=hit, electric_current_prob=float(rng.choice([0, 0.25, 0.375, 0.5, 1, 1.5])),
                                         electric_current_damage=d2, electric_current_hit=h2,
                                         electric_current_max_count=rng.choice([1, 2, 4]), electric_current_interval=H.rstep(rng),
                                         electric_current_duration=H.rtime(rng, False, 20000),
                                         electric_current_force_trigger_interval=H.rtime(rng, True, 20000)),
    }[kind]()
    if kind in ("FerventDrain",):
        base = dict(id=base["id"], name=base["name"])
    if kind == "FrostEffect":
        base = dict(id=base["id"])
    return cls(**base, **kw)


def dyadic_variant(component):
    """The shipped ChainLightningVI has electric_current_prob 0.2 (binary64 accumulation is not exact): the
    correspondence runs the same instance with the nearest dyadic probability."""
    if kind_of(component) == "ChainLightningVI" and Fraction(float(component.electric_current_prob)).denominator > 64:
        return component.model_copy(update={"electric_current_prob": round(component.electric_current_prob * 8) / 8})
    return component


def bound_defaults(rng, kind, astat):
    """Entities the class reaches through `binds` (not part of get_default_state)."""
    from simaple.simulate.component import entity as E
    from simaple.simulate.component.specific.archmagefb import FerventDrainStack
    from simaple.simulate.component.specific.bishop import DivineMark
    from simaple.simulate.global_property import Dynamics
    out = {"dynamics": Dynamics(stat=astat)}
    if kind in BISHOP:
        out["divine_mark"] = DivineMark()
    if kind in TC:
        out["frost_stack"] = E.Stack(maximum_stack=5)
    if kind in ("ThunderAttack", "ThunderBreak", "ChainLightningVI"):
        out["jupyter_thunder_shock"] = E.Periodic(interval=120.0, time_left=0.0)
    if kind == "InfernalVenom":
        out["drain_stack"] = FerventDrainStack(count=5, max_count=5)
    return out


def default_state(rng, component, astat):
    kind = kind_of(component)
    _c, st, _r = classes(kind)
    ents = {k: v.model_copy(deep=True) for k, v in component.get_default_state().items()}
    b = bound_defaults(rng, kind, astat)
    if kind in ("FerventDrain", "FrostEffect"):
        b.pop("dynamics")
    for k, v in b.items():
        ents.setdefault(k, v)
    return st(**ents)


def perturb_bound(rng, state):
    """What the other components of the job do to the bound entities between two actions."""
    from simaple.simulate.component import entity as E
    s = state.model_copy(deep=True)
    f = type(s).model_fields
    if "divine_mark" in f and rng.random() < 0.5:
        s.divine_mark.advantage = None if rng.random() < 0.3 else _stat(rng.choice(MARKS))
    if "frost_stack" in f and type(s).__name__ != "FrostEffectState" and rng.random() < 0.6:
        s.frost_stack.stack = rng.randint(0, s.frost_stack.maximum_stack)
    if "jupyter_thunder_shock" in f and rng.random() < 0.5:
        s.jupyter_thunder_shock.time_left = rng.choice([0.0, 0.0, 30000.0, H.rtime(rng, True, 30000)])
    if "drain_stack" in f and rng.random() < 0.2:
        s.drain_stack.count, s.drain_stack.max_count = rng.choice([(5, 5), (10, 10), (3, 5), (7, 5)])
    return s


def random_periodic(rng, e):
    if rng.random() < 0.75:
        e.time_left = rng.choice([0.0, H.rtime(rng, True, 60000)])
        e.interval_counter = rng.choice([e.interval, max(0.25, min(e.interval, H.rtime(rng, False, 5000))), H.rtime(rng, False, 3000)])
        e.count = rng.randint(0, 7)


def random_state(rng, component, astat):
    """A well-formed (not necessarily reachable) state."""
    from simaple.simulate.component import entity as E
    kind = kind_of(component)
    s = perturb_bound(rng, default_state(rng, component, astat))
    for name in type(s).model_fields:
        e = getattr(s, name)
        if isinstance(e, E.Cooldown):
            e.time_left = rng.choice([-500.0, 0.0, 0.25, H.rtime(rng)])
        elif isinstance(e, E.Lasting):
            e.assigned_duration = H.rtime(rng)
            e.time_left = rng.choice([-30.0, 0.0, 0.5, e.assigned_duration, min(e.assigned_duration, H.rtime(rng))])
        elif isinstance(e, E.Periodic) and name == "periodic":
            random_periodic(rng, e)
            if kind in ("JupyterThunder", "ThunderBreak") and rng.random() < 0.7:
                # reachable shape: a schedule that reached its cap has been disabled
                e.count = rng.randint(0, component.max_count + 1)
                if e.count >= component.max_count:
                    e.time_left = 0.0
        elif isinstance(e, E.Stack) and name in ("stack", "punishing_stack"):
            # boundary-biased: the guards on stacks compare with 0, a threshold (FlameSwipVI.explode: 3) and the maximum
            e.stack = rng.choice([0, 1, max(0, e.maximum_stack - 1), e.maximum_stack, e.maximum_stack, rng.randint(0, e.maximum_stack)])
        elif type(e).__name__ == "PoisonNovaEntity":
            e.time_left = rng.choice([0.0, -250.0, 4000.0, H.rtime(rng, True, 120000), e.maximum_time_left, e.maximum_time_left + 30.0])
        elif type(e).__name__ == "CurrentField":
            n = rng.randint(0, max(0, e.max_count))
            ps = []
            for _ in range(n):
                p = E.Periodic(interval=e.field_interval, initial_counter=e.field_interval)
                p.time_left = H.rtime(rng, False, max(1, int(e.field_duration)))
                p.interval_counter = max(0.25, min(e.field_interval, H.rtime(rng, False, 5000)))
                p.count = rng.randint(0, 4)
                ps.append(p)
            e.field_periodics = ps
            e.last_force_triggered = rng.choice([0.0, H.rtime(rng, True, 20000), e.force_trigger_interval])
            e.stable_rng_counter = float(rng.choice([0, 0.125, 0.5, 0.75, 0.875]))
        elif type(e).__name__ == "FerventDrainStack" and kind == "FerventDrain":
            e.count, e.max_count = rng.choice([(5, 5), (10, 10), (3, 5), (7, 5), (0, 5)])
    if kind == "FrostEffect":
        s.frost_stack.stack = rng.randint(0, max(0, s.frost_stack.maximum_stack))
    return s


def payload_for(rng, meth, comp=None, state=None):
    if meth != "elapse":
        return None
    # times related to the schedule of the component, so that elapses tick 0, 1, several and past-the-end times
    base = None
    if comp is not None:
        for f in ("periodic_interval", "electric_current_interval", "increase_interval"):
            if hasattr(comp, f):
                base = float(getattr(comp, f))
    if base is not None and base * 8 < 2 ** 30 and rng.random() < 0.6:
        return float(rng.choice([base / 2, base / 2, base, base, base * 1.5, base * 2, base * 2, base * 3, base * 5.5, base * 8, base * 12, base * 40]))
    return H.rtime(rng, True, 60000)


def generate(rng, n_random, walk_len, shipped=True):
    pool = []
    # the classes with schedules, loops and lists get twice the instances
    kinds = list(SPEC) + ["JupyterThunder", "ThunderBreak", "ChainLightningVI", "PoisonChain", "DivineMinion"]
    for i in range(n_random):
        kind = kinds[i % len(kinds)]
        pool.append((random_component(rng, kind), H.random_action_stat(rng), "random"))
    if shipped:
        for job in SHIPPED_JOBS:
            for variant in ((0, 2) if n_random < 500 else (0, 1, 2)):
                comps, astat = H.shipped_components(job, variant)
                for c in comps:
                    if kind_of(c):
                        pool += [(dyadic_variant(c), astat, "shipped")] * (1 if n_random < 500 else 5)
    for comp, astat, origin in pool:
        kind = kind_of(comp)
        _cls, _st, reds = classes(kind)
        scenario = rng.random() < 0.5      # use first, then mostly elapses: the schedule is alive
        state = default_state(rng, comp, astat) if (scenario or rng.random() < 0.4) else random_state(rng, comp, astat)
        if scenario:
            state = perturb_bound(rng, state)
        n = walk_len if reds else 2
        for step in range(n):
            if not reds:
                meth = None
            elif scenario and step == 0 and "use" in reds:
                meth = "use"
            elif scenario and "elapse" in reds and rng.random() < 0.7:
                meth = "elapse"
            else:
                meth = rng.choice(reds + (["elapse"] if "elapse" in reds else []) + (["use"] if "use" in reds else []))
            payload = payload_for(rng, meth, comp, state)
            yield comp, meth, state, payload, origin
            if meth is not None:
                try:
                    state, _ev = getattr(comp, meth)(payload, state)
                except Exception:
                    break
            r = rng.random()
            if meth is None or (not scenario and r < 0.15):
                state = random_state(rng, comp, astat)
            elif r < 0.5:
                state = perturb_bound(rng, state)


# ------------------------------------------------------------------ encoding
class Enc(H.Enc):
    def __init__(self):
        super().__init__()
        self.stats = {}      # json dump of a Stat -> (code, Stat)

    def stat_code(self, stat) -> int:
        """Codes of mark advantages; the empty Stat is 0."""
        from simaple.core.base import Stat
        if stat == Stat():
            return 0
        k = json.dumps(stat.model_dump(), sort_keys=True)
        if k not in self.stats:
            self.stats[k] = (len(self.stats) + 1, stat)
        return self.stats[k][0]


def all_times(component, state):
    """Every time-valued number of a state (for the tick scale)."""
    from simaple.simulate.component import entity as E
    out = []
    for name in type(state).model_fields:
        e = getattr(state, name)
        if isinstance(e, E.Cooldown):
            out += [e.time_left]
        elif isinstance(e, E.Lasting):
            out += [e.time_left, e.assigned_duration]
        elif isinstance(e, E.Periodic):
            out += [e.interval, e.interval_counter, e.time_left] + ([e.initial_counter] if e.initial_counter is not None else [])
        elif type(e).__name__ == "PoisonNovaEntity":
            out += [e.time_left, e.maximum_time_left]
        elif type(e).__name__ == "CurrentField":
            out += [e.field_interval, e.field_duration, e.last_force_triggered, e.force_trigger_interval]
            for p in e.field_periodics:
                out += [p.interval, p.interval_counter, p.time_left]
    return out


def applied(component, state):
    kind = kind_of(component)
    dyn = getattr(state, "dynamics", None)
    cdA = dyn.stat.calculate_cooldown(component.cooldown_duration) if dyn is not None else 0.0
    lastraw = float(getattr(component, "lasting_duration", 0.0))
    last = lastraw
    if kind == "Infinity" and component.apply_buff_duration:
        last = dyn.stat.calculate_buff_duration(lastraw)
    return cdA, last, lastraw


def par_times(component, state):
    cdA, last, lastraw = applied(component, state)
    out = [getattr(component, "delay", 0.0), cdA, last, lastraw]
    for f in ("dot_lasting_duration", "nova_remaining_time", "increase_interval"):
        if hasattr(component, f):
            out.append(getattr(component, f))
    return out


def value_scale(values):
    sc = 1
    for v in values:
        f = Fraction(float(v))
        sc = max(sc, f.denominator)
        if abs(f) >= 2 ** 30:
            raise H.OffGrid("value magnitude %r" % v)
    if sc > 2 ** 12:
        raise H.OffGrid("value denominator %d" % sc)
    return sc


def table_for(enc, component, state, out):
    kind = kind_of(component)
    if kind == "PoisonChain":
        top = max(state.stack.stack, state.stack.maximum_stack, out.stack.stack) + 2
        if state.stack.stack < 0 or top > 60:
            raise H.OffGrid("stack outside the table")
        return [enc.code(component.periodic_damage + component.periodic_damage_increment * k) for k in range(top + 1)]
    if kind == "ThunderBreak":
        top = max(state.periodic.count, out.periodic.count, component.max_count) + 3
        if state.periodic.count < 0 or top > 80:
            raise H.OffGrid("count outside the table")
        return [enc.code(component.periodic_damage * component.decay_rate ** k) for k in range(top + 1)]
    return []


def enc_xpar(enc, component, state, out, sc, vs) -> str:
    kind = kind_of(component)
    T = lambda v: _z(int(Fraction(float(v)) * sc))
    V = lambda v: _z(int(Fraction(float(v)) * vs))
    dh = lambda d, h: "(%d, %d)" % (enc.code(d), enc.code(h))
    g = lambda f, dflt=0.0: getattr(component, f, dflt)
    cdA, last, lastraw = applied(component, state)
    dmg = dh(g("first_damage"), g("first_hit")) if kind == "InfernalVenom" else dh(g("damage"), g("hit"))
    pd1 = dh(g("electric_current_damage"), g("electric_current_hit")) if kind == "ChainLightningVI" else dh(g("periodic_damage"), g("periodic_hit"))
    dmg2, fin = "(0, 0)", "(0, 0)"
    if kind == "HexaAngelRay":
        dmg2 = dh(component.punishing_damage, component.punishing_hit)
    elif kind == "PoisonNova":
        dmg2 = dh(component.nova_damage, component.nova_single_hit * min(component.nova_hit_count, 3))
        fin = dh(component.nova_damage * 0.5, component.nova_single_hit * max(component.nova_hit_count - 3, 0))
    elif kind == "InfernalVenom":
        dmg2 = dh(component.second_damage, component.second_hit)
    elif kind == "FlameSwipVI":
        dmg2 = dh(component.explode_damage, component.explode_hit)
    par = ("(mkPar %s %s %s %s 0 %s %s %d%%nat [] %s (0, 0) (0, 0) %s 0 %s 0 0 %s 0 (%d, %s))" % (
        "true" if g("disable_validity", False) else "false", dmg, T(g("delay")), T(cdA), T(last), T(lastraw),
        max(0, int(g("multiple", 0))), pd1, fin, dmg2, _z(int(g("max_count", 0))), enc.code(g("dot_damage")), T(g("dot_lasting_duration"))))
    hasbuff = {"DivineAttack": lambda: component.synergy is not None, "DivineMinion": lambda: component.stat is not None}.get(kind, lambda: False)()
    mark = enc.stat_code(component.mark_advantage) if kind == "DivineMinion" else 0
    tbl = "[" + "; ".join(str(x) for x in table_for(enc, component, state, out)) + "]"
    return "(mkXP %s %s %s %s %s %s %s %s %s %s %s %s)" % (
        par, _z(mark), "true" if hasbuff else "false", tbl, _z(int(g("stack_resolve_amount", 0))), T(g("nova_remaining_time")),
        V(g("electric_current_prob")) if kind == "ChainLightningVI" else "0", _z(vs),
        T(g("increase_interval", 1.0)) if kind == "Infinity" else "1",
        V(g("default_final_damage")), V(g("final_damage_increment")), V(g("maximum_final_damage")))


BIGP = "(P.mkP 1000000000 1 0 0)"


def enc_xst(enc, state, sc, vs) -> str:
    from simaple.simulate.component import entity as E
    T = lambda v: _z(int(Fraction(float(v)) * sc))
    V = lambda v: _z(int(Fraction(float(v)) * vs))
    f = {n: getattr(state, n) for n in type(state).model_fields}

    def per(p):
        return "(P.mkP %s %s %s %s)" % (T(p.interval), T(p.interval_counter), T(p.time_left), _z(int(p.count)))
    cd, las, p1 = f.get("cooldown"), f.get("lasting"), f.get("periodic")
    u = "(U %s %s %s %s %s)" % (
        T(cd.time_left) if cd else "0", T(las.time_left) if las else "0", T(las.assigned_duration) if las else "0",
        per(p1) if p1 else BIGP,
        "None" if (p1 is None or p1.initial_counter is None) else "(Some %s)" % T(p1.initial_counter))
    stk = f.get("stack") or f.get("punishing_stack")
    S = lambda s: "(mkStk %s %s)" % (_z(int(s.stack)), _z(int(s.maximum_stack))) if s is not None else "(mkStk 0 0)"
    mk = f.get("divine_mark")
    mark = "None" if (mk is None or mk.advantage is None) else "(Some %s)" % _z(enc.stat_code(mk.advantage))
    if mk is not None and mk.advantage is not None and enc.stat_code(mk.advantage) == 0:
        raise H.OffGrid("a mark holding the empty Stat is not distinguished from its code")
    shock = f.get("jupyter_thunder_shock")
    dr = f.get("drain_stack")
    nv = f.get("poison_nova")
    cf = f.get("current_fields")
    if cf is not None:
        for p in cf.field_periodics:
            if p.initial_counter != p.interval:
                raise H.OffGrid("field schedule with a foreign initial counter")
        cfs = "(mkCF [%s] %s %s %s %s %s %s)" % ("; ".join(per(p) for p in cf.field_periodics), T(cf.field_interval), T(cf.field_duration),
                                               _z(int(cf.max_count)), T(cf.last_force_triggered), T(cf.force_trigger_interval), V(cf.stable_rng_counter))
    else:
        cfs = "(mkCF [] 1 1 1 0 0 0)"
    return "(mkX %s %s %s %s %s %s %s %s)" % (
        u, S(stk), mark, S(f.get("frost_stack")), per(shock) if shock else BIGP,
        "(mkDrain %s %s)" % (_z(int(dr.count)), _z(int(dr.max_count))) if dr else "(mkDrain 0 0)",
        "(mkNova %s %s)" % (T(nv.time_left), T(nv.maximum_time_left)) if nv else "(mkNova 0 0)", cfs)


def decode_modifier(enc, kind, component, pm):
    """The event's modifier dict -> None (no modifier), (m1, m2), 'either' (no modifier or the empty one: the
    component's own default modifier makes the two indistinguishable) or 'unknown'."""
    from simaple.core.base import Stat
    cm = component.modifier if hasattr(component, "modifier") else None
    if pm is None:
        return None
    if cm is not None and pm == cm.model_dump():
        return "either"
    cands = []
    if kind in BISHOP:
        cands = [((0, 0), Stat())] + [((c, 0), s) for c, s in enc.stats.values()]
    elif kind in TC:
        for n in range(-2, 40):
            for shock in (0, 1):
                m = Stat(damage_multiplier=n * 12) if n != 0 else Stat()
                if shock:
                    m = m + Stat(final_damage_multiplier=12)
                cands.append(((n, shock), m))
    for code, m in cands:
        tot = m if cm is None else m + cm
        if tot.model_dump() == pm:
            return code
    return "unknown"


def enc_events(enc, events, component, sc):
    from simaple.simulate.reserved_names import Tag
    kind = kind_of(component)
    T = lambda v: _z(int(Fraction(float(v)) * sc))
    out, problems = [], []
    if events is None:
        events = []
    if isinstance(events, dict):
        events = [events]
    for e in events:
        tag = e["tag"]
        if e["name"] != component.name:
            problems.append("event name %r is not the component's name" % e["name"])
        if tag == Tag.REJECT:
            out.append("XE EReject")
        elif tag == Tag.DAMAGE:
            d, h = enc.code(e["payload"]["damage"]), enc.code(e["payload"]["hit"])
            m = decode_modifier(enc, kind, component, e["payload"].get("modifier"))
            if m is None:
                out.append("XE (EDealt %d %d)" % (d, h))
            elif m == "either":
                out.append("XDealtM %d %d (-1) (-1)" % (d, h))
            elif m == "unknown":
                problems.append("damage event with a modifier the model does not know: %r" % (e["payload"].get("modifier"),))
                out.append("XE EReject")
            else:
                out.append("XDealtM %d %d %s %s" % (d, h, _z(m[0]), _z(m[1])))
        elif tag == Tag.DELAY:
            out.append("XE (EDelay %s)" % T(e["payload"]["time"]))
        elif tag == Tag.ELAPSED:
            out.append("XE (EElapsed %s)" % T(e["payload"]["time"]))
        elif tag == Tag.MOB and e.get("method") == "add_dot":
            out.append("XE (EMobDot %d %s)" % (enc.code(e["payload"]["damage"]), T(e["payload"]["lasting_time"])))
            if e["payload"].get("name") != component.name:
                problems.append("dot payload name is not the component's name")
        else:
            problems.append("unmodelled event tag %r" % (tag,))
            out.append("XE EReject")
    return "[" + "; ".join(out) + "]", problems, events


def enc_views(enc, component, state, sc, vs):
    from simaple.core.base import Stat
    kind = kind_of(component)
    T = lambda v: _z(int(Fraction(float(v)) * sc))
    views = type(component).__views__
    times = []
    if "validity" in views:
        v = component.validity(state)
        val = "(Some (mkV %s %s %s))" % ("true" if v.valid else "false", T(v.time_left), "None" if v.stack is None else "(Some %s)" % _z(int(v.stack)))
        times.append(v.time_left)
    else:
        val = "None"
    if "running" in views:
        r = component.running(state)
        run = "(Some (mkR %s %s %s))" % (T(r.time_left), T(r.lasting_duration), "None" if r.stack is None else "(Some %s)" % _z(int(r.stack)))
        times += [r.time_left, r.lasting_duration]
    else:
        run = "None"
    if "buff" in views:
        b = component.buff(state)
        if b is None:
            buff = "None"
        elif kind == "Infinity":
            x = Fraction(float(b.final_damage_multiplier)) * vs
            buff = "(Some %s)" % _z(int(x) if (x.denominator == 1 and b == Stat(final_damage_multiplier=b.final_damage_multiplier)) else -7)
        elif kind == "DivineAttack":
            buff = "(Some %s)" % _z(1 if b == component.synergy else -7)
        elif kind == "DivineMinion":
            buff = "(Some %s)" % _z(1 if b == component.stat else -7)
        elif kind == "HexaAngelRay":
            buff = "(Some %s)" % _z(1 if b == component.synergy else -7)
        elif kind == "FerventDrain":
            x = Fraction(float(b.final_damage_multiplier))
            buff = "(Some %s)" % _z(int(x) if (x.denominator == 1 and b == Stat(final_damage_multiplier=b.final_damage_multiplier)) else -7)
        elif kind == "FrostEffect":
            ok = b == Stat(critical_damage=component.critical_damage_per_stack * state.frost_stack.stack)
            buff = "(Some %s)" % _z(int(state.frost_stack.stack) if ok else -7)
        else:
            buff = "(Some (-7))"
    else:
        buff = "None"
    return "(%s, %s, %s)" % (val, run, buff), times


def unchanged_bound(component, state, out):
    """Parts of bound entities the model does not carry must come back untouched."""
    problems = []
    for n in ("jupyter_thunder_shock", "dynamics"):
        if hasattr(state, n) and getattr(out, n).model_dump() != getattr(state, n).model_dump():
            problems.append("%s changed by a reducer" % n)
    return problems


def encode_case(enc, component, meth, state, payload, out, events):
    kind = kind_of(component)
    t = float(payload) if meth == "elapse" else 0.0
    ev_txt_times = H.event_times(events if isinstance(events, list) else ([events] if events else []))
    times = all_times(component, state) + all_times(component, out) + par_times(component, state) + [t] + ev_txt_times
    if kind in ("FerventDrain", "FrostEffect"):
        times = []
    sc = H.scale_of(times)
    vals = []
    if kind == "Infinity":
        vals = [component.default_final_damage, component.final_damage_increment, component.maximum_final_damage]
    if kind == "ChainLightningVI":
        vals = [component.electric_current_prob, state.current_fields.stable_rng_counter, out.current_fields.stable_rng_counter]
    vs = value_scale(vals)
    vexp, vt = enc_views(enc, component, state, sc, vs)
    if kind not in ("FerventDrain", "FrostEffect"):
        sc2 = H.scale_of(times + vt)
        if sc2 != sc:
            sc = sc2
            vexp, vt = enc_views(enc, component, state, sc, vs)
    # intern the Stats that may appear as marks before decoding events
    for s_ in (state, out):
        mk = getattr(s_, "divine_mark", None)
        if mk is not None and mk.advantage is not None:
            enc.stat_code(mk.advantage)
    if kind == "DivineMinion":
        enc.stat_code(component.mark_advantage)
    par = enc_xpar(enc, component, state, out, sc, vs)
    sin = enc_xst(enc, state, sc, vs)
    vtxt = "xchkv %s %s %s %s" % (kind, par, sin, vexp)
    if meth is None:
        return None, vtxt, []
    evs, problems, _ = enc_events(enc, events, component, sc)
    problems += unchanged_bound(component, state, out)
    T = _z(int(Fraction(t) * sc))
    ctxt = "xchk %s %s %s %s %s %s %s" % (kind, METH[meth], par, T, sin, enc_xst(enc, out, sc, vs), evs)
    return ctxt, vtxt, problems


HEADER = ("From Coq Require Import ZArith List Bool.\nFrom V.Model Require Import Comp SpecMage SpecMageCorr.\nFrom V.Lib Require Import Corr.\n"
          "Import ListNotations.\nOpen Scope Z_scope.\n")


def shard_text(cases_txt, views_txt):
    return (HEADER + "Eval vm_compute in (bad [\n" + ";\n".join(cases_txt) + "\n]).\n"
            "Eval vm_compute in (bad [\n" + ";\n".join(views_txt) + "\n]).\n")


def jsafe(x):
    return json.loads(json.dumps(x, default=str))


def cases(ctx, rng, quick, shard_size=350):
    """-> (shards, infos, stats); see entitycheck.extensions."""
    replayed = known_replay(ctx)
    enc = Enc()
    rows = []     # (case text or None, view text, info)
    hist = collections.Counter()
    offgrid = raised = 0
    distinct = set()
    shape = []
    for comp, meth, state, payload, origin in generate(rng, 105 if quick else 1050, 8 if quick else 12):
        try:
            if meth is None:
                out, events, pp = state, [], []
            else:
                out, events, pp = H.run_case(comp, meth, state, payload)
        except Exception:
            raised += 1
            continue
        try:
            c, v, p2 = encode_case(enc, comp, meth, state, payload, out, events)
        except H.OffGrid:
            offgrid += 1
            continue
        info = {"class": type(comp).__name__, "reducer": meth or "(views)", "payload": payload, "origin": origin,
                "component": jsafe(comp.model_dump()), "state": H.dump_state(state)}
        for p in list(pp) + list(p2):
            shape.append(dict(info, what=p))
        rows.append((c, v, info))
        evl = events if isinstance(events, list) else ([events] if events else [])
        rej = any(e["tag"] == "global.reject" for e in evl)
        hist["%s.%s%s%s" % (kind_of(comp), meth or "views", "(rejected)" if rej else "", "[shipped]" if origin == "shipped" else "")] += 1
        distinct.add((c, v))
    shards, infos = {}, {}
    # reducer rows and view rows are listed separately per shard; a views-only row has no reducer case, so each shard's
    # infos list is indexed by the reducer list first: keep both lists aligned by giving views-only rows a trivially true case
    for k in range(0, len(rows), shard_size):
        chunk = rows[k:k + shard_size]
        name = "ext_mage_%s_%03d" % (ctx.prop.lower(), k // shard_size)
        shards[name] = shard_text([c if c is not None else "true" for c, _v, _i in chunk], [v for _c, v, _i in chunk])
        infos[name] = [i for _c, _v, i in chunk]
    if shape:
        # event-shape / purity problems are differences the model cannot express: report them through a failing shard row
        name = "ext_mage_%s_shape" % ctx.prop.lower()
        shards[name] = shard_text(["false"] * len(shape[:20]), ["true"])
        infos[name] = [dict(s, reducer="%s [%s]" % (s["reducer"], s["what"])) for s in shape[:20]]
    stats = {"cases": len(rows), "distinct": len(distinct), "offgrid_skipped": offgrid, "raised_skipped": raised,
             "histogram": dict(sorted(hist.items())), "shape_problems": len(shape), "known_findings_replayed": replayed}
    return shards, infos, stats


# ------------------------------------------------------------------ known findings of this extension
def flame_swip_witness():
    """FlameSwipVI.use on a skill that is cooling down: returns (still_failing, detail)."""
    from simaple.core.base import ActionStat
    from simaple.simulate.component.entity import Cooldown, Stack
    from simaple.simulate.component.specific.archmagefb import FlameSwipVI, FlameSwipVIState
    from simaple.simulate.global_property import Dynamics
    c = FlameSwipVI(id="x", name="x", delay=600.0, damage=100.0, hit=7, cooldown_duration=1000.0, explode_damage=10.0, explode_hit=8,
                    dot_damage=5.0, dot_lasting_duration=10000.0)
    s = FlameSwipVIState(cooldown=Cooldown(time_left=500.0), stack=Stack(stack=1, maximum_stack=3), dynamics=Dynamics(stat=ActionStat()))
    out, ev = c.use(None, s)
    rej = any(e["tag"] == "global.reject" for e in ev)
    bad = rej and (len(ev) != 1 or out.stack.stack != s.stack.stack)
    return bad, "rejected FlameSwipVI.use: events %s, stack %d -> %d" % (
        [e["tag"] + ("/" + e["method"] if e.get("method") else "") for e in ev], s.stack.stack, out.stack.stack)


def witness_replay(entry):
    """(still_failing, detail) for an entry of KNOWN_FINDINGS.json that belongs to this extension."""
    m = entry.get("match", {})
    try:
        if m.get("component") == "FlameSwipVI":
            return flame_swip_witness()
        return False, "no replay known for %r" % (m,)
    except Exception as ex:
        return False, "witness replay raised %r" % (ex,)


def known_match(entry, f):
    """Does the monitor observation `f` (entitycheck.monitor) fall under the entry?"""
    m = entry.get("match", {})
    return (f.get("component") == m.get("component") and f.get("reducer") == m.get("reducer")
            and ("changed the state" in f["what"] or "accompanied by other events" in f["what"]))


def known_replay(ctx):
    """Entries of KNOWN_FINDINGS.json with "extension": "mage": the witness of each is replayed on the implementation.
    `open` entries are printed by the property's driver (entitycheck.run_prop), which cannot replay them itself (its
    witness_replay is the StackableBuff one): a witness that no longer reproduces is reported here as a broken tie."""
    from lib.vf import load_known
    out = []
    for e in load_known(ctx.prop):
        if e.get("extension") != NAME or e.get("status") != "open":
            continue
        still, detail = witness_replay(e)
        out.append({"id": e["id"], "still_failing": still, "detail": detail})
        if not still:
            ctx.broken.append("known finding %s (extension mage) no longer reproduces on the implementation while the faithful "
                              "model still has it: %s" % (e["id"], detail))
    return out
