"""H-iso: isolation harness for C02 ("same plan, same environment, same result").

This file is BOTH a library (scenario generation, comparison, Coq rendering -- used by
tools/props/c02.py in the check process) and a worker: `python h_iso.py` reads one JSON job on
stdin and prints `@@RESULT@@<json>`.  The check process starts workers with
PYTHONPATH=<tree under test>:/verif/tools and the PYTHONHASHSEED the schedule asks for, so every
observation is made in an interpreter of its own.

A *triple* is {"id", "job", "env": provider keyword arguments (JSON), "plan": [DSL lines], "api": bool,
"baseline_plan": optional text of a shipped plan with a BaselineEnvironmentProvider header}.
Its *observation* (canonical, numbers by value):
    comps  : sha1 per built component (get_skill_components(env), model_dump)
    logs   : sha1 per operation log of the engine after executing the plan (commands, play logs,
             events, clocks, checkpoints = complete store dumps, previous hashes)
    final  : sha1 of the validity / running / buff views of the final store
    error  : the exception that stopped the plan, if any (type and text)
    api    : sha1 of simaple.api.base.run_plan(<plan text with the environment in its header>)

Worker job kinds
    alone      one triple in this (fresh) process
    batch      many triples in this process under a schedule:
                 sequential | threads | interleaved | mutate | preasked       (see run_batch)
               + digests of every reviewed process-wide object before and after
    router     record the dispatch of real engines / of synthetic routers for the Coq model
    aliasing   what a caller can reach through a Spec handed out by the repository (observation)
"""
from __future__ import annotations

import hashlib
import json
import sys
import threading
import traceback

# ====================================================================================== canonical form
def norm(x):
    """JSON value with numbers normalised by value (int 0 and float 0.0 coincide)."""
    if isinstance(x, bool) or x is None or isinstance(x, str):
        return x
    if isinstance(x, (int, float)):
        return float(x)
    if isinstance(x, dict):
        return {str(k): norm(v) for k, v in x.items()}
    if isinstance(x, (list, tuple)):
        return [norm(v) for v in x]
    if isinstance(x, (set, frozenset)):
        return sorted((norm(v) for v in x), key=lambda v: json.dumps(v, sort_keys=True, ensure_ascii=False, default=repr))
    if hasattr(x, "model_dump"):
        return norm(x.model_dump(mode="json"))
    if hasattr(x, "value") and hasattr(x, "name") and x.__class__.__module__ != "builtins":     # Enum
        return "%s.%s" % (type(x).__name__, x.name)
    return repr(x)


def canon(x) -> str:
    return json.dumps(norm(x), sort_keys=True, ensure_ascii=False, default=repr)


def sha(x) -> str:
    return hashlib.sha1(canon(x).encode()).hexdigest()


# ====================================================================================== building and running
def build_env(t):
    from simaple.container.environment_provider import MinimalEnvironmentProvider
    from simaple.core import ActionStat, JobType, Stat
    kw = dict(t["env"])
    kw["action_stat"] = ActionStat(**kw.get("action_stat", {}))
    kw["stat"] = Stat(**kw.get("stat", {}))
    return MinimalEnvironmentProvider(jobtype=JobType(t["job"]), **kw).get_simulation_environment()


def parse_lines(lines):
    from simaple.simulate.policy.parser import parse_dsl_to_command
    out = []
    for l in lines:
        out += parse_dsl_to_command(l)
    return out


def plan_text_of(env, lines):
    import yaml
    hdr = yaml.safe_dump({"author": "verif", "environment": json.loads(env.model_dump_json())}, allow_unicode=True)
    return "---\n" + hdr + "\n---\n" + "\n".join(lines)


def err_text(e) -> str:
    return "%s: %s" % (type(e).__name__, str(e)[:200])


class Run:
    """One triple being executed; split into stages so that schedules can interleave runs."""

    def __init__(self, t, want=None):
        self.t = t
        self.want = want or {}
        self.obs = {"comps": None, "logs": None, "final": None, "error": None, "api": None}
        self.detail = {}
        self.handed_out = []          # every object the public API handed out (for the mutate schedule)
        self.env = self.engine = self.cmds = None
        self.pos = 0

    def build(self):
        from simaple.container.simulation import get_operation_engine, get_skill_components
        try:
            if self.t.get("baseline_plan"):
                self._baseline()
                return
            self.env = build_env(self.t)
            comps = get_skill_components(self.env)
            dumps = [norm(c.model_dump(mode="json")) for c in comps]
            self.obs["comps"] = [sha(d) for d in dumps]
            for i in self.want.get("comps", []):
                if i < len(dumps):
                    self.detail["comps:%d" % i] = dumps[i]
            self.engine = get_operation_engine(self.env)
            self.cmds = parse_lines(self.t["plan"])
            self.handed_out += [comps, self.env]
        except Exception as e:      # noqa
            self.obs["error"] = "build: " + err_text(e)
            self.cmds = []

    def _baseline(self):
        """the path of the HTTP API: shipped plan with a provider header -> environment-augmented plan -> run_plan"""
        import simaple.api.base as api
        text = self.t["baseline_plan"]
        aug = api.provide_environment_augmented_plan(text)
        resp = api.run_plan(aug)
        dumps = [norm(r.model_dump(mode="json")) for r in resp]
        self.obs["comps"] = [sha(api.get_all_component(aug))]
        self.obs["logs"] = [sha(d) for d in dumps]
        for i in self.want.get("logs", []):
            if i < len(dumps):
                self.detail["logs:%d" % i] = dumps[i]
        self.obs["final"] = sha(aug)
        self.cmds = []
        self.handed_out += [resp]

    def step(self) -> bool:
        """execute one command; False when the plan is finished"""
        if self.engine is None or self.pos >= len(self.cmds) or self.obs["error"]:
            return False
        try:
            self.engine.exec(self.cmds[self.pos])
        except Exception as e:      # noqa
            self.obs["error"] = "command %d: %s" % (self.pos, err_text(e))
            return False
        self.pos += 1
        return self.pos < len(self.cmds)

    def finish(self):
        if self.engine is None:
            return self.obs
        try:
            logs = list(self.engine.operation_logs())
            dumps = [norm(l.model_dump(mode="json")) for l in logs]
            self.obs["logs"] = [sha(d) for d in dumps]
            self.obs["playlogs"] = sum(len(d["playlogs"]) for d in dumps)
            self.obs["damage_events"] = sum(1 for d in dumps for p in d["playlogs"] for e in p["events"] if e.get("tag") == "global.damage")
            for i in self.want.get("logs", []):
                if i < len(dumps):
                    self.detail["logs:%d" % i] = dumps[i]
            viewer = self.engine.get_current_viewer()
            views = {"validity": viewer("validity"), "running": viewer("running"), "buff": viewer("buff")}
            self.obs["final"] = sha(views)
            self.handed_out += [logs, views, self.engine.get_buffered_events()]
            if self.t.get("api"):
                import simaple.api.base as api
                resp = api.run_plan(plan_text_of(build_env(self.t), self.t["plan"]))
                self.obs["api"] = sha([r.model_dump(mode="json") for r in resp])
                self.handed_out.append(resp)
        except Exception as e:      # noqa
            self.obs["error"] = (self.obs["error"] or "") + " finish: " + err_text(e)
        return self.obs

    def all(self):
        self.build()
        while self.step():
            pass
        return self.finish()


# ====================================================================================== process-wide objects
def deep_dump(x, depth=0, seen=None):
    """Structural dump of an arbitrary object graph (bounded depth, cycles cut)."""
    import enum
    import re
    import types
    if seen is None:
        seen = set()
    if isinstance(x, (bool, int, float, str)) or x is None:
        return x
    if isinstance(x, enum.Enum):
        return "%s.%s" % (type(x).__name__, x.name)
    if isinstance(x, (type, types.FunctionType, types.BuiltinFunctionType, types.MethodType, types.ModuleType)):
        return "<%s %s>" % (type(x).__name__, getattr(x, "__qualname__", getattr(x, "__name__", "?")))
    if isinstance(x, re.Pattern):
        return "<re %s>" % x.pattern
    if id(x) in seen or depth > 12:
        return "<cut %s>" % type(x).__name__
    seen = seen | {id(x)}
    if isinstance(x, dict):
        return {"<dict>": sorted(([canon(deep_dump(k, depth + 1, seen)), deep_dump(v, depth + 1, seen)] for k, v in x.items()),
                                 key=lambda kv: kv[0])}
    if isinstance(x, (list, tuple)):
        return [deep_dump(v, depth + 1, seen) for v in x]
    if isinstance(x, (set, frozenset)):
        return {"<set>": sorted(canon(deep_dump(v, depth + 1, seen)) for v in x)}
    mod = type(x).__module__ or ""
    if mod.startswith("lark"):
        if type(x).__name__ == "Lark":
            return {"<Lark>": {"rules": sorted(repr(r) for r in x.rules), "terminals": sorted(repr(t) for t in x.terminals),
                               "start": deep_dump(x.options.start, depth + 1, seen), "parser": str(x.options.parser),
                               "lexer": str(x.options.lexer)}}
        return "<lark %s>" % type(x).__name__
    if mod.startswith(("fastapi", "starlette")):
        return "<%s routes=%s>" % (type(x).__name__, sorted(getattr(r, "path", "?") for r in getattr(x, "routes", [])))
    if hasattr(x, "model_dump") and hasattr(type(x), "model_fields"):
        d = {"<model>": type(x).__name__, "fields": deep_dump(x.model_dump(mode="python"), depth + 1, seen)}
        priv = getattr(x, "__pydantic_private__", None)
        if priv:
            d["private"] = deep_dump(dict(priv), depth + 1, seen)
        return d
    if hasattr(x, "__dict__"):
        return {"<obj>": type(x).__name__, "vars": deep_dump(dict(vars(x)), depth + 1, seen)}
    return "<%s>" % type(x).__name__


def resolve_state(module: str, qual: str, kind: str):
    """The live object behind one entry of the reviewed state list; (found, object)."""
    import importlib
    try:
        mod = importlib.import_module(module)
    except Exception:      # noqa
        return False, None
    if kind.startswith(("global:", "nonlocal:")):
        name = kind.split(":", 1)[1]
        return (name in vars(mod)), vars(mod).get(name)
    if qual.endswith("<stmt>") or kind.startswith(("import-time", "memo:", "default-arg:")):
        return False, None
    parts = qual.split(".")
    obj = vars(mod).get(parts[0], None)
    if parts[0] not in vars(mod):
        return False, None
    for i, p in enumerate(parts[1:]):
        if isinstance(obj, type) and hasattr(obj, "model_fields") and p in obj.model_fields and i == len(parts) - 2:
            return True, obj.model_fields[p].default
        if isinstance(obj, type) and p in vars(obj):
            obj = vars(obj)[p]
        elif hasattr(obj, p):
            obj = getattr(obj, p)
        else:
            return False, None
    return True, obj


def singleton_digests(state):
    out = {}
    n = {}
    for module, qual, kind in state:
        key = "%s:%s:%s" % (module, qual, kind)
        n[key] = n.get(key, 0) + 1
        if n[key] > 1:
            continue
        found, obj = resolve_state(module, qual, kind)
        if not found:
            continue
        try:
            out[key] = hashlib.sha1(json.dumps(deep_dump(obj), sort_keys=True, ensure_ascii=False, default=repr).encode()).hexdigest()
        except Exception as e:      # noqa
            out[key] = "undumpable: " + err_text(e)
    return out


def warm_singletons():
    """force the lazily filled singletons so that before/after digests compare like with like"""
    import simaple.api.base            # noqa: F401  (everything the API path imports: all component classes register now)
    import simaple.container.simulation  # noqa: F401
    import simaple.simulate.kms        # noqa: F401
    from simaple.data.jobs.builtin import get_kms_jobs_repository
    get_kms_jobs_repository()
    try:
        from simaple.gear.blueprint.potential_blueprint import PotentialTierTable
        PotentialTierTable.kms()
    except Exception:      # noqa
        pass


# ====================================================================================== mutation of handed-out objects
def _descend(v) -> bool:
    """containers and model instances handed out by value; never enum members, classes, functions, modules
    (those are shared constants of the interpreter, not values the API handed out)"""
    import enum
    import types
    if isinstance(v, (dict, list)):
        return True
    if isinstance(v, (enum.Enum, type, types.ModuleType, types.FunctionType, types.MethodType, types.BuiltinFunctionType)):
        return False
    if callable(v):
        return False
    return hasattr(v, "__dict__") and (hasattr(type(v), "model_fields") or (type(v).__module__ or "").startswith("simaple"))


def mutate_in_place(x, depth=0, seen=None, counter=None):
    """Change, in place, everything reachable from an object the API handed out."""
    if counter is None:
        counter = [0]
    if seen is None:
        seen = set()
    if x is None or id(x) in seen or depth > 8 or not _descend(x):
        return counter[0]
    seen.add(id(x))
    if isinstance(x, dict):
        for k in list(x.keys()):
            v = x[k]
            if _descend(v):
                mutate_in_place(v, depth + 1, seen, counter)
            x[k] = _scalar_twist(v)
        x["__verif_mutated__"] = 1
        counter[0] += 1
    elif isinstance(x, list):
        for i, v in enumerate(list(x)):
            if _descend(v):
                mutate_in_place(v, depth + 1, seen, counter)
            x[i] = _scalar_twist(v)
        x.reverse()
        x.append("__verif_mutated__")
        counter[0] += 1
    else:
        for k, v in list(vars(x).items()):
            if _descend(v):
                mutate_in_place(v, depth + 1, seen, counter)
            try:
                object.__setattr__(x, k, _scalar_twist(v))
                counter[0] += 1
            except Exception:      # noqa
                pass
    return counter[0]


def _scalar_twist(v):
    if isinstance(v, bool):
        return not v
    if isinstance(v, (int, float)):
        return v * 3 + 7
    if isinstance(v, str):
        return v + "~"
    return v


def mutate_spec_level(job, env):
    """Objects handed out below the simulation API: repository copies (attributes re-assigned -- what a
    shallow copy protects), and the dicts Spec.interpret returns under the patch chain of build_skills
    (changed deeply: they must be rebuilt values)."""
    from simaple.data.jobs.builtin import get_kms_jobs_repository, get_kms_skill_loader, get_skill_profile
    from simaple.data.jobs.patch import (HexaSkillImprovementPatch, PassiveHyperskillPatch, SkillImprovementPatch,
                                         SkillLevelPatch, VSkillImprovementPatch)
    from simaple.spec.patch import ArithmeticPatch
    n = 0
    repo = get_kms_jobs_repository()
    profile = get_skill_profile(env.jobtype)
    loader = get_kms_skill_loader()
    for group in profile.get_groups():
        specs = repo.get_all(kind="Component", group=group)
        ref = {"character_level": env.level, "weapon_attack_power": env.weapon_attack_power,
               "weapon_pure_attack_power": env.weapon_pure_attack_power, "combat_orders_level": env.combat_orders_level,
               "passive_skill_level": env.passive_skill_level}
        ref.update({"character_stat.%s" % k: v for k, v in env.character.stat.model_dump().items()})
        patches = [SkillLevelPatch(combat_orders_level=env.combat_orders_level, passive_skill_level=env.passive_skill_level,
                                   default_skill_levels=env.skill_levels),
                   ArithmeticPatch(variables=ref),
                   VSkillImprovementPatch(improvements=profile.get_filled_v_improvements(env.v_improvements_level)),
                   HexaSkillImprovementPatch(improvements=env.hexa_improvement_levels),
                   PassiveHyperskillPatch(hyper_skills=loader.load_all(query={"group": group, "kind": "PassiveHyperskill"})),
                   SkillImprovementPatch(improvements=[])]
        for sp in specs:
            if sp.patch:        # without patches interpret returns a shallow copy of the stored dict (see `aliasing`)
                try:
                    data = sp.interpret(patches)
                    n += mutate_in_place(data)
                except Exception:      # noqa
                    pass
            sp.kind = "Mutated"
            sp.version = "x/Mutated"
            sp.data = {"mutated": True}
            sp.patch = None
            n += 4
        specs.reverse()
        specs.append(None)
    mutate_in_place(profile)
    return n + 1


# ====================================================================================== schedules
def run_batch(job):
    triples = job["triples"]
    mode = job["mode"]
    want = job.get("want", {})
    state = [tuple(s) for s in job.get("state", [])]
    res = {"obs": {}, "detail": {}, "notes": {}}
    warm_singletons()
    before = singleton_digests(state)

    def done(r: Run):
        res["obs"][r.t["id"]] = r.obs
        if r.detail:
            res["detail"][r.t["id"]] = r.detail

    if mode == "sequential":
        for t in triples:
            r = Run(t, want.get(t["id"]))
            r.all()
            if not t.get("noise"):
                done(r)
    elif mode == "threads":
        lock = threading.Lock()
        nthreads = job.get("threads", 8)
        errors = []

        def work(ts):
            for t in ts:
                try:
                    r = Run(t, want.get(t["id"]))
                    r.all()
                    with lock:
                        if not t.get("noise"):
                            done(r)
                except BaseException as e:      # noqa
                    with lock:
                        errors.append(err_text(e))
        ths = [threading.Thread(target=work, args=(triples[i::nthreads],)) for i in range(nthreads)]
        for th in ths:
            th.start()
        for th in ths:
            th.join()
        res["notes"]["thread_errors"] = errors
    elif mode == "interleaved":
        runs = [Run(t, want.get(t["id"])) for t in triples]
        for r in runs:                 # all engines exist before the first command of any plan
            r.build()
        live = list(runs)
        rounds = 0
        while live:
            live = [r for r in live if r.step()]
            rounds += 1
        for r in reversed(runs):
            r.finish()
            if not r.t.get("noise"):
                done(r)
        res["notes"]["rounds"] = rounds
    elif mode == "mutate":
        muts = 0
        for t in triples:
            r = Run(t)
            r.all()
            for o in r.handed_out:
                muts += mutate_in_place(o)
            if r.env is not None:
                try:
                    muts += mutate_spec_level(t["job"], build_env(t))
                except Exception as e:      # noqa
                    res["notes"].setdefault("spec_level_errors", []).append(err_text(e))
            r2 = Run(t, want.get(t["id"]))   # the same triple again, from fresh inputs, after the mutations
            r2.all()
            if not t.get("noise"):
                done(r2)
        res["notes"]["mutations"] = muts
    elif mode == "preasked":
        # the SAME engine is first asked something else (other plan of the batch for that job), taken back
        # to its initial log, then runs the plan: warm route cache, used components
        by_job = {}
        for t in triples:
            by_job.setdefault(t["job"], []).append(t)
        for k, t in enumerate(triples):
            r = Run(t, want.get(t["id"]))
            r.build()
            if r.engine is not None and not t.get("baseline_plan"):
                others = [o for o in by_job[t["job"]] if o["id"] != t["id"] and not o.get("baseline_plan")]
                other = others[k % len(others)] if others else t
                initial = list(r.engine.operation_logs())
                try:
                    for c in parse_lines(other["plan"]):
                        r.engine.exec(c)
                except Exception:      # noqa
                    pass
                if k % 2 == 0:
                    r.engine.rollback(0)
                else:
                    r.engine.reload(initial)
            while r.step():
                pass
            r.finish()
            if not t.get("noise"):
                done(r)
    else:
        raise ValueError("unknown schedule %r" % mode)
    res["singletons_before"] = before
    res["singletons_after"] = singleton_digests(state)
    return res


def run_alone(job):
    state = [tuple(s) for s in job.get("state", [])]
    r = Run(job["triple"], job.get("want", {}).get(job["triple"]["id"]))
    r.all()
    out = {"obs": {job["triple"]["id"]: r.obs}, "detail": {job["triple"]["id"]: r.detail} if r.detail else {}}
    if job.get("dump_singletons"):
        warm_singletons()
        out["singletons_after"] = singleton_digests(state)
    return out


# ====================================================================================== router recording
class StopRecording(Exception):
    pass


def record_engine(t, cap):
    """Run the triple on a real engine whose router records every dispatch; return the case for the Coq model."""
    from simaple.container.simulation import get_operation_engine
    from simaple.simulate.base import Dispatcher, RouterDispatcher, TandemDispatcher, message_signature
    from simaple.simulate.component.base import ContextDispatcher, ReducerMethodWrappingDispatcher

    if t.get("addons"):
        # real components wired with component addons ("when <src> is used, use <dst> too"): re-entrant dispatch
        from simaple.container.simulation import get_skill_components
        from simaple.simulate.component.base import _ComponentAddon
        from simaple.simulate.kms import get_builder
        env = build_env(t)
        comps = get_skill_components(env)
        extra = {}
        names = [c.name for c in comps]
        for a, b in t["addons"]:
            a, b = sorted((a % len(comps), b % len(comps)))       # source before destination: no cycles
            if a != b and names.count(names[a]) == 1 and names.count(names[b]) == 1:
                extra.setdefault(a, []).append(_ComponentAddon(when="use", destination=names[b], method="use", payload={}))
        first = ['CAST "%s"' % comps[i].name for i in sorted(extra)[:6]]      # make sure wired components are used
        comps = [c.model_copy(update={"addons": list(c.addons) + extra[i]}) if i in extra else c for i, c in enumerate(comps)]
        engine = get_builder(comps, env.character.action_stat).build_operation_engine()
        t = dict(t)
        t["plan"] = first + list(t["plan"])
    else:
        engine = get_operation_engine(build_env(t))
    router = engine._router
    if type(router) is not RouterDispatcher:
        raise TypeError("engine router is %s" % type(router).__name__)
    rec = {"calls": [], "cur": None, "depth": 0, "concat_ok": True, "nested": 0}
    owner = {}

    class RecBase(Dispatcher):
        def __init__(self, idx, inner):
            self._idx, self._inner = idx, inner

        def __call__(self, action, store):
            sig = message_signature(action)
            k = None
            if rec["cur"] is not None:
                k = sum(1 for i, _s in rec["cur"]["trace"] if i == self._idx)     # occurrence of this primitive within the top-level dispatch
                rec["cur"]["trace"].append((self._idx, sig))
            evs = self._inner(action, store)
            if rec["cur"] is not None:
                rec["cur"]["produced"] += [id(e) for e in evs]
                rec["cur"]["keep"] += evs
                if any(e.get("tag") == "global.reject" for e in evs):
                    rec["cur"]["rejs"].append([self._idx, k])
            return evs

        def includes(self, signature):
            return self._inner.includes(signature)

        def init_store(self, store):
            return self._inner.init_store(store)

        def __getattr__(self, k):
            return getattr(self._inner, k)

    class RecRouter(RouterDispatcher):
        def __call__(self, action, store):
            sig = message_signature(action)
            top = rec["depth"] == 0
            if top:
                if len(rec["calls"]) >= cap:
                    raise StopRecording()
                rec["cur"] = {"sig": sig, "hit": sig in self._route_cache, "trace": [], "produced": [], "keep": [], "rejs": []}
            else:
                rec["nested"] += 1
            rec["depth"] += 1
            try:
                evs = RouterDispatcher.__call__(self, action, store)
            except BaseException:
                if top:     # the failing dispatch is part of the history: the model has to fail on it too
                    rec["calls"].append({"sig": rec["cur"]["sig"], "hit": rec["cur"]["hit"], "trace": None, "rejs": rec["cur"]["rejs"]})
                    rec["cur"] = None
                raise
            finally:
                rec["depth"] -= 1
            if top:
                cur = rec["cur"]
                # the events returned are the events of the primitive calls, concatenated in call order
                if [id(e) for e in evs] != cur["produced"]:
                    rec["concat_ok"] = False
                rec["calls"].append({"sig": cur["sig"], "hit": cur["hit"], "trace": cur["trace"], "rejs": cur["rejs"]})
                rec["cur"] = None
            return evs

    import types
    structure = []
    for i, d in enumerate(list(router._dispatchers)):
        if isinstance(d, types.FunctionType) and hasattr(d, "includes"):
            # a `named_dispatcher` function (the timer): a primitive dispatcher installed as it is
            structure.append({"base": d, "ctx": [], "tandem": False})
            router._dispatchers[i] = RecBase(i, d)
            continue
        if type(d) is not TandemDispatcher or type(d._base_dispatcher) is not ReducerMethodWrappingDispatcher:
            raise TypeError("dispatcher %d has the unrecognised shape %s" % (i, type(d).__name__))
        ctxs = []
        for c in d._next_dispatchers:
            if type(c) is not ContextDispatcher or c._context is not router:
                raise TypeError("addon of dispatcher %d is not a ContextDispatcher on this router" % i)
            ctxs.append((c._signature, message_signature(c._defined_action)))
        structure.append({"base": d._base_dispatcher, "ctx": ctxs, "tandem": True})
        d._base_dispatcher = RecBase(i, d._base_dispatcher)
    if len(router._route_cache) != 0:
        raise ValueError("route cache not empty before the first dispatch")
    router.__class__ = RecRouter
    try:
        for c in parse_lines(t["plan"]):
            engine.exec(c)
    except StopRecording:
        pass
    except Exception as e:      # noqa
        rec["error"] = err_text(e)
    universe = []
    for c in rec["calls"]:
        for s in [c["sig"]] + [s for _i, s in (c["trace"] or [])]:
            if s not in universe:
                universe.append(s)
    for st in structure:
        for w, a in st["ctx"]:
            for s in (w, a):
                if s not in universe:
                    universe.append(s)
    sid = {s: k + 1 for k, s in enumerate(universe)}
    disp = []
    for i, st in enumerate(structure):
        incl = [sid[s] for s in universe if st["base"].includes(s)]
        prim = {"t": "P", "id": i, "incl": incl, "fails": []}
        disp.append({"t": "T", "base": prim, "next": [{"t": "C", "when": sid[w], "act": sid[a]} for w, a in st["ctx"]]}
                    if st["tandem"] else prim)
    index_of = {id(d): i for i, d in enumerate(router._dispatchers)}
    cache = []
    for s in universe:
        if s in router._route_cache:
            cache.append([index_of[id(d)] for d in router._route_cache[s]])
        else:
            cache.append(None)
    extra_keys = [k for k in router._route_cache.keys() if k not in sid]
    return {
        "id": "engine:" + t["id"], "kind": "engine+addons" if t.get("addons") else "engine", "job": t["job"],
        "ops": [["I", d] for d in disp] + [["D", sid[c["sig"]], c["rejs"]] for c in rec["calls"]],
        "late": False, "universe": [sid[s] for s in universe],
        "expected": [{"hit": c["hit"], "trace": None if c["trace"] is None else [[i, sid[s]] for i, s in c["trace"]], "events": None}
                     for c in rec["calls"]],
        "cache": cache,
        "facts": {"dispatchers": len(disp), "signatures": len(universe), "top_level_dispatches": len(rec["calls"]),
                  "nested_dispatches": rec["nested"], "hits": sum(1 for c in rec["calls"] if c["hit"]),
                  "rejected_primitive_calls": sum(len(c["rejs"]) for c in rec["calls"]),
                  "primitive_calls": sum(len(c["trace"] or []) for c in rec["calls"]),
                  "events_concatenated_in_call_order": rec["concat_ok"], "cache_keys_outside_universe": extra_keys,
                  "error": rec.get("error")},
    }


def run_synthetic(sc):
    """Execute a synthetic scenario on the REAL RouterDispatcher / TandemDispatcher / ContextDispatcher."""
    from simaple.simulate.base import ConcreteStore, Dispatcher, RouterDispatcher, TandemDispatcher, message_signature
    from simaple.simulate.component.base import ContextDispatcher

    sigs = sc["sigs"]                  # id -> [name, method]   (ids are 1-based positions)

    def action(s):
        name, method = sigs[s - 1]
        return {"name": name, "method": method, "payload": None}

    sig_str = {s: message_signature(action(s)) for s in range(1, len(sigs) + 1)}
    if len(set(sig_str.values())) != len(sig_str):
        raise ValueError("synthetic signatures are not distinct")
    back = {v: k for k, v in sig_str.items()}
    log = []
    rejs = []
    router = RouterDispatcher()

    class PrimD(Dispatcher):
        def __init__(self, idx, incl, fails, rej=()):
            self.idx, self.incl, self.fails = idx, {sig_str[s] for s in incl}, {sig_str[s] for s in fails}
            self.rej = {sig_str[s] for s in rej}

        def __call__(self, action, store):
            s = message_signature(action)
            if s in self.fails:
                raise ValueError("primitive %d raises on %s" % (self.idx, s))
            k = sum(1 for i, _s in log if i == self.idx)
            log.append([self.idx, back[s]])
            if s in self.rej:            # answers with a rejection (TandemDispatcher then skips the followers)
                rejs.append([self.idx, k])
                return [{"name": str(self.idx), "payload": {}, "method": s, "tag": "global.reject", "handler": None}]
            return [{"name": str(self.idx), "payload": {}, "method": s, "tag": None, "handler": None}]

        def includes(self, signature):
            return signature in self.incl

        def init_store(self, store):
            return None

    def mk(d):
        if d["t"] == "P":
            return PrimD(d["id"], d["incl"], d["fails"], d.get("rej", ()))
        if d["t"] == "C":
            name, method = sigs[d["when"] - 1]
            return ContextDispatcher(name, method, action(d["act"]), router)
        if d["t"] == "T":
            return TandemDispatcher(mk(d["base"]), [mk(x) for x in d["next"]])
        raise ValueError(d)

    store = ConcreteStore()
    expected = []
    ops_out = []
    for op in sc["ops"]:
        if op[0] == "I":
            router.install(mk(op[1]))
            ops_out.append(op)
        else:
            s = sig_str[op[1]]
            hit = s in router._route_cache
            del log[:]
            del rejs[:]
            try:
                evs = router(action(op[1]), store)
                expected.append({"hit": hit, "trace": [list(x) for x in log],
                                 "events": [[int(e["name"]), 0 if e["tag"] == "global.reject" else back[e["method"]]] for e in evs]})
            except (Exception, RecursionError) as e:      # noqa
                expected.append({"hit": hit, "trace": None, "events": None, "raised": type(e).__name__})
            ops_out.append(["D", op[1], [list(x) for x in rejs]])      # the recorded rejections drive the model
    index_of = {id(d): i for i, d in enumerate(router._dispatchers)}
    cache = []
    for s in range(1, len(sigs) + 1):
        if sig_str[s] in router._route_cache:
            cache.append([index_of[id(d)] for d in router._route_cache[sig_str[s]]])
        else:
            cache.append(None)
    out = dict(sc)
    out["ops"] = ops_out
    out.update({"expected": expected, "cache": cache, "universe": list(range(1, len(sigs) + 1)),
                "extra_keys": [k for k in router._route_cache.keys() if k not in back]})
    return out


def run_router(job):
    out = {"cases": [], "errors": []}
    for t in job.get("engines", []):
        try:
            out["cases"].append(record_engine(t, job.get("cap", 300)))
        except Exception as e:      # noqa
            out["errors"].append("recording %s: %s" % (t["id"], err_text(e)))
    for sc in job.get("synthetic", []):
        try:
            out["cases"].append(run_synthetic(sc))
        except Exception as e:      # noqa
            out["errors"].append("synthetic %s: %s\n%s" % (sc["id"], err_text(e), traceback.format_exc()[-400:]))
    return out


# ====================================================================================== aliasing probe (observation)
def run_aliasing(job):
    from simaple.data.jobs.builtin import get_kms_jobs_repository
    repo = get_kms_jobs_repository()
    sp = repo.get(kind="Component", group=job.get("group", "archmagetc"))
    stored = [s for s in repo._db if s.data is sp.data]
    out = {"returned_is_stored_object": any(s is sp for s in repo._db),
           "returned_data_is_stored_dict": bool(stored),
           "returned_metadata_is_stored_object": any(s.metadata is sp.metadata for s in repo._db)}
    d0 = sha([s.model_dump() for s in repo._db])
    sp.kind = "Mutated"
    sp.data = {"x": 1}
    out["attribute_reassignment_reaches_store"] = sha([s.model_dump() for s in repo._db]) != d0
    sp2 = repo.get(kind="Component", group=job.get("group", "archmagetc"))
    sp2.data["__verif__"] = 1
    out["key_assignment_on_returned_data_reaches_store"] = sha([s.model_dump() for s in repo._db]) != d0
    return out


# ====================================================================================== check-process side: Coq rendering
def coq_disp(d) -> str:
    if d["t"] == "P":
        return "P %d%%N [%s] [%s]" % (d["id"], "; ".join("%d%%N" % s for s in d["incl"]), "; ".join("%d%%N" % s for s in d["fails"]))
    if d["t"] == "C":
        return "C %d%%N %d%%N" % (d["when"], d["act"])
    return "T (%s) [%s]" % (coq_disp(d["base"]), "; ".join("(%s)" % coq_disp(x) for x in d["next"]))


def coq_pairs(ps) -> str:
    return "[" + "; ".join("(%d%%N, %d%%N)" % (a, b) for a, b in ps) + "]"


def coq_case(c, fuel) -> str:
    ops = "; ".join(("I (%s)" % coq_disp(o[1])) if o[0] == "I" else
                    ("D %d%%N [%s]" % (o[1], "; ".join("(%d%%N, %d%%nat)" % (i, k) for i, k in (o[2] if len(o) > 2 else []))))
                    for o in c["ops"])
    exp = []
    for e in c["expected"]:
        if e["trace"] is None:
            exp.append("(%s, None)" % ("true" if e["hit"] else "false"))
        else:
            ev = "None" if e["events"] is None else "Some %s" % coq_pairs(e["events"])
            exp.append("(%s, Some (%s, %s))" % ("true" if e["hit"] else "false", coq_pairs(e["trace"]), ev))
    cache = "; ".join("None" if x is None else "Some [%s]" % "; ".join("%d%%nat" % i for i in x) for x in c["cache"])
    return "check %d [%s] %s [%s] [%s] [%s]" % (
        fuel, ops, "true" if c["late"] else "false", "; ".join("%d%%N" % s for s in c["universe"]), "; ".join(exp), cache)


def shard_text(cases, fuel) -> str:
    L = ["From Coq Require Import List NArith Bool.", "From V.Lib Require Import Corr.", "From V.Model Require Import Router RouterExec.",
         "Import ListNotations.", ""]
    for k, c in enumerate(cases):
        L.append("Definition case_%d : bool := %s." % (k, coq_case(c, fuel)))
    L.append("")
    L.append("Eval vm_compute in (bad [%s])." % "; ".join("case_%d" % k for k in range(len(cases))))
    return "\n".join(L) + "\n"


# ---------------------------------------------------------------------------------- synthetic scenarios
def gen_synthetic(rng, sid, allow_cycles=True):
    names = ["a", "b", "a.x"][: rng.randint(2, 3)]
    methods = ["use", "elapse", "", "use.emitted.t"][: rng.randint(2, 4)]
    pool = [(n, m) for n in names for m in methods]
    # "a" with method "x.use" and "a.x" with method "use" would have the same signature: keep signatures distinct
    seen, sigs = set(), []
    rng.shuffle(pool)
    for n, m in pool:
        s = n if m == "" else n + "." + m
        if s not in seen:
            seen.add(s)
            sigs.append([n, m])
    sigs = sigs[: rng.randint(3, 8)]
    ns = len(sigs)
    ids = list(range(1, ns + 1))
    nextid = [0]

    def prim():
        i = nextid[0]
        nextid[0] += 1
        incl = [s for s in ids if rng.random() < 0.45]
        fails = [s for s in ids if rng.random() < 0.04]
        rej = [s for s in incl if s not in fails and rng.random() < 0.25]
        return {"t": "P", "id": i, "incl": incl, "fails": fails, "rej": rej}

    def ctx(avoid_cycle_from=None):
        w = rng.choice(ids)
        a = rng.choice(ids)
        if not allow_cycles or rng.random() < 0.9:
            # acyclic by construction: an addon only triggers a signature with a larger id
            cands = [s for s in ids if s > w]
            if not cands:
                w = 1 if ns > 1 else w
                cands = [s for s in ids if s > w] or [w]
            a = rng.choice(cands)
            if a == w:
                return None
        return {"t": "C", "when": w, "act": a}

    def disp(depth=0):
        r = rng.random()
        if r < 0.35 or depth > 1:
            return prim()
        if r < 0.45:
            return ctx() or prim()
        base = prim() if rng.random() < 0.85 else disp(depth + 1)
        nx = []
        for _ in range(rng.randint(0, 3)):
            c = ctx() if rng.random() < 0.85 else disp(depth + 1)
            if c:
                nx.append(c)
        return {"t": "T", "base": base, "next": nx}

    nd = rng.randint(1, 7)
    ops = [["I", disp()] for _ in range(nd)]
    late = rng.random() < 0.35
    n_calls = rng.randint(4, 16)
    for k in range(n_calls):
        ops.append(["D", rng.choice(ids)])
        if late and rng.random() < 0.25:
            ops.append(["I", disp()])
    # `late` must be exact: an install after the first dispatch
    first_d = next(i for i, o in enumerate(ops) if o[0] == "D")
    late = any(o[0] == "I" for o in ops[first_d:])
    return {"id": "syn%04d" % sid, "kind": "synthetic", "sigs": sigs, "ops": ops, "late": late}


def json_diff(a, b, path="", out=None, limit=8):
    if out is None:
        out = []
    if len(out) >= limit:
        return out
    if type(a) != type(b):
        out.append("%s: %r != %r" % (path, a if not isinstance(a, (dict, list)) else type(a).__name__,
                                     b if not isinstance(b, (dict, list)) else type(b).__name__))
    elif isinstance(a, dict):
        for k in sorted(set(a) | set(b)):
            if k not in a:
                out.append("%s.%s: missing on the left" % (path, k))
            elif k not in b:
                out.append("%s.%s: missing on the right" % (path, k))
            else:
                json_diff(a[k], b[k], path + "." + str(k), out, limit)
            if len(out) >= limit:
                break
    elif isinstance(a, list):
        if len(a) != len(b):
            out.append("%s: length %d != %d" % (path, len(a), len(b)))
        for i, (x, y) in enumerate(zip(a, b)):
            json_diff(x, y, "%s[%d]" % (path, i), out, limit)
            if len(out) >= limit:
                break
    elif a != b:
        out.append("%s: %r != %r" % (path, a, b))
    return out


# ====================================================================================== worker entry
def main():
    job = json.loads(sys.stdin.read())
    kind = job["kind"]
    if kind == "alone":
        res = run_alone(job)
    elif kind == "batch":
        res = run_batch(job)
    elif kind == "router":
        res = run_router(job)
    elif kind == "aliasing":
        res = run_aliasing(job)
    else:
        raise ValueError(kind)
    sys.stdout.write("@@RESULT@@" + json.dumps(res, ensure_ascii=False, default=repr))


if __name__ == "__main__":
    main()
