"""Shared machinery of the component-level properties (C07, C08, C09, C10 and C06's clause).

* `model_correspondence(ctx, ...)`: H-entity — Model/Comp.v vs the real reducers/views of the
  stateful component/common classes, plus Model/EDot.v vs the mob's DOT tracker.
* `monitor(ctx, ...)`: implementation-side search on EVERY installed component of the shipped
  jobs (including the job-specific classes the model does not cover): in store states reached
  by random plans, every reducer and view is called directly and the properties are tested as
  stated. Findings are dicts {prop, what, component, reducer, ...}."""
from __future__ import annotations

import collections
import inspect
import json
import math
import random
import time

from lib import h_entity as H
from lib import simenv


# ------------------------------------------------------------------ which source lines do the correspondence cases execute?
def start_source_coverage():
    """Statement coverage of simaple/simulate/component/** while the correspondence cases run on the implementation: a line of a
    reducer / view / entity method that no case executes is a line whose behaviour is NOT tied to the model on this run (a change
    there can only be caught by the implementation-side search).  Reported in evidence; None when `coverage` is unavailable."""
    try:
        import coverage
        from lib.vf import REPO
        c = coverage.Coverage(data_file=None, include=[str(REPO / "simaple/simulate/component/*")], config_file=False)
        c.start()
        return c
    except Exception:
        return None


def stop_source_coverage(c):
    if c is None:
        return {"available": False}
    from lib.vf import REPO
    c.stop()
    out, tot_s, tot_m = {}, 0, 0
    try:
        files = sorted(c.get_data().measured_files())
        import glob
        import os
        every = sorted(glob.glob(str(REPO / "simaple/simulate/component/**/*.py"), recursive=True))
        for f in every:
            if os.path.basename(f) == "__init__.py":
                continue
            try:
                _fn, stmts, _excl, missing, _fmt = c.analysis2(f)
            except Exception:
                continue
            # module-level statements (imports, class/def headers, field declarations) run at import time, before tracing started:
            # only statements inside function bodies count
            body = _function_body_lines(f)
            stmts = [l for l in stmts if l in body]
            missing = [l for l in missing if l in body]
            if f not in files:
                missing = stmts
            if not stmts:
                continue
            rel = os.path.relpath(f, str(REPO))
            out[rel] = {"statements": len(stmts), "executed": len(stmts) - len(missing), "missing_lines": missing[:60]}
            tot_s += len(stmts)
            tot_m += len(missing)
    except Exception as ex:
        return {"available": False, "error": repr(ex)}
    return {"available": True, "function_body_statements": tot_s, "executed": tot_s - tot_m,
            "percent": round(100.0 * (tot_s - tot_m) / tot_s, 1) if tot_s else None, "files": out}


def _function_body_lines(path):
    import ast
    lines = set()
    try:
        tree = ast.parse(open(path).read())
    except Exception:
        return lines
    for node in ast.walk(tree):
        if isinstance(node, (ast.FunctionDef, ast.AsyncFunctionDef)):
            for st in node.body:
                for sub in ast.walk(st):
                    if hasattr(sub, "lineno"):
                        lines.add(sub.lineno)
    return lines


# ------------------------------------------------------------------ model correspondence
def model_correspondence(ctx, n_walks, walk_len, jobs, shard_size=400):
    rng = random.Random(ctx.seed * 31 + 7)
    enc = H.Enc()
    cases, views, info = [], [], []
    purity, extra = [], []
    hist = collections.Counter()
    offgrid = exceptions = 0
    distinct = set()
    for comp, meth, state, payload in H.generate(rng, n_walks, walk_len, jobs):
        try:
            out, events, pp = H.run_case(comp, meth, state, payload)
        except Exception as e:      # e.g. set_time_left(0): outside the model's domain
            exceptions += 1
            continue
        try:
            c, v, p2 = H.encode_case(enc, comp, meth, state, payload, out, events or [])
        except H.OffGrid:
            offgrid += 1
            continue
        desc = {"class": type(comp).__name__, "reducer": meth, "payload": payload,
                "component": json.loads(comp.model_dump_json()), "state": H.dump_state(state)}
        cases.append(c)
        views.append(v)
        info.append(desc)
        for p in pp:
            purity.append(dict(desc, what=p))
        for p in p2:
            extra.append(dict(desc, what=p))
        rej = any(e["tag"] == "global.reject" for e in (events or []))
        hist["%s.%s%s" % (H.kind_of(comp), meth, "(rejected)" if rej else "")] += 1
        distinct.add(c)
    shards = {}
    index = {}
    for k in range(0, len(cases), shard_size):
        name = "ent_%s_%03d" % (ctx.prop.lower(), k // shard_size)
        shards[name] = H.shard_text(cases[k:k + shard_size], views[k:k + shard_size])
        index[name] = k
    diffs = []
    if shards:
        ctx.build(["theories/Model/Comp.vo", "theories/Lib/Corr.vo"])
        res = ctx.coq_eval(shards)
        for name, (rc, out) in sorted(res.items()):
            b = H.parse_bad_lists(out) if rc == 0 else None
            if b is None:
                diffs.append({"kind": "shard", "what": "shard %s did not evaluate: %s" % (name, out[-300:])})
                continue
            for i in b[0]:
                diffs.append(dict(info[index[name] + i], kind="reducer", what="model and implementation disagree on the result of the reducer"))
            for i in b[1]:
                diffs.append(dict(info[index[name] + i], kind="view", what="model and implementation disagree on a view of the input state"))
    mob = mob_correspondence(ctx, 60 if not ctx.thorough else 600)
    diffs += mob["diffs"]
    stats = {"cases": len(cases), "distinct": len(distinct), "offgrid_skipped": offgrid, "raised_skipped": exceptions,
             "histogram": dict(sorted(hist.items())), "differences": len(diffs), "mob_cases": mob["cases"],
             "event_shape_problems": len(extra)}
    return diffs, purity, extra, stats, info[:2]


def mob_correspondence(ctx, n):
    from simaple.simulate.component.common.mob import DOT, MobComponent, MobState, DOTRequestPayload
    rng = random.Random(ctx.seed * 17 + 3)
    names = H.Interner() if hasattr(H, "Interner") else None
    ids = {}

    def nid(s):
        # the tracker reports its ticks in the order of the names (sorted()): the model orders the numeric ids, so the encoding must be
        # monotone in the names ("dot0" < "dot1" < ... < "dot5")
        assert s.startswith("dot") and s[3:].isdigit() and len(s) == 4, s
        return int(s[3:]) + 1
    enc = H.Enc()
    rows, info = [], []
    for _ in range(n):
        cur = {}
        for k in range(rng.randint(0, 4)):
            cur["dot%d" % rng.randint(0, 5)] = (float(rng.choice([10, 20, 20, 35.5])), float(rng.choice([0, 250, 999.75, 1000, 3000, 8000, rng.randint(0, 40000) / 4])))
        st = MobState(dot=DOT(current=dict(cur), period_time_left=float(rng.choice([1000, 0.25, 500, 999.75, rng.randint(1, 4000) / 4])), period=1000.0))
        mob = MobComponent(id="mob", name="mob")
        if rng.random() < 0.3:
            pl = DOTRequestPayload(name="dot%d" % rng.randint(0, 5), damage=float(rng.choice([10, 20, 77])), lasting_time=float(rng.choice([0, 1000, 2500.5, 8000])))
            out, _ev = mob.add_dot(pl, st)
            sc = 4
            T = lambda v: H._z(int(v * sc))
            D = lambda d: "[" + "; ".join("(%d%%N, %d, %s)" % (nid(n_), enc.code(dm), T(l)) for n_, (dm, l) in d.current.items()) + "]"
            rows.append("(let s' := mob_add_dot (D.mkD %s %s %s) %d%%N %d %s in dots_eqb (D.cur s') %s && (D.pl s' =? %s))" % (
                D(st.dot), T(st.dot.period_time_left), T(1000.0), nid(pl.name), enc.code(pl.damage), T(pl.lasting_time), D(out.dot), T(out.dot.period_time_left)))
            info.append({"class": "MobComponent", "reducer": "add_dot", "state": st.model_dump(), "payload": pl.model_dump()})
        else:
            t = float(rng.choice([0, 0.25, 500, 999.75, 1000, 1000.25, 3000, 5000, 12345.5, rng.randint(0, 80000) / 4]))
            out, evs = mob.elapse(t, st)
            sc = 4
            T = lambda v: H._z(int(v * sc))
            D = lambda d: "[" + "; ".join("(%d%%N, %d, %s)" % (nid(n_), enc.code(dm), T(l)) for n_, (dm, l) in d.current.items()) + "]"
            E = "[" + "; ".join("((%d%%N, %d), %d)" % (nid(e["name"]), enc.code(e["payload"]["damage"]), int(e["payload"]["hit"])) for e in evs) + "]"
            rows.append("(match mob_elapse_exec (D.mkD %s %s %s) %s with Some (s', es) => dots_eqb (D.cur s') %s && (D.pl s' =? %s) && emits_eqb es %s | None => false end)" % (
                D(st.dot), T(st.dot.period_time_left), T(1000.0), T(t), D(out.dot), T(out.dot.period_time_left), E))
            info.append({"class": "MobComponent", "reducer": "elapse", "state": st.model_dump(), "payload": t})
    txt = ("From Coq Require Import ZArith NArith List Bool.\nFrom V.Model Require Import Comp.\nFrom V.Lib Require Import Corr.\nImport ListNotations.\nOpen Scope Z_scope.\n"
           "Definition dot_eqb (a b : D.dot) := let '(n, d, l) := a in let '(n', d', l') := b in N.eqb n n' && (d =? d') && (l =? l').\n"
           "Definition dots_eqb := lclose dot_eqb.\n"
           "Definition emit_eqb (a b : D.ev * Z) := N.eqb (fst (fst a)) (fst (fst b)) && (snd (fst a) =? snd (fst b)) && (snd a =? snd b).\n"
           "Definition emits_eqb := lclose emit_eqb.\n"
           "Eval vm_compute in (bad [\n" + ";\n".join(rows) + "\n]).\n")
    res = ctx.coq_eval({"mob_%s" % ctx.prop.lower(): txt})
    diffs = []
    for name, (rc, out) in res.items():
        import re
        m = re.search(r"=\s*\[(.*?)\]\s*:\s*list N", out, re.S)
        if rc != 0 or not m:
            diffs.append({"kind": "shard", "what": "mob shard did not evaluate: " + out[-300:]})
            continue
        for x in m.group(1).replace("\n", " ").split(";"):
            if x.strip():
                diffs.append(dict(info[int(x.replace("%N", ""))], kind="reducer", what="DOT tracker: model and implementation disagree"))
    return {"cases": len(rows), "diffs": diffs}


# ------------------------------------------------------------------ implementation-side monitor
@__import__("functools").lru_cache(maxsize=None)
def _component_class(name):
    import importlib
    import pkgutil
    import simaple.simulate.component.common as cm
    import simaple.simulate.component.specific as sp
    for pkg in (cm, sp):
        for m in pkgutil.iter_modules(pkg.__path__):
            mod = importlib.import_module(pkg.__name__ + "." + m.name)
            c = getattr(mod, name, None)
            if inspect.isclass(c) and c.__module__ == mod.__name__:
                return c
    raise KeyError(name)


def _dump(x):
    if hasattr(x, "model_dump"):
        x = x.model_dump()
    return json.loads(json.dumps(x, default=str, sort_keys=True))


def _close(a, b, tol=1e-9):
    """Structural equality with a relative tolerance on numbers (rounding noise of chunked float subtraction)."""
    if isinstance(a, bool) or isinstance(b, bool) or a is None or b is None or isinstance(a, str) or isinstance(b, str):
        return a == b
    if isinstance(a, (int, float)) and isinstance(b, (int, float)):
        return abs(a - b) <= tol * max(1.0, abs(a), abs(b))
    if isinstance(a, dict) and isinstance(b, dict):
        return a.keys() == b.keys() and all(_close(a[k], b[k], tol) for k in a)
    if isinstance(a, list) and isinstance(b, list):
        return len(a) == len(b) and all(_close(x, y, tol) for x, y in zip(a, b))
    return a == b


def damage_totals(events):
    """(name, tag, damage, modifier) -> total hits, over DAMAGE and DOT events."""
    from simaple.simulate.reserved_names import Tag
    tot = collections.Counter()
    for e in events or []:
        if e.get("tag") in (Tag.DAMAGE, Tag.DOT):
            p = e["payload"]
            key = (e["name"], e["tag"], float(p["damage"]), json.dumps(_dump(p.get("modifier")), sort_keys=True))
            tot[key] += float(p["hit"])
    return {k: v for k, v in tot.items() if v != 0 and k[2] != 0}


def reducer_payload(rng, comp, name, wrapper):
    """A payload for a direct call, or the marker SKIP."""
    ptype = wrapper._payload_type
    if name == "elapse":
        return float(rng.choice([0, 0.25, 30, 120, 480, 500, 1000, 1500, 3000, 10000, 30000, rng.randint(0, 240000) / 4]))
    if ptype in (None, type(None), inspect._empty) or ptype is None:
        return None
    if ptype in (float, int):
        return float(rng.choice([0, 1, 500, 1000]))
    if name == "add_dot":
        return ptype(name=rng.choice(["dotA", "dotB"]), damage=float(rng.choice([10, 20])), lasting_time=float(rng.choice([1000, 2500, 8000])))
    return SKIP


SKIP = object()


def monitor(ctx, jobs, n_cmds, n_snaps, budget_s, seed_shift=0):
    """Returns (findings, stats)."""
    from simaple.container.simulation import get_skill_components
    from simaple.simulate.base import Checkpoint
    from simaple.simulate.component.base import ComponentMethodWrapper, StoreAdapter
    from simaple.simulate.reserved_names import Tag
    rng = random.Random(ctx.seed * 101 + 5 + seed_shift)
    t0 = time.time()
    findings = []
    st = collections.Counter()
    classes = collections.Counter()
    distinct = set()

    def add(prop, what, comp, red, **kw):
        findings.append(dict(prop=prop, what=what, component=type(comp).__name__, name=comp.name, reducer=red, **kw))

    for job, variant in jobs:
        if time.time() - t0 > budget_s:
            break
        env = simenv.get_env(job, variant)
        comps = get_skill_components(env)
        engine = simenv.make_engine(job, variant)
        plan = simenv.random_plan(rng, job, variant, n_cmds, console=False)
        cmds = simenv.parse_commands(plan)
        snaps = set(rng.sample(range(len(cmds)), min(n_snaps, len(cmds))))
        for i, cmd in enumerate(cmds):
            try:
                engine.exec(cmd)
            except Exception as e:
                add("C16", "plan execution raised %r" % e, comps[0], "exec", job=job, variant=variant, plan=plan[:i + 1])
                break
            if i not in snaps:
                continue
            # ---- engine-level views (C10)
            try:
                viewer = engine.get_current_viewer()
                for vn in ("validity", "running", "buff", "keydown", "info", "clock"):
                    v = viewer(vn)
                    st["engine_views"] += 1
                    if vn == "buff":
                        d = v.model_dump()
                        if not all(isinstance(x, (int, float)) and math.isfinite(x) for x in d.values()):
                            findings.append(dict(prop="C10", what="total buff is not a well-formed stat block", component="engine", name="buff",
                                                 reducer="view", job=job, variant=variant, plan=plan[:i + 1], value=d))
                    if vn == "validity":
                        for x in v:
                            if x.time_left < 0:
                                findings.append(dict(prop="C10", what="validity reports a negative remaining time", component="engine", name=x.name,
                                                     reducer="view", job=job, variant=variant, plan=plan[:i + 1], value=x.model_dump()))
            except Exception as e:
                findings.append(dict(prop="C10", what="a status view raised %r" % e, component="engine", name="viewer", reducer="view",
                                     job=job, variant=variant, plan=plan[:i + 1]))
            saved = Checkpoint.create(engine._history.current_store())
            for comp in comps:
                if time.time() - t0 > budget_s:
                    break
                store = saved.restore()
                adapter = StoreAdapter(comp.get_default_state(), dict(comp.binds))
                local = store.local(comp.name)
                classes[type(comp).__name__] += 1
                ctxinfo = dict(job=job, variant=variant, plan=plan[:i + 1])
                # ---- views
                vals = {}
                for vn in sorted(getattr(comp, "__views__")):
                    w = ComponentMethodWrapper(getattr(comp, vn), skip_count=0)
                    try:
                        state = adapter.get_state(local, w.get_state_type())
                        vals[vn] = (w(state), state)
                        st["views"] += 1
                    except Exception as e:
                        add("C10", "view %s raised %r" % (vn, e), comp, vn, **ctxinfo)
                if "validity" in vals and vals["validity"][0].time_left < 0:
                    add("C10", "validity reports a negative remaining time", comp, "validity", value=_dump(vals["validity"][0]), **ctxinfo)
                # ---- reducers
                for rn in sorted(getattr(comp, "__reducers__")):
                    w = ComponentMethodWrapper(getattr(comp, rn))
                    payload = reducer_payload(rng, comp, rn, w)
                    if payload is SKIP:
                        st["skipped_typed_payload"] += 1
                        continue
                    try:
                        state = adapter.get_state(local, w.get_state_type())
                    except Exception:
                        st["skipped_state"] += 1
                        continue
                    before = _dump(state)
                    try:
                        out, events = w(payload, state)
                    except Exception:
                        st["reducer_raised"] += 1
                        continue
                    st["reducer_calls"] += 1
                    distinct.add((type(comp).__name__, rn, json.dumps(before, sort_keys=True), repr(payload)))
                    events = [] if events is None else (events if isinstance(events, list) else [events])
                    call = dict(ctxinfo, payload=_dump(payload) if not isinstance(payload, float) else payload, state=before)
                    # C08: no input mutation, same in same out
                    if _dump(state) != before:
                        add("C08", "reducer modified its input state", comp, rn, **call)
                    try:
                        out2, events2 = w(payload, state)
                        events2 = [] if events2 is None else (events2 if isinstance(events2, list) else [events2])
                        if _dump(out2) != _dump(out) or _dump(events2) != _dump(events):
                            add("C08", "second call with equal arguments returned a different result", comp, rn, **call)
                    except Exception as e:
                        add("C08", "second call raised %r" % e, comp, rn, **call)
                    # C07: rejection alone, nothing changed
                    if any(e.get("tag") == Tag.REJECT for e in events):
                        st["rejections"] += 1
                        if len(events) != 1:
                            add("C07", "a rejection is accompanied by other events", comp, rn, events=_dump(events), **call)
                        if _dump(out) != before:
                            add("C07", "a rejected action changed the state", comp, rn, after=_dump(out), **call)
                    # C10: advertised as usable => use accepted
                    if rn == "use" and "validity" in vals and vals["validity"][0].valid:
                        st["valid_uses"] += 1
                        if any(e.get("tag") == Tag.REJECT for e in events):
                            kd = vals.get("keydown")
                            add("C10", "validity reports the skill usable but use is rejected", comp, rn,
                                keydown_running=bool(kd and kd[0].running), validity=_dump(vals["validity"][0]), **call)
                    if rn == "elapse":
                        t = payload
                        # C06 clause
                        for e in events:
                            if e.get("tag") == Tag.ELAPSED and e["payload"].get("time") != t:
                                add("C06", "elapsed notification does not carry the elapse time", comp, rn, events=_dump(events), **call)
                        # C09: a then b = a+b
                        a = float(rng.choice([0, 0.25, 30, 100, 480, 1000, rng.randint(0, int(t * 4)) / 4 if t > 0 else 0]))
                        a = min(a, t)
                        b = t - a
                        try:
                            o1, e1 = w(a, state)
                            o2, e2 = w(b, o1)
                        except Exception as e:
                            add("C09", "chunked elapse raised %r" % e, comp, rn, a=a, b=b, **call)
                            continue
                        e1 = [] if e1 is None else (e1 if isinstance(e1, list) else [e1])
                        e2 = [] if e2 is None else (e2 if isinstance(e2, list) else [e2])
                        st["chunk_pairs"] += 1
                        ta, tb = damage_totals(list(e1) + list(e2)), damage_totals(events)
                        if ta.keys() != tb.keys() or any(abs(ta[k] - tb[k]) > 1e-9 for k in ta):
                            add("C09", "elapsing a then b gives different damage ticks than elapsing a+b", comp, rn, a=a, b=b,
                                chunked={str(k): v for k, v in ta.items()}, whole={str(k): v for k, v in tb.items()}, **call)
                        for vn in sorted(getattr(comp, "__views__")):
                            if vn == "info":
                                continue
                            wv = ComponentMethodWrapper(getattr(comp, vn), skip_count=0)
                            try:
                                va, vb = _dump(wv(_as(wv, o2))), _dump(wv(_as(wv, out)))
                            except Exception:
                                continue
                            if not _close(va, vb):
                                add("C09", "view %s differs after elapsing a then b vs a+b" % vn, comp, rn, a=a, b=b, chunked=va, whole=vb, **call)
    stats = dict(st)
    stats["classes"] = dict(classes)
    stats["distinct_calls"] = len(distinct)
    stats["seconds"] = round(time.time() - t0, 1)
    return findings, stats


def _as(wrapper, reducer_state):
    """Re-wrap a reducer's output state as the state type a view expects (same entity fields)."""
    st = wrapper.get_state_type()
    fields = {k: getattr(reducer_state, k) for k in st.model_fields if hasattr(reducer_state, k)}
    return st(**fields)


def job_pairs(ctx, n):
    rng = random.Random(ctx.seed + 77)
    jobs = list(simenv.JOBS)
    rng.shuffle(jobs)
    return [(jobs[i % len(jobs)], rng.choice([0, 1, 2])) for i in range(n)]


# ------------------------------------------------------------------ extensions: models of job-specific classes
def extensions():
    """tools/lib/ext_*.py modules. Each models further component classes (component/specific) and provides
         PROPS: dict property id -> list of extra Props files (theories/Props/Cxx_<name>.v), checked like Props/Cxx.v
         TARGETS: list of extra .vo targets the shards need
         cases(ctx, rng, quick) -> (shards: dict name -> coq source ending in the two `Eval vm_compute in (bad [...])`
                                     lists (reducers, views), infos: dict name -> list of case descriptions,
                                     stats: dict)  -- same conventions as h_entity.shard_text
    A missing/failing extension is reported as a broken correspondence, never silently skipped."""
    import glob
    import importlib
    import os
    out = []
    for p in sorted(glob.glob("/verif/tools/lib/ext_*.py")):
        out.append(importlib.import_module("lib." + os.path.basename(p)[:-3]))
    return out


def extension_correspondence(ctx):
    rng = random.Random(ctx.seed * 53 + 11)
    diffs, stats, samples = [], {}, []
    for ext in extensions():
        name = ext.__name__.split(".")[-1]
        try:
            ok, log, failed = ctx.build(list(getattr(ext, "TARGETS", [])))
            if not ok:
                diffs.append({"kind": "shard", "what": "extension %s: Coq build failed at %s: %s" % (name, failed, err_of(log))})
                continue
            shards, infos, st = ext.cases(ctx, rng, not ctx.thorough)
        except Exception as e:
            diffs.append({"kind": "shard", "what": "extension %s could not generate cases: %r" % (name, e)})
            continue
        stats[name] = st
        res = ctx.coq_eval(shards)
        for sn, (rc, out) in sorted(res.items()):
            b = H.parse_bad_lists(out) if rc == 0 else None
            if b is None:
                diffs.append({"kind": "shard", "what": "extension shard %s did not evaluate: %s" % (sn, out[-300:])})
                continue
            for i in b[0]:
                diffs.append(dict(infos[sn][i], kind="reducer", what="model and implementation disagree on the result of the reducer"))
            for i in b[1]:
                diffs.append(dict(infos[sn][i], kind="view", what="model and implementation disagree on a view of the input state"))
        for sn in list(infos)[:1]:
            samples += infos[sn][:1]
    return diffs, stats, samples


# ------------------------------------------------------------------ the common driver of C07 / C08 / C09 / C10
def err_of(log):
    i = log.find("Error")
    return " ".join(log[max(0, i - 300):i + 500].split()) if i >= 0 else log[-500:]


def focus_on_difference(prop, d):
    """A correspondence difference names a component (class + dump) and a state: evaluate the property AS STATED directly on
    the implementation at exactly that point.  Returns a finding (dict) or None.  Works for every component class (common and
    job-specific): the class is found by name, the state type is read off the reducer's signature."""
    if not isinstance(d.get("component"), dict) or not isinstance(d.get("state"), dict) or not d.get("class"):
        return None
    try:
        cls = _component_class(d["class"])
        comp = cls.model_validate(d["component"])
        reds = sorted(getattr(cls, "__reducers__", ()))
        probe = d.get("reducer") if d.get("reducer") in reds else ("use" if "use" in reds else reds[0])
        from simaple.simulate.component.base import ComponentMethodWrapper
        st_cls = ComponentMethodWrapper(getattr(comp, probe)).get_state_type()
        state = st_cls.model_validate(d["state"])
    except Exception:
        return None

    def rejected(evs):
        return any(e.get("tag") == "global.reject" for e in evs)

    def call(red, payload, st):
        out, evs = getattr(comp, red)(payload, st.model_copy(deep=True))
        evs = [] if evs is None else (evs if isinstance(evs, list) else [evs])
        return out, evs
    base = dict(component=d["class"], name=comp.name, component_dump=d["component"], state=d["state"])
    try:
        if prop == "C10":
            if not hasattr(comp, "validity"):
                return None
            v = comp.validity(state.model_copy(deep=True))
            if v.time_left < 0:
                return dict(base, prop=prop, reducer="validity", what="validity reports a negative remaining time", observed=v.model_dump())
            if v.valid and "use" in reds:
                _out, evs = call("use", None, state)
                if rejected(evs):
                    return dict(base, prop=prop, reducer="use", what="validity reports the skill usable but use is rejected",
                                observed={"validity": v.model_dump(), "events": [e.get("tag") for e in evs]})
        elif prop == "C07":
            red = d.get("reducer")
            if red in reds:
                out, evs = call(red, d.get("payload"), state)
                if rejected(evs):
                    if len(evs) != 1:
                        return dict(base, prop=prop, reducer=red, what="a rejection is accompanied by other events",
                                    observed=[e.get("tag") for e in evs], payload=d.get("payload"))
                    if out.model_dump() != state.model_dump():
                        return dict(base, prop=prop, reducer=red, what="a rejected action changed the state", payload=d.get("payload"),
                                    observed=out.model_dump())
        elif prop == "C09" and "elapse" in reds:
            t = d.get("payload") if d.get("reducer") == "elapse" and isinstance(d.get("payload"), (int, float)) else 1000.0

            def leaves(x):
                if isinstance(x, dict):
                    for v in x.values():
                        yield from leaves(v)
                elif isinstance(x, (list, tuple)):
                    for v in x:
                        yield from leaves(v)
                elif isinstance(x, (int, float)) and not isinstance(x, bool):
                    yield float(x)
            # chunk boundaries that coincide with a time stored in the state (a remaining running time, a counter, a cooldown): the
            # places where "ends within this elapse" and "ended exactly now" part ways; the single elapse goes past the largest of them
            marks = sorted({v for v in leaves(d["state"]) if 0 < v < 10 ** 7})
            if marks and t <= marks[-1]:
                t = marks[-1] + max(t, 1000.0)
            splits = [m for m in marks if 0 < m < t][:12] + [t / 4.0, t / 2.0, 30.0]
            for a in splits:
                b = t - a
                if a <= 0 or b <= 0:
                    continue
                s1, e1 = call("elapse", a, state)
                s2, e2 = call("elapse", b, s1)
                s3, e3 = call("elapse", t, state)

                def agg(evs):
                    acc = collections.Counter()
                    for e in evs:
                        if e.get("tag") in ("global.damage", "global.dot"):
                            pl = e.get("payload") or {}
                            acc[(e.get("name"), e.get("tag"), pl.get("damage"), json.dumps(pl.get("modifier"), sort_keys=True))] += pl.get("hit", 0)
                    return {k: v for k, v in acc.items() if v}
                views = [vn for vn in H.VIEWS if hasattr(comp, vn)]
                vs2 = {vn: _dump(getattr(comp, vn)(s2.model_copy(deep=True))) for vn in views}
                vs3 = {vn: _dump(getattr(comp, vn)(s3.model_copy(deep=True))) for vn in views}
                if agg(e1 + e2) != agg(e3) or vs2 != vs3:
                    return dict(base, prop=prop, reducer="elapse", what="elapse(a) then elapse(b) differs from elapse(a+b)", a=a, b=b,
                                observed={"ticks_split": [list(map(str, k)) + [v] for k, v in agg(e1 + e2).items()],
                                          "ticks_once": [list(map(str, k)) + [v] for k, v in agg(e3).items()], "views_split": vs2, "views_once": vs3})
    except Exception as ex:
        if prop == "C10":
            return dict(base, prop=prop, reducer="view", what="a status view or use raised %r at this state" % (ex,))
    return None


def _dump(x):
    try:
        return x.model_dump() if hasattr(x, "model_dump") else x
    except Exception:
        return repr(x)


def run_prop(ctx, props_file, assume, known_match, witness_replay, rule, own_purity=False, extra_targets=(), hook=None):
    """known_match(entry, finding) -> bool ; witness_replay(entry) -> (still_failing: bool, detail)"""
    from lib.vf import open_known
    prop = ctx.prop
    ok, log, failed = ctx.build([props_file.replace(".v", ".vo"), "theories/Model/Comp.vo", "theories/Lib/Corr.vo", *extra_targets])
    if not ok:
        ctx.broken.append("Coq build failed at %s: %s" % (failed, err_of(log)))
        ctx.obligations += 1
    else:
        ctx.check_props(props_file)
        for ext in extensions():
            for pf in getattr(ext, "PROPS", {}).get(prop, []):
                ok2, log2, failed2 = ctx.build([pf.replace(".v", ".vo")])
                if not ok2:
                    ctx.broken.append("Coq build failed at %s: %s" % (failed2, err_of(log2)))
                    ctx.obligations += 1
                else:
                    ctx.check_props(pf)
    # ---- correspondence
    quick = not ctx.thorough
    jobs = job_pairs(ctx, 4 if quick else 8)
    srccov = start_source_coverage()
    diffs, purity, extra, stats, samples = model_correspondence(ctx, 160 if quick else 1600, 10 if quick else 12, jobs)
    for d in diffs[:20]:
        ctx.broken.append("correspondence H-entity: %s (%s.%s)" % (d["what"], d.get("class"), d.get("reducer")))
    for d in extra[:5]:
        ctx.broken.append("correspondence H-entity: %s (%s.%s)" % (d["what"], d.get("class"), d.get("reducer")))
    xdiffs, xstats, xsamples = extension_correspondence(ctx)
    ctx.cov["source_lines_executed_by_correspondence_cases"] = stop_source_coverage(srccov)
    for d in xdiffs[:20]:
        ctx.broken.append("correspondence H-entity (extension): %s (%s.%s)" % (d["what"], d.get("class"), d.get("reducer")))
    diffs = diffs + xdiffs
    stats["extensions"] = xstats
    stats["cases"] += sum(v.get("cases", 0) for v in xstats.values())
    stats["distinct"] += sum(v.get("distinct", 0) for v in xstats.values())
    samples = samples + xsamples
    ctx.cov["correspondence"] = stats
    ctx.cov["traces_validated_against_impl"] = stats["cases"]
    # ---- implementation-side search over all installed components
    budget = (90 if quick else 600) * (3 if ctx.broken else 1)
    findings, mstats = monitor(ctx, job_pairs(ctx, 16 if quick else 64), 16, 3, budget)
    mine = [f for f in findings if f["prop"] == prop]
    if own_purity:
        mine += [dict(p, prop=prop, component=p["class"]) for p in purity]
    # a correspondence difference focuses the search: the property as stated, evaluated at the differing component/state
    focused = 0
    for d in diffs[:40]:
        f = focus_on_difference(prop, d)
        if f is not None:
            focused += 1
            mine.append(f)
            if focused >= 3:
                break
    # correspondence differences on a reducer whose own result violates the property show up in `mine` via the monitor or purity
    ctx.cov["impl_search"] = dict(mstats, findings_for_this_property=len(mine),
                                  findings_for_other_properties=len(findings) - len([f for f in findings if f["prop"] == prop]))
    ctx.cov["evaluations"] = stats["cases"] + mstats.get("reducer_calls", 0) + mstats.get("views", 0)
    ctx.cov["distinct_nontrivial"] = stats["distinct"] + mstats.get("distinct_calls", 0)
    ctx.cov["samples"] = samples
    ctx.cov["rule"] = rule
    modelled = {v[1] for v in H.KINDS.values()} | {"MobComponent", "AlwaysEnabledComponent"}
    for ext in extensions():
        modelled |= set(getattr(ext, "CLASSES", []))
    ctx.cov["unmodelled"] = sorted(k for k in mstats.get("classes", {}) if k not in modelled)
    if hook is not None:       # property-specific extra step returning more findings (C07: the dispatch / store layer)
        mine += hook(ctx)
    # ---- known findings
    opens = open_known(prop)
    unmatched = []
    matched = collections.defaultdict(list)

    def ext_of(entry):
        name = entry.get("extension")
        for ext in extensions():
            if name and ext.__name__.split(".")[-1] == "ext_" + name:
                return ext
        return None
    prop_match, prop_replay = known_match, witness_replay

    def known_match(e, f):        # entries recorded by an extension are matched / replayed by that extension
        ext = ext_of(e)
        return ext.known_match(e, f) if ext is not None and hasattr(ext, "known_match") else prop_match(e, f)

    def witness_replay(e):
        ext = ext_of(e)
        return ext.witness_replay(e) if ext is not None and hasattr(ext, "witness_replay") else prop_replay(e)
    for f in mine:
        for e in opens:
            if known_match(e, f):
                matched[e["id"]].append(f)
                break
        else:
            unmatched.append(f)
    for e in opens:
        still, detail = witness_replay(e)
        if still:
            ctx.known(e, detail + ("; %d matching observations in this run" % len(matched[e["id"]]) if matched[e["id"]] else ""))
        else:
            ctx.broken.append("known finding %s no longer reproduces on the implementation while the faithful model still has it" % e["id"])
    # ---- fixed findings recorded by an extension: the witness is replayed as a regression (a fixed entry suppresses nothing)
    from lib.vf import load_known
    regress = []
    for e in load_known(prop):
        ext = ext_of(e)
        if e.get("status") == "fixed" and ext is not None and hasattr(ext, "witness_replay"):
            still, detail = ext.witness_replay(e)
            regress.append({"id": e["id"], "still_failing": still, "detail": detail})
            if still:
                ctx.violation("impl-counterexample", "the repaired defect %s has returned: %s" % (e["id"], detail), input=e.get("witness"))
    ctx.cov["fixed_findings_replayed"] = regress
    # ---- verdict
    if unmatched:
        seen = set()
        for f in unmatched:
            k = (f["what"], f["component"], f["reducer"])
            if k in seen:
                continue
            seen.add(k)
            ctx.violation("impl-counterexample", "%s: %s.%s" % (f["what"], f["component"], f["reducer"]), input=f)
            if len(seen) >= 3:
                break
    elif ctx.broken:
        ctx.violation("correspondence" if diffs else "proof-obligation", "; ".join(ctx.broken)[:1500],
                      input={"differences": diffs[:3]}, no_input=True)
    return ctx.finish("proof", assume)


ASSUME_COMMON = [
    "time is modelled in integer ticks (exactly representable times); values obtained from the Dynamics entity by a multiplication are "
    "parameters of the model, computed by Python (DESIGN section 3)",
    "hand-written model coq/theories/Model/Comp.v + Model/E*.v, tied to component/entity.py, trait/impl.py, component/common/*.py by the "
    "H-entity correspondence (full output state, event list, views) on random, reachable and shipped instances",
    "the job-specific classes of component/specific are NOT modelled: the property is tested on them directly (implementation-side "
    "search over every installed component in reachable store states), which is exploration, not proof",
    "pydantic validation/deepcopy and the dispatcher glue are outside the model",
]
