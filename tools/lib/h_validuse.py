"""C10 at the engine level, exactly at the property's observation point: `engine.get_current_viewer()("validity")` right before a
USE / CAST, and the events of that USE.

The component-level theorems (C10_valid_accepts, C10_<ext>_valid_accepts) say: in the state the view LOOKS AT, use is accepted.
An engine, however, handles the next action only after relaying the pending `emitted` callbacks of the previous action's events
(simulate/base.py play(); property C05), and a listener of such a callback may write an entity the advertised skill depends on.
Then the viewer shows a store the USE will not see.  That is a genuine defect of the unchanged tree with respect to C10 as stated
(known finding C10-validity-ignores-pending-callbacks); it cannot be repaired without changing the relay order C05 fixes.

This module
  * replays the two recorded witness histories (adele: CAST 오더 -> USE 오더 VI; soulmaster: USE 크로스 더 스틱스 -> USE 코스믹 샤워);
  * searches random plans rich in back-to-back actions at the same clock (USE, USE / CAST of a delay-free skill, USE) on all jobs for
    "advertised valid, USE rejected", and classifies every hit: it belongs to the known mechanism iff callbacks were pending AND,
    on a fresh engine replaying the same prefix plus `ELAPSE 0` (which relays them), the skill is either no longer advertised or its
    USE is accepted.  Anything else is a different violation and is reported.
"""
from __future__ import annotations

import random
import time

from lib import simenv

FINDING_ID = "C10-validity-ignores-pending-callbacks"


def _own_reject(log, name):
    pl = log.playlogs[0]
    return any(e["name"] == name and e["tag"] == "global.reject" for e in pl.events)


def _validity(engine, name):
    for v in engine.get_current_viewer()("validity"):
        if v.name == name:
            return v
    return None


def _pending(engine):
    """the pending callbacks of the last play, read from its checkpoint (never through read_entity: no setdefault)"""
    try:
        ck = None
        for op in engine.operation_logs():
            for pl in op.playlogs:
                ck = pl.checkpoint
        ent = (ck.store_ckpt.get(".previous_callbacks") or ck.store_ckpt.get("previous_callbacks")) if ck is not None else None
        if not ent:
            return []
        return [cb[0]["name"] + "." + cb[0]["method"] for cb in ent["payload"]["events"]]
    except Exception:
        return None


def probe(make_engine, prefix, name, kind="USE"):
    """-> None | dict describing 'advertised valid, USE rejected' after `prefix` (list of plan lines)"""
    eng = make_engine()
    for c in simenv.parse_commands(prefix):
        eng.exec(c)
    v = _validity(eng, name)
    if v is None or not v.valid:
        return None
    pending = _pending(eng)
    log = eng.exec(simenv.parse_commands(['%s "%s"' % (kind, name)])[0])
    if not _own_reject(log, name):
        return None
    # classification: relay the pending callbacks first (ELAPSE 0 plays one *.elapse action), then look again
    eng2 = make_engine()
    for c in simenv.parse_commands(prefix + ["ELAPSE 0"]):
        eng2.exec(c)
    v2 = _validity(eng2, name)
    flushed_ok = (v2 is None or not v2.valid)
    if not flushed_ok:
        log2 = eng2.exec(simenv.parse_commands(['%s "%s"' % (kind, name)])[0])
        flushed_ok = not _own_reject(log2, name)
    return {"plan": prefix + ['%s "%s"' % (kind, name)], "skill": name, "validity": v.model_dump(), "pending_callbacks": pending,
            "after_relaying_the_pending_callbacks": "not advertised or accepted" if flushed_ok else "still advertised and rejected",
            "mechanism": "pending-callbacks" if (pending and flushed_ok) else "other"}


def plain_engine(job):
    """SimulationEnvironment built directly with no explicit skill levels (hexa mastery level 0: the lower tier 오더 and its 6th-job
    replacement 오더 VI are both built and share the ether gauge)"""
    from simaple.container.simulation import FinalCharacterStat, SimulationEnvironment, get_operation_engine
    from simaple.core import ActionStat, JobType, Stat
    env = SimulationEnvironment(passive_skill_level=0, combat_orders_level=1, weapon_pure_attack_power=0, jobtype=JobType(job), level=270,
                                character=FinalCharacterStat(stat=Stat(STR=1000, DEX=1000, INT=1000, LUK=1000, attack_power=100, magic_attack=100),
                                                             action_stat=ActionStat()))
    return get_operation_engine(env)


WITNESSES = [
    ("adele", "plain", ["ELAPSE 205000", 'CAST "오더"'], "오더 VI"),
    ("soulmaster", 0, ['CAST "엘리시온"', 'CAST "크로스 더 스틱스"', 'CAST "크로스 더 스틱스"', "ELAPSE 12000", 'USE "크로스 더 스틱스"'], "코스믹 샤워"),
]


def witness_replay(entry=None):
    """(still_failing, detail): the recorded histories on the tree under test"""
    out, still = [], False
    for job, variant, prefix, name in WITNESSES:
        try:
            r = probe((lambda: plain_engine(job)) if variant == "plain" else (lambda: simenv.make_engine(job, variant)), prefix, name)
        except Exception as ex:
            out.append("%s: witness raised %r" % (job, ex))
            continue
        if r and r["mechanism"] == "pending-callbacks":
            still = True
            out.append("%s: after %s validity lists '%s' as usable (pending: %s) and USE is rejected" % (job, prefix[-1], name, (r["pending_callbacks"] or [])[:2]))
        else:
            out.append("%s: witness no longer fails (%s)" % (job, "accepted / not advertised" if r is None else r["mechanism"]))
    return still, "; ".join(out)


def search(ctx, budget_s):
    """-> (findings, stats).  Findings carry prop, what, component, reducer (entitycheck conventions) and `mechanism`."""
    rng = random.Random(ctx.seed * 7 + 1010)
    t0 = time.time()
    findings, stats = [], {"plans": 0, "probes": 0, "advertised": 0, "rejected_though_advertised": 0, "by_mechanism": {}}
    jobs = list(simenv.JOBS)
    rng.shuffle(jobs)
    rounds = 0
    while time.time() - t0 < budget_s and rounds < (6 if ctx.thorough else 2):
        rounds += 1
        for job in jobs:
            if time.time() - t0 > budget_s:
                break
            variant = rng.choice([0, 0, 2])
            names = list(simenv.skill_names(job, variant))
            eng = simenv.make_engine(job, variant)
            lines = []
            stats["plans"] += 1
            for step in range(30 if ctx.thorough else 18):
                r = rng.random()
                if r < 0.08 and len(lines) >= 2:
                    # an editing session: roll back to an earlier operation and go on from there; the viewer must follow
                    idx = rng.randrange(0, len(lines))
                    eng.rollback(idx)                  # operation log 0 is the initial entry: log i is command i-1
                    lines = lines[:idx]
                    stats["rollbacks"] = stats.get("rollbacks", 0) + 1
                    continue
                if r < 0.25:
                    cmd = "ELAPSE %s" % rng.choice([0, 500, 3000, 12000, 60000, 205000])
                elif r < 0.45:
                    cmd = 'CAST "%s"' % rng.choice(names)
                else:
                    # back-to-back at the same clock: look at validity, USE what it advertises
                    vs = [v for v in eng.get_current_viewer()("validity") if v.valid]
                    stats["probes"] += 1
                    if not vs:
                        continue
                    v = rng.choice(vs)
                    stats["advertised"] += 1
                    cmd = 'USE "%s"' % v.name
                    pending = _pending(eng)
                    log = eng.exec(simenv.parse_commands([cmd])[0])
                    if _own_reject(log, v.name):
                        stats["rejected_though_advertised"] += 1
                        try:
                            rep = probe(lambda: simenv.make_engine(job, variant), list(lines), v.name)
                        except Exception as ex:
                            rep = {"mechanism": "other", "plan": lines + [cmd], "skill": v.name, "error": repr(ex), "pending_callbacks": pending}
                        if rep is None:     # not reproducible on a fresh engine: the engine under observation was not in the replayed state
                            rep = {"mechanism": "other", "plan": lines + [cmd], "skill": v.name, "pending_callbacks": pending,
                                   "note": "seen on the running engine, not reproduced on a fresh engine replaying the same commands"}
                        stats["by_mechanism"][rep["mechanism"]] = stats["by_mechanism"].get(rep["mechanism"], 0) + 1
                        findings.append(dict(rep, prop="C10", what="validity reports the skill usable but use is rejected (engine: viewer before "
                                             "the USE, events of that USE)", component="engine", name=v.name, reducer="use", job=job, variant=variant))
                    lines.append(cmd)
                    continue
                lines.append(cmd)
                try:
                    eng.exec(simenv.parse_commands([cmd])[0])
                    if cmd.startswith("CAST") and time.time() - t0 < budget_s:
                        # systematic: which advertised skills stop being advertised once the pending callbacks are relayed?
                        before = {v.name for v in eng.get_current_viewer()("validity") if v.valid}
                        n_ops = len(list(eng.operation_logs()))
                        eng.exec(simenv.parse_commands(["ELAPSE 0"])[0])
                        after = {v.name for v in eng.get_current_viewer()("validity") if v.valid}
                        eng.rollback(n_ops - 1)
                        for nm in sorted(before - after)[:3]:
                            stats["stale_adverts"] = stats.get("stale_adverts", 0) + 1
                            rep = probe(lambda: simenv.make_engine(job, variant), list(lines), nm)
                            if rep is not None:
                                stats["rejected_though_advertised"] += 1
                                stats["by_mechanism"][rep["mechanism"]] = stats["by_mechanism"].get(rep["mechanism"], 0) + 1
                                findings.append(dict(rep, prop="C10", what="validity reports the skill usable but use is rejected (engine: viewer "
                                                     "before the USE, events of that USE)", component="engine", name=nm, reducer="use", job=job,
                                                     variant=variant))
                except Exception as ex:
                    findings.append({"prop": "C10", "what": "engine raised %r while a plan of well-formed commands ran" % ex, "component": "engine",
                                     "name": "exec", "reducer": "exec", "plan": list(lines), "job": job, "variant": variant, "mechanism": "other"})
                    break
    stats["seconds"] = round(time.time() - t0, 1)
    return findings, stats
