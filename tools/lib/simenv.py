"""Real simaple engines for the harnesses: the eight shipped jobs, a few environments each,
skill-name pools and a random command generator (one PRNG passed in by the caller)."""
from __future__ import annotations

import functools

JOBS = ["adele", "archmagefb", "archmagetc", "bishop", "dualblade", "mechanic", "soulmaster", "windbreaker"]


def env_variants():
    from simaple.core import ActionStat, Stat
    return [
        dict(level=270, action_stat=ActionStat(), stat=Stat(INT=1000, STR=1000, LUK=1000, DEX=1000, magic_attack=100, attack_power=100)),
        dict(level=270, action_stat=ActionStat(buff_duration=50, cooltime_reduce=1000, cooltime_reduce_rate=5),
             stat=Stat(INT=1000, STR=1000, LUK=1000, DEX=1000, magic_attack=100, attack_power=100),
             hexa_skill_level=10, hexa_mastery_level=10, hexa_improvements_level=5),
        dict(level=285, action_stat=ActionStat(buff_duration=185, cooltime_reduce=4000, cooltime_reduce_rate=0, summon_duration=40),
             stat=Stat(INT=4000, STR=4000, LUK=4000, DEX=4000, magic_attack=2500, attack_power=2500, critical_rate=100,
                       critical_damage=50, boss_damage_multiplier=200, ignored_defence=92, final_damage_multiplier=40),
             hexa_skill_level=30, hexa_mastery_level=30, hexa_improvements_level=30, v_skill_level=30),
        # 3: the all-zero corner of the level space (no 6th-job core owned: lower tiers are built, replacements are level 0)
        dict(level=270, action_stat=ActionStat(), stat=Stat(INT=1000, STR=1000, LUK=1000, DEX=1000, magic_attack=100, attack_power=100),
             hexa_skill_level=0, hexa_mastery_level=0, hexa_improvements_level=0, v_skill_level=0, v_improvements_level=0),
    ]


@functools.lru_cache(maxsize=None)
def get_env(job: str, variant: int = 0):
    from simaple.container.environment_provider import MinimalEnvironmentProvider
    from simaple.core import JobType
    kw = env_variants()[variant]
    prov = MinimalEnvironmentProvider(jobtype=JobType(job), **kw)
    return prov.get_simulation_environment()


def make_engine(job: str, variant: int = 0):
    from simaple.container.simulation import get_operation_engine
    return get_operation_engine(get_env(job, variant))


@functools.lru_cache(maxsize=None)
def skill_names(job: str, variant: int = 0):
    e = make_engine(job, variant)
    return tuple(v.name for v in e.get_current_viewer()("validity"))


@functools.lru_cache(maxsize=None)
def keydown_names(job: str, variant: int = 0):
    e = make_engine(job, variant)
    try:
        return tuple(v.name for v in e.get_current_viewer()("keydown"))
    except Exception:
        return ()


# 0.1 / 16.7 are not dyadic: sums of them carry binary64 noise (0.30000000000000004), which every recorded checkpoint, a JSON round
# trip and a resumed run must reproduce bit for bit
ELAPSES = [0, 0.5, 30, 100, 480, 500, 1000, 3000, 10000, 45000, 0.25, 1234.5, 0.1, 0.1, 16.7]


def random_command_text(rng, job, variant=0, console=True):
    names = skill_names(job, variant)
    kd = keydown_names(job, variant)
    r = rng.random()
    n = rng.choice(names)
    if kd and rng.random() < 0.25:
        n = rng.choice(kd)
    if r < 0.36:
        return 'CAST "%s"' % n
    if r < 0.50:
        return 'USE "%s"' % n
    if r < 0.72:
        return "ELAPSE %s" % rng.choice(ELAPSES)
    if r < 0.84:
        return 'RESOLVE "%s"' % n
    if r < 0.92:
        return 'KEYDOWNSTOP "%s"' % (rng.choice(kd) if kd else n)
    if console:
        return rng.choice(['!debug "viewer(\'clock\')"', '!debug "[v.name for v in viewer(\'validity\') if available(v)][:3]"',
                           '!debug "viewer(\'buff\').short_dict()"'])
    return "ELAPSE 60"


def parse_commands(lines):
    from simaple.simulate.policy.parser import parse_dsl_to_command
    out = []
    for l in lines:
        out += parse_dsl_to_command(l)
    return out


def random_plan(rng, job, variant, n, console=True, bias_resolve=True):
    """Mostly-valid plans: casts are often followed by the RESOLVE/KEYDOWNSTOP that goes with them."""
    lines = []
    while len(lines) < n:
        c = random_command_text(rng, job, variant, console)
        lines.append(c)
        if bias_resolve and c.startswith("USE") and rng.random() < 0.7:
            # USE does not elapse: the announced delay stays pending for a RESOLVE of the same (or, wrongly, another) skill
            other = 'RESOLVE "%s"' % rng.choice(skill_names(job, variant))
            lines.append(rng.choice(["RESOLVE " + c[4:], other, "ELAPSE 0", "RESOLVE " + c[4:]]))
            if rng.random() < 0.3:
                lines.append(other)
        if bias_resolve and c.startswith("CAST") and rng.random() < 0.35:
            nm = c[5:]
            lines.append("RESOLVE " + nm)
            if rng.random() < 0.5:
                lines.append("KEYDOWNSTOP " + nm)
    return lines[:n]


DEBUGS = ['!debug "viewer(\'clock\')"', '!debug "[v.name for v in viewer(\'validity\') if available(v)][:3]"',
          '!debug "viewer(\'buff\').short_dict()"']


@functools.lru_cache(maxsize=None)
def delay_skill_names(job: str, variant: int = 0):
    """Skills whose use announces a positive delay (so that a pending delay exists after USE)."""
    e = make_engine(job, variant)
    out = []
    for info in e.get_current_viewer()("info"):
        try:
            if float(info.get("delay", 0) or 0) > 0 and info.get("name") in skill_names(job, variant):
                out.append(info["name"])
        except Exception:
            pass
    return tuple(out) or skill_names(job, variant)


def boundary_plans(rng, job, variant, n):
    """Short plans built around the corners of the engine's bookkeeping: an action whose events are still pending
    (USE/CAST of a skill with a delay, a key-down in flight), then entries that play nothing (console), zero elapses or
    another skill's action, then the command that reads the pending events (RESOLVE / KEYDOWNSTOP of the first skill).
    Checks cut / roll back / edit at every position of these."""
    names = list(delay_skill_names(job, variant))
    kd = list(keydown_names(job, variant))
    out = []
    # the two canonical corners first: a pending delay, one console entry, the RESOLVE that reads it
    x0 = rng.choice(names)
    out.append(['USE "%s"' % x0, rng.choice(DEBUGS), 'RESOLVE "%s"' % x0, "ELAPSE 1000"])
    if n > 1:
        out.append(['CAST "%s"' % x0, rng.choice(DEBUGS), rng.choice(DEBUGS), 'RESOLVE "%s"' % x0, "ELAPSE 1000"])
    for _ in range(max(0, n - 2)):
        x = rng.choice(kd) if kd and rng.random() < 0.3 else rng.choice(names)
        y = rng.choice(names)
        dbg = rng.choice(DEBUGS)
        first = rng.choice(['USE "%s"' % x, 'CAST "%s"' % x])
        mid = rng.choice([[dbg], [dbg, rng.choice(DEBUGS)], [dbg, "ELAPSE 0"], ["ELAPSE 0", dbg], [dbg, 'USE "%s"' % y, dbg], []])
        tail = rng.choice([['RESOLVE "%s"' % x], ['RESOLVE "%s"' % x, 'RESOLVE "%s"' % x], ['KEYDOWNSTOP "%s"' % x, 'RESOLVE "%s"' % x],
                           ['RESOLVE "%s"' % y, 'RESOLVE "%s"' % x]])
        out.append((["ELAPSE 30"] if rng.random() < 0.4 else []) + [first] + mid + tail + ["ELAPSE 1000"])
    return out[:n]
