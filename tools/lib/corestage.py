"""Translate simaple/core (+ dpm level table) and run the two-instance correspondence."""
from __future__ import annotations

import json
import random

from lib import corecases, numcorr
from lib.pynum import Unsupported
from lib.vf import REPO


def translate(ctx):
    """Regenerate gen/CoreQ.v, gen/CoreF.v from the working tree. Returns meta or None."""
    import tr_core
    try:
        q, f, meta = tr_core.emit(str(REPO))
    except (Unsupported, SyntaxError, KeyError, OSError) as e:
        ctx.broken.append("translator T-num(core) rejected the source: %s" % e)
        ctx.cov["translator_error"] = str(e)
        return None
    ctx.write_gen("CoreQ.v", q)
    ctx.write_gen("CoreF.v", f)
    ctx.cov.setdefault("translators", {})["T-num(core)"] = {
        "files": ["simaple/core/base.py", "simaple/core/damage.py", "simaple/simulate/report/dpm.py"],
        "definitions": len(meta["defs"]), "twin": len(meta["twin"]), "twin_skipped": meta["twin_skipped"]}
    return meta


def correspondence(ctx, meta, select, n_each, profile="any", tag="core"):
    """Run the Python implementation and both Coq instances on the same generated inputs.
    Returns list of differences: dicts with def, args, expected, domain."""
    rng = random.Random(ctx.seed * 7919 + 13)
    qcases, fcases = [], []
    hist = {}
    skipped = 0
    for name in meta["defs"]:
        if not select(name) or not meta["defs"][name]["params"]:
            continue          # parameterless definitions are literal tables used by the others
        fn = corecases.pyfun(name)
        if fn is None:
            ctx.broken.append("no Python callable for generated definition " + name)
            continue
        d = meta["defs"][name]
        k = 0
        tries = 0
        while k < n_each and tries < n_each * 5:
            tries += 1
            args = corecases.rnd_args(rng, d, profile)
            try:
                exp = fn(*args)
            except Exception as e:           # the model has no exceptions except option results
                ctx.broken.append("implementation raised on generated input of %s: %r" % (name, e))
                ctx.cov.setdefault("raised", []).append({"def": name, "args": dump(args), "error": repr(e)})
                break
            if not corecases.finite(exp):
                skipped += 1
                continue
            qcases.append((name, args, exp))
            if name in meta["twin"]:
                fcases.append((name, args, exp))
            hist[name] = hist.get(name, 0) + 1
            k += 1
    sh = {}
    sh.update(numcorr.shards(qcases, "Q", meta, "CoreQ", tag))
    sh.update(numcorr.shards(fcases, "F", meta, "CoreF", tag))
    res = ctx.coq_eval(sh)
    diffs = []
    for sname, (rc, out) in sorted(res.items()):
        dom = "Q" if "_Q_" in sname else "F"
        k0 = int(sname.rsplit("_", 1)[1]) * 300
        cases = qcases if dom == "Q" else fcases
        bad = numcorr.parse_bad(out) if rc == 0 else None
        if bad is None:
            ctx.broken.append("correspondence shard %s did not evaluate: %s" % (sname, out.strip()[-300:]))
            continue
        for i in bad:
            name, args, exp = cases[k0 + i]
            diffs.append({"def": name, "domain": dom, "args": dump(args), "expected_from_python": dump(exp)})
    ctx.cov.setdefault("correspondence", {})[tag] = {
        "cases_Q": len(qcases), "cases_F_bit_exact": len(fcases), "differences": len(diffs),
        "non_finite_skipped": skipped, "per_definition": hist}
    ctx.cov["evaluations"] = ctx.cov.get("evaluations", 0) + len(qcases) + len(fcases)
    return diffs, qcases


def dump(v):
    if isinstance(v, list):
        return [dump(x) for x in v]
    if hasattr(v, "model_dump"):
        d = v.model_dump()
        d["__class__"] = type(v).__name__
        return d
    return v
