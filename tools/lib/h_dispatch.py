"""H-dispatch: ties coq/theories/Model/Dispatch.v (stores, StoreAdapter, ReducerMethodWrappingDispatcher,
timer, callbacks -- composed with Model/Router.v and Model/Play.v) to the tree under test.

`run(ctx, prop)` (called by the C05, C06 and C07 drivers after their own steps) does, on every run:
  1. extraction: builds real engines and reads from the REAL dispatcher objects: name, ordered mapping keys with
     method names, default-state names, binds, resolved bound addresses, addons; writes gen/DispatchData.v with
     the data and the generated obligations (clock address / callbacks address bound by no component, no addon
     re-dispatches *.elapse, names distinct, keys non-empty), proved there by vm_compute;
  2. recording: runs random plans on those engines (and scripted actions on a synthetic engine made of real
     simaple base classes with addons, '$' listeners, a static-payload listener, binds, odd raw events) with every
     reducer, every base dispatcher, the timer and the router wrapped to log what they were given and returned;
  3. correspondence, evaluated by Coq (shards <= 500 cases, Coq compares and prints the differing indices):
     (a) _find_mapping_name / includes, (b) tag_events_by_method_name, (c) bound names and write sets,
     (d) _resolve_address / local / message_signature / _get_event_callbacks / get_method_mappings,
     (e) whole plays, trace-driven: the model's instrumented play is run on the recorded reducer answers and must
         reproduce the dispatched signatures, the events, the reducer-invocation trace and the store of every play;
  4. implementation-side search for counterexamples to the three statements themselves.
Returns the list of implementation counterexamples (dicts with prop/what/component/reducer/...);
model-vs-implementation differences go to ctx.broken (and are reported with their concrete input)."""

import collections
import json
import random
import re
import time

from lib import simenv
from lib.h_engine import Interner, digest

TARGETS = ["theories/Model/DispatchExec.vo", "theories/Model/DispatchReviewed.vo"]
CLOCK = "global.time"
CALLBACKS = ".previous_callbacks"


# ------------------------------------------------------------------------------------------- Coq text
def cs(s: str) -> str:
    """Coq string literal (the file is UTF-8, Coq reads string literals bytewise)."""
    return '"' + s.replace('"', '""') + '"'


def cos(s) -> str:
    return "None" if s is None else "(Some %s)" % cs(s)


def cl(items) -> str:
    return "[" + "; ".join(items) + "]"


def cn(n: int) -> str:
    return "%d%%N" % n


HEADER = ("From Coq Require Import List Bool String NArith.\nFrom V.Lib Require Import Corr.\n"
          "From V.Model Require Import Router Play Dispatch DispatchExec.\nImport ListNotations.\nOpen Scope string_scope.\n")


def parse_bad(out: str):
    """all `= [...] : list N` results of a shard, in order"""
    ms = re.findall(r"=\s*\[(.*?)\]\s*:\s*list N", out, re.S)
    return [[int(x.strip().replace("%N", "")) for x in m.split(";") if x.strip()] for m in ms]


# ------------------------------------------------------------------------------------------- extraction
class Unknown(Exception):
    pass


def extract(router, store):
    """[(kind, data)] for the installed dispatchers of a real router, in installation order. Fails closed."""
    from simaple.simulate.base import TandemDispatcher
    from simaple.simulate.component.base import ContextDispatcher, ReducerMethodWrappingDispatcher
    from simaple.simulate.timer import timer_delay_dispatcher
    out = []
    for d in router._dispatchers:
        if d is timer_delay_dispatcher or getattr(d, "__wrapped_timer__", False):
            out.append(("timer", None))
            continue
        if not isinstance(d, TandemDispatcher):
            raise Unknown("installed dispatcher of unknown kind %r" % (d,))
        b = d._base_dispatcher
        b = getattr(b, "_vf_inner", b)
        if not isinstance(b, ReducerMethodWrappingDispatcher):
            raise Unknown("base dispatcher of unknown kind %r" % (b,))
        ad = b._store_adapter
        if list(b.method_mappings) != list(b.reducer_mappings):
            raise Unknown("method_mappings and reducer_mappings of %s differ in keys/order" % b._name)
        local = store.local(b._name)
        addons = []
        for nx in d._next_dispatchers:
            if not isinstance(nx, ContextDispatcher):
                raise Unknown("next dispatcher of unknown kind %r" % (nx,))
            addons.append({"signature": nx._signature, "action": dict(nx._defined_action)})
        out.append(("comp", {
            "name": b._name,
            "keys": [(k, b.method_mappings[k]) for k in b.reducer_mappings],
            "defaults": list(b._default_state),
            "binds": list(ad._binds.items()),
            "bound": [local._resolve_address(a) for a in ad._get_bound_names().values()],
            "bound_names": list(ad._get_bound_names().items()),
            "addons": addons,
            "addon_whens": [getattr(a, "when", None) for a in b._addons],
            "local": local._current_address,
        }))
    return out


def extract_views(viewset):
    """the registered views of a real ViewSet, in registration order. Fails closed on unknown kinds."""
    from simaple.simulate.component.base import WrappedView
    from simaple.simulate.timer import clock_view
    from simaple.simulate.view import AggregationView
    by_id = {id(v): n for n, v in viewset._views.items()}
    out = {"names": list(viewset._views), "component_views": [], "aggregations": [], "clock": []}
    for n, v in viewset._views.items():
        if isinstance(v, WrappedView):
            ad = v._store_adapter
            out["component_views"].append({"full": n, "component": v._name, "view": getattr(v._wrapped_view_method._func, "__name__", "?"),
                                           "cls": type(getattr(v._wrapped_view_method._func, "__self__", None)).__name__,
                                           "defaults": list(v._default_state), "binds": list(ad._binds.items()),
                                           "bound_names": list(ad._get_bound_names().items())})
        elif isinstance(v, AggregationView):
            pat = type(v).get_installation_pattern()
            m = re.fullmatch(r"\.\*\\\.([A-Za-z_]+)", pat)
            if not m:
                raise Unknown("aggregation view %s has a pattern of unknown shape %r" % (n, pat))
            kids = []
            for ch in v._children:
                if id(ch) not in by_id:
                    raise Unknown("aggregation view %s has a child that is not a registered view" % n)
                kids.append(by_id[id(ch)])
            out["aggregations"].append({"name": n, "cls": type(v).__name__, "kind": m.group(1), "pattern": pat, "children": kids})
        elif v is clock_view:
            out["clock"].append(n)
        else:
            raise Unknown("registered view %s of unknown kind %r" % (n, v))
    return out


class StrTable:
    """string literals are slow to parse in Coq 8.16 and the component data repeats every skill name many times: long strings
    become one `Definition sK` each and are referred to by name; default keys are written `name ++ "." ++ method`"""

    def __init__(self):
        self.ids = {}

    def ref(self, s: str) -> str:
        if len(s.encode()) <= 8:
            return cs(s)
        if s not in self.ids:
            self.ids[s] = "s%d" % len(self.ids)
        return self.ids[s]

    def key(self, k: str, name: str, method: str) -> str:
        if k == name + "." + method:
            return "(%s ++ %s)" % (self.ref(name), cs("." + method))
        return self.ref(k)

    def addr(self, a: str, names) -> str:
        """".<name>.<entity>" -> "." ++ name ++ ".<entity>" when <name> is a known component name"""
        if a.startswith("."):
            for n in names:
                if a.startswith("." + n + ".") and "." not in a[len(n) + 2:]:
                    return "(%s ++ %s ++ %s)" % (cs("."), self.ref(n), cs(a[len(n) + 1:]))
        return self.ref(a)

    def definitions(self) -> str:
        return "".join("Definition %s := %s.\n" % (v, cs(k)) for k, v in self.ids.items())


def comp_static(c, tbl=None) -> str:
    """`U name keys defaults binds addons` of gen/DispatchData.v"""
    tbl = tbl or StrTable()
    addons = []
    for a, when in zip(c["addons"], c["addon_whens"]):
        act = a["action"]
        addons.append("(%s, %s, %s)" % (cs(when), tbl.ref(act["name"]), cs(act["method"])))
    return "U %s %s %s %s %s" % (
        tbl.ref(c["name"]), cl("(%s, %s)" % (tbl.key(k, c["name"], m), cs(m)) for k, m in c["keys"]), cl(cs(n) for n in c["defaults"]),
        cl("(%s, %s)" % (cs(k), tbl.ref(v)) for k, v in c["binds"]), cl(addons))


def data_file(systems, inits=None) -> str:
    """systems: [(label, [comp dicts])]; inits: label -> address list of the freshly built engine's store"""
    t = ("(* GENERATED by tools/lib/h_dispatch.py from the dispatcher objects of real engines of the tree under test.\n"
         "   One list of components per (job, environment): name, mapping keys with method names in dict order,\n"
         "   default-state names, binds, addons (when, destination, method).  The theorems below are the generated\n"
         "   obligations that the C05/C06 dispatch theorems assume of the installed components. *)\n"
         "From Coq Require Import List Bool String.\nFrom V.Model Require Import Dispatch DispatchViews DispatchReviewed.\nImport ListNotations.\nOpen Scope string_scope.\n"
         "Definition U (name : string) (keys : list (string * string)) (defaults : list string) (binds : list (string * string))\n"
         "  (addons : list (string * string * string)) : component unit unit :=\n"
         "  {| c_name := name;\n     c_maps := map (fun km => (fst km, {| m_method := Some (snd km); m_red := None |})) keys;\n"
         "     c_default := map (fun n => (n, tt)) defaults; c_binds := binds;\n"
         "     c_addons := map (fun a => {| ad_when := fst (fst a);\n"
         "                                  ad_action := {| a_name := snd (fst a); a_method := snd a; a_pay := tt; a_addon := false |} |}) addons |}.\n")
    tbl = StrTable()
    parts = []                   # the definitions, emitted after the string table
    names = []
    same_as = {}                 # system name -> an earlier system with textually the same component data (environments often differ in numbers only)
    by_text = {}
    for label, comps in systems:
        n = "sys_" + re.sub(r"[^A-Za-z0-9]", "_", label)
        names.append(n)
        body = ";\n   ".join(comp_static(c, tbl) for c in comps)
        if body in by_text:
            same_as[n] = by_text[body]
            parts.append("Definition %s : list (component unit unit) := %s.\n" % (n, by_text[body]))
        else:
            by_text[body] = n
            parts.append("Definition %s : list (component unit unit) :=\n  [%s].\n" % (n, body))
    parts.append("Definition all_systems : list (list (component unit unit)) := [%s].\n" % "; ".join(names))
    obl = [("shipped_clock_unbound", "clock_unbound unit unit"), ("shipped_callbacks_unbound", "addr_unbound unit unit callbacks_addr"),
           ("shipped_addons_no_elapse", "addons_no_elapse unit unit"), ("shipped_names_distinct", "names_distinct unit unit"),
           ("shipped_keys_nonempty", "keys_nonempty unit unit")]
    if inits is not None:
        # C10: every bind target is some component's own entity or a global property (model's initial store), and every bound
        # address is in the address set of the REAL freshly built store
        obl.append(("shipped_binds_closed", "binds_closed unit unit"))
        init_names, init_by_text = [], {}
        for l, comps_ in systems:
            cnames = sorted((c["name"] for c in comps_), key=len, reverse=True)
            body = cl(tbl.addr(a, cnames) for a in inits[l])
            if body not in init_by_text:
                init_by_text[body] = "init_" + re.sub(r"[^A-Za-z0-9]", "_", l)
                parts.append("Definition %s : list string := %s.\n" % (init_by_text[body], body))
            init_names.append(init_by_text[body])
        parts.append("Definition all_initial_addresses : list (list string) := [%s].\n" % "; ".join(init_names))
    t += tbl.definitions() + "".join(parts)
    parts = None
    for n, f in obl:
        t += "Theorem %s : forallb (%s) all_systems = true.\nProof. vm_cast_no_check (@eq_refl bool true). Qed.\n" % (n, f)
    # C07 at router level.  Per system: the list of raw-action listeners itself, computed once ([] = the premise of
    # C07_router_rejected_is_noop holds for that system); then: every one of them is inside the REVIEWED list (Model/DispatchReviewed.v)
    rl_names = []
    for (label, comps), sysname in zip(systems, names):
        rl = raw_listeners(comps)
        thm = "raw_listeners_of_" + sysname[4:]
        rl_names.append(thm)
        lit = cl("(%s, %s, %s)" % (cs(a), cs(b), cs(c)) for a, b, c in rl)
        if sysname in same_as:
            t += "Theorem %s : raw_action_listeners unit unit %s = %s.\nProof. exact raw_listeners_of_%s. Qed.\n" % (thm, sysname, lit, same_as[sysname][4:])
        else:
            t += ("Theorem %s : raw_action_listeners unit unit %s = %s.\nProof. vm_cast_no_check (@eq_refl (list (string * string * string)) %s). Qed.\n"
                  % (thm, sysname, lit, lit))
        obl.append((thm, None))
    t += ("Theorem shipped_raw_listeners_reviewed : forallb (raw_listeners_reviewed unit unit reviewed_raw_listeners) all_systems = true.\n"
          "Proof. unfold all_systems. cbn [forallb]. unfold raw_listeners_reviewed. rewrite %s. vm_compute. reflexivity. Qed.\n" % ", ".join(rl_names))
    obl.append(("shipped_raw_listeners_reviewed", None))
    if inits is not None:
        t += ("Theorem shipped_bound_in_initial_store :\n  List.length all_initial_addresses = List.length all_systems /\\\n"
              "  forallb (fun p => bound_in unit unit (fst p) (snd p)) (combine all_initial_addresses all_systems) = true.\n"
              "Proof. vm_compute. split; reflexivity. Qed.\n")
        obl.append(("shipped_bound_in_initial_store", None))
    t += "Theorem shipped_systems_counted : List.length all_systems = %d /\\ List.length (List.concat all_systems) = %d.\nProof. vm_compute. split; reflexivity. Qed.\n" % (
        len(systems), sum(len(c) for _l, c in systems))
    for n, _f in obl:
        t += "Print Assumptions %s.\n" % n
    t += "Print Assumptions shipped_systems_counted.\n"
    return t


def find_key(keys, sig):
    """Python mirror of _find_mapping_name over ordered keys (None = not found; an empty key never matches here)"""
    if sig in keys:
        return sig
    for k in keys:
        if k and k[0] == "$" and k.replace("$", "") in sig:
            return k
    return None


def raw_listeners(comps):
    """mirror of Model/DispatchReviewed.v raw_action_listeners: (listener, key, owner), in the same order"""
    out = []
    for o in comps:
        for k, m in o["keys"]:
            if k != o["name"] + "." + m:
                continue
            for l in comps:
                if l["name"] == o["name"]:
                    continue
                key = find_key([x for x, _m in l["keys"]], k)
                if key is not None:
                    out.append((l["name"], key, o["name"]))
    return out


REVIEWED_RAW_LISTENERS = None


def reviewed_raw_listeners():
    """the reviewed (listener, key) pairs, read from the hand-written Coq file (single source)"""
    global REVIEWED_RAW_LISTENERS
    if REVIEWED_RAW_LISTENERS is None:
        from lib.vf import VERIF
        txt = (VERIF / "coq/theories/Model/DispatchReviewed.v").read_text()
        body = txt[txt.index("Definition reviewed_raw_listeners"):]
        REVIEWED_RAW_LISTENERS = set(re.findall(r'\("([^"]*)", "([^"]*)"\)', body))
    return REVIEWED_RAW_LISTENERS


def python_obligations(label, comps, init_addrs=None):
    """the same guards evaluated in Python, to name a concrete witness when the Coq obligation fails"""
    bad = []
    for ln, key, owner in raw_listeners(comps):
        if (ln, key) not in reviewed_raw_listeners():
            bad.append({"what": "C07: a listening key is matched by the raw action signature of another component and is not in the reviewed list "
                                "(a rejected use of the owner is then answered by the listener too)", "system": label, "component": ln,
                        "listened_key": key, "owner": owner, "mechanism": "raw-action-listener"})
    if init_addrs is not None:
        own = {"global.dynamics", CLOCK} | {"%s.%s" % (c["local"], n) for c in comps for n in c["defaults"]}
        for c in comps:
            for (n, a), addr in zip(c["bound_names"], c["bound"]):
                if addr not in init_addrs or addr not in own:
                    bad.append({"what": "C10: a bound name resolves to an address that no component owns and that is absent from the initial store "
                                        "(every view and every dispatch of the component raises ValueError)", "system": label, "component": c["name"],
                                "bound_name": n, "bind": a, "address": addr})
    seen = set()
    for c in comps:
        if CLOCK in c["bound"]:
            bad.append({"what": "C06: component binds the clock address", "system": label, "component": c["name"], "bound": c["bound_names"]})
        if CALLBACKS in c["bound"]:
            bad.append({"what": "C05: component binds play()'s callback entity", "system": label, "component": c["name"], "bound": c["bound_names"]})
        for a in c["addons"]:
            act = a["action"]
            sig = act["name"] if not act["method"] else act["name"] + "." + act["method"]
            if sig == "*.elapse":
                bad.append({"what": "C06: an addon re-dispatches *.elapse", "system": label, "component": c["name"], "addon": a})
        if c["name"] in seen:
            bad.append({"what": "C05: two installed components share a name", "system": label, "component": c["name"]})
        seen.add(c["name"])
        if any(k == "" for k, _m in c["keys"]):
            bad.append({"what": "empty mapping key", "system": label, "component": c["name"]})
    return bad


# ------------------------------------------------------------------------------------------- recording
class Ids:
    def __init__(self):
        self.ents = Interner(1)
        self.pays = Interner(2)      # 0 = None, 1 = {}

    def ent(self, e) -> int:
        return self.ents(digest({"cls": type(e).__name__, "payload": e.model_dump()}))

    def pay(self, p) -> int:
        if p is None:
            return 0
        if hasattr(p, "model_dump"):
            p = p.model_dump()
        if p == {} and isinstance(p, dict):
            return 1
        return self.pays(digest(p))


class RedProxy:
    """stands in for one entry of reducer_mappings: logs the invocation"""

    def __init__(self, inner, comp, key, rec):
        self._vf_inner, self.comp, self.key, self.rec = inner, comp, key, rec
        self._raw = None

    def translate_payload(self, payload):
        self._raw = payload
        return self._vf_inner.translate_payload(payload)

    def get_state_type(self):
        return self._vf_inner.get_state_type()

    def __call__(self, payload, state):
        rec = self.rec
        fin = [(k, rec.ids.ent(v)) for k, v in dict(state).items()]
        out, ev = self._vf_inner(payload, state)
        fout = [(k, rec.ids.ent(v)) for k, v in dict(out).items()]
        raw = None if ev is None else ([dict(e) for e in ev] if isinstance(ev, list) else dict(ev))
        rec.invocations.append({"comp": self.comp, "key": self.key, "method": rec.method_of[(self.comp, self.key)],
                                "pay": rec.ids.pay(self._raw), "raw_payload": self._raw, "fields_in": fin, "fields_out": fout,
                                "raw": raw, "addon": rec.depth[0] > 0, "cls": _cls_of(self._vf_inner),
                                "in_is_out": out is state or _same(state, out)})
        return out, ev

    def __getattr__(self, k):
        return getattr(self._vf_inner, k)


def _cls_of(wrapper):
    f = getattr(wrapper, "_func", None)
    return type(getattr(f, "__self__", None)).__name__


def _same(a, b):
    try:
        return a.model_dump() == b.model_dump()
    except Exception:
        return False


class BaseProxy:
    """stands in for a TandemDispatcher._base_dispatcher: logs the write set of one dispatcher call"""

    def __init__(self, inner, rec):
        self._vf_inner, self.rec = inner, rec

    def includes(self, signature):
        return self._vf_inner.includes(signature)

    def init_store(self, store):
        return self._vf_inner.init_store(store)

    def __call__(self, action, store):
        ents = store._concrete_store._entities
        before = dict(ents)
        n0 = len(self.rec.invocations)
        events = self._vf_inner(action, store)
        written = [k for k, v in ents.items() if k not in before or before[k] is not v]
        appeared = [k for k in ents if k not in before]
        changed = [k for k in written if k in before and _edump(before[k]) != _edump(ents[k])]
        self.rec.calls.append({"comp": self._vf_inner._name, "action": {"name": action["name"], "method": action["method"]},
                               "payload": action.get("payload"), "written": written, "appeared": appeared, "changed": changed,
                               "events": [dict(e) for e in events], "invocations": self.rec.invocations[n0:],
                               "before": {k: _edump(before[k]) for k in changed}, "after": {k: _edump(ents[k]) for k in changed + appeared}})
        return events

    def __getattr__(self, k):
        return getattr(self._vf_inner, k)


def _edump(e):
    try:
        return {"cls": type(e).__name__, "payload": json.loads(json.dumps(e.model_dump(), default=str))}
    except Exception:
        return repr(e)


class NestProxy:
    """stands in for ContextDispatcher._context (the router): counts the nesting depth"""

    def __init__(self, inner, depth):
        self._vf_inner, self.depth = inner, depth

    def __call__(self, action, store):
        self.depth[0] += 1
        try:
            return self._vf_inner(action, store)
        finally:
            self.depth[0] -= 1

    def __getattr__(self, k):
        return getattr(self._vf_inner, k)


class TopProxy:
    """stands in for engine._router: logs the actions play() hands to the router"""

    def __init__(self, inner, rec):
        self._vf_inner, self.rec = inner, rec

    def __call__(self, action, store):
        self.rec.dispatched.append(dict(action))
        return self._vf_inner(action, store)

    def __getattr__(self, k):
        return getattr(self._vf_inner, k)


class Recording:
    def __init__(self, label):
        self.label = label
        self.ids = Ids()
        self.invocations, self.calls, self.dispatched, self.plays, self.timer = [], [], [], [], []
        self.depth = [0]
        self.method_of = {}
        self.comps = None
        self.st0 = None
        self.clock0 = None
        self.state_fields = {}     # (comp, key) -> field names of the state type
        self.bases = {}            # component name -> the real ReducerMethodWrappingDispatcher
        self.viewset = None        # set (C10) to probe every registered view on the store after every play
        self.views = None
        self.view_obs, self.view_findings = [], []
        self.view_stats = collections.Counter()
        self.deep_every = 4
        self.error = None

    def store_ids(self, store):
        return [(k, self.ids.ent(v)) for k, v in store._concrete_store._entities.items() if k != CALLBACKS]

    def attach(self, router, store):
        """wrap everything of a real router (in place); returns the proxy to hand to play()"""
        from simaple.simulate.global_property import Clock
        from simaple.simulate.timer import timer_delay_dispatcher
        router._route_cache.clear()            # semantically neutral (C02); the model starts from the empty cache
        self.comps = extract(router, store)
        rec = self
        for i, d in enumerate(list(router._dispatchers)):
            if d is timer_delay_dispatcher:
                def timer_proxy(action, store_, _d=d):
                    ents = store_._concrete_store._entities
                    ck = ents.get(CLOCK)
                    b = rec.ids.ent(ck) if ck is not None else rec.ids.ent(Clock())
                    had = ck is not None
                    out = _d(action, store_)
                    a = rec.ids.ent(ents[CLOCK]) if CLOCK in ents else None
                    rec.timer.append({"before": b, "had": had, "pay": rec.ids.pay(action.get("payload")), "after": a,
                                      "action": {"name": action["name"], "method": action["method"]}, "events": out})
                    return out
                timer_proxy.includes = d.includes
                timer_proxy.init_store = d.init_store
                timer_proxy.__wrapped_timer__ = True
                router._dispatchers[i] = timer_proxy
                continue
            b = d._base_dispatcher
            self.bases[b._name] = b
            for k in list(b.reducer_mappings):
                self.method_of[(b._name, k)] = b.method_mappings[k]
                w = b.reducer_mappings[k]
                if w is not None:
                    try:
                        self.state_fields[(b._name, k)] = list(w.get_state_type().model_fields)
                    except Exception:
                        self.state_fields[(b._name, k)] = None
                    b.reducer_mappings[k] = RedProxy(w, b._name, k, self)
            d._base_dispatcher = BaseProxy(b, self)
            for nx in d._next_dispatchers:
                nx._context = NestProxy(nx._context, self.depth)
        self.clock0 = self.ids.ent(Clock())
        self.st0 = self.store_ids(store)
        return TopProxy(router, self)

    def play(self, orig_play, store, action, router):
        del self.dispatched[:]
        n0, c0, t0 = len(self.invocations), len(self.calls), len(self.timer)
        ents = store._concrete_store._entities
        ck0 = _edump(ents[CLOCK]) if CLOCK in ents else None
        out = orig_play(store, action, router)
        st2, events = out
        ents = st2._concrete_store._entities
        self.plays.append({"action": dict(action), "dispatched": list(self.dispatched), "events": [dict(e) for e in events],
                           "invocations": self.invocations[n0:], "calls": (c0, len(self.calls)), "timer": self.timer[t0:],
                           "after": self.store_ids(st2), "clock_before": ck0,
                           "clock_after": _edump(ents[CLOCK]) if CLOCK in ents else None})
        if self.viewset is not None:
            probe_views(self, st2, deep=(len(self.plays) % self.deep_every == 1))
        return out


def _vdump(x):
    from lib.h_engine import norm
    return norm(x)


def _close(a, b, tol=1e-9):
    if isinstance(a, dict) and isinstance(b, dict):
        return a.keys() == b.keys() and all(_close(a[k], b[k], tol) for k in a)
    if isinstance(a, (int, float)) and isinstance(b, (int, float)):
        return abs(a - b) <= tol * max(1.0, abs(a), abs(b))
    return a == b


def probe_views(rec, store, deep=False):
    """C10 on one live store: evaluate every registered view; log what each component view READS, whether anything in the
    store changed, whether it raised; check every aggregation against its children (buff = Stat.sum, in order / shuffled)"""
    from simaple.core.base import Stat
    vs, vd = rec.viewset, rec.views
    cstore = store._concrete_store
    ents = cstore._entities
    reads = []
    orig = cstore.read_entity

    def logged(name, default):
        reads.append(name)
        return orig(name, default)
    where = {"system": rec.label, "plan": getattr(rec, "lines", None), "after_play": len(rec.plays)}
    base = store.save() if deep else None
    cstore.read_entity = logged
    try:
        kinds = {v["full"]: v for v in vd["component_views"]}
        for name, view in list(vs._views.items()):
            del reads[:]
            ident = dict(ents)
            rec.view_stats["view_calls"] += 1
            try:
                view(store)
            except Exception as ex:
                cv = kinds.get(name)
                rec.view_findings.append(dict(prop="C10", what="H-dispatch: view %s raised %r" % (name, ex), component=(cv or {}).get("cls", "viewset"),
                                              name=(cv or {}).get("component", name), reducer=(cv or {}).get("view", name), **where))
                continue
            changed = [k for k in ents if k not in ident or ident[k] is not ents[k]] + [k for k in ident if k not in ents]
            if not changed and deep and store.save() != base:
                changed = ["(store.save() differs)"]
            if changed:
                rec.view_stats["views_that_changed_the_store"] += 1
                cv = kinds.get(name)
                rec.view_findings.append(dict(prop="C10", what="H-dispatch: evaluating view %s changed the store at %s" % (name, changed[:4]),
                                              component=(cv or {}).get("cls", "viewset"), name=(cv or {}).get("component", name),
                                              reducer=(cv or {}).get("view", name), **where))
            if name in kinds:
                rec.view_obs.append((kinds[name]["component"], kinds[name]["view"], tuple(reads)))
        # aggregations vs their children
        for agg in vd["aggregations"]:
            try:
                kids = [vs._views[n](store) for n in agg["children"]]
                got = vs._views[agg["name"]](store)
            except Exception:
                continue        # reported above
            rec.view_stats["aggregation_checks"] += 1
            if agg["cls"] == "BuffParentView":
                some = [k for k in kids if k is not None]
                exp = Stat.sum(list(some))
                rec.view_stats["buff_children_some"] += len(some)
                d_got, d_exp = _vdump(got), _vdump(exp)
                import math
                if not all(isinstance(x, (int, float)) and math.isfinite(x) for x in d_got.values()):
                    rec.view_findings.append(dict(prop="C10", what="H-dispatch: the total buff is not a well-formed stat block", component="BuffParentView",
                                                  name="buff", reducer="aggregate", value=d_got, **where))
                if d_got != d_exp:
                    rec.view_findings.append(dict(prop="C10", what="H-dispatch: viewer('buff') is not Stat.sum of the component buffs that are not None, in "
                                                  "installation order", component="BuffParentView", name="buff", reducer="aggregate",
                                                  children=agg["children"], some=len(some), observed=d_got, expected=d_exp, **where))
                sh = list(some)
                random.Random(len(rec.plays)).shuffle(sh)
                if not _close(_vdump(Stat.sum(sh)), d_got):
                    rec.view_findings.append(dict(prop="C10", what="H-dispatch: the total buff depends on the installation order beyond rounding noise",
                                                  component="BuffParentView", name="buff", reducer="aggregate", observed=d_got,
                                                  shuffled=_vdump(Stat.sum(sh)), **where))
            elif _vdump(got) != _vdump(kids):
                rec.view_findings.append(dict(prop="C10", what="H-dispatch: aggregation view %s is not the list of its children's results in order" % agg["name"],
                                              component=agg["cls"], name=agg["name"], reducer="aggregate", **where))
    finally:
        del cstore.read_entity
    rec.view_stats["stores_probed"] += 1
    rec.view_stats["stores_compared_by_save"] += 1 if deep else 0


def record_engine(job, variant, lines, views=False):
    """a real engine of a shipped job, run through a plan"""
    import simaple.simulate.engine as eng_mod
    rec = Recording("%s/%d" % (job, variant))
    e = simenv.make_engine(job, variant)
    if views:
        rec.viewset = e._viewset
        rec.views = extract_views(e._viewset)
    store = e._history.current_store() if hasattr(e, "_history") else e._store
    pending = store._concrete_store._entities.get(CALLBACKS)
    if pending is not None and pending.events:
        rec.error = "engine starts with pending callbacks"
        return rec
    orig_play = eng_mod.play
    e._router = rec.attach(e._router, store)

    def recording_play(store_, action, router):
        return rec.play(orig_play, store_, action, router)
    eng_mod.play = recording_play
    try:
        for c in simenv.parse_commands(lines):
            if getattr(c, "command_type", None) == "console":
                continue
            e.exec(c)
    except Exception as ex:       # a plan that raises is not a scenario (C16 watches those)
        rec.error = "plan raised %r" % (ex,)
    finally:
        eng_mod.play = orig_play
    rec.lines = lines
    return rec


# ---- a synthetic engine out of real simaple base classes: addons, '$' listeners, a static payload, binds, odd raw events
_SYN = {}


def synthetic_classes():
    if _SYN:
        return _SYN
    from pydantic import BaseModel, ConfigDict
    from simaple.simulate.base import Entity
    from simaple.core.base import Stat
    from simaple.simulate.component.base import Component, ReducerState, reducer_method, view_method
    from simaple.simulate.global_property import Dynamics
    from simaple.simulate.reserved_names import Tag

    class VfDispatchCounter(Entity):
        n: int = 0

    class VfDispatchPayload(BaseModel):
        value: int = 0

    class VfDispatchAny(BaseModel):
        model_config = ConfigDict(extra="allow")

    class VfDispatchStateA(ReducerState):
        counter: VfDispatchCounter
        dynamics: Dynamics

    class VfDispatchStateB(ReducerState):
        counter: VfDispatchCounter
        other: VfDispatchCounter
        scratch: VfDispatchCounter = VfDispatchCounter(n=-1)     # a state field that is NOT a bound name: set_state must skip it

    class VfDispatchCompA(Component):
        limit: int = 2

        def get_default_state(self):
            return {"counter": VfDispatchCounter()}

        @reducer_method
        def use(self, _: None, state: VfDispatchStateA):
            if state.counter.n >= self.limit:
                return state, [{"name": self.name, "payload": {}, "tag": Tag.REJECT, "method": "", "handler": None}]
            state = state.deepcopy()
            state.counter.n += 1
            return state, [{"name": self.name, "payload": {"damage": 10.0, "hit": 1.0}, "tag": Tag.DAMAGE, "method": "", "handler": None},
                           {"name": self.name, "payload": {"time": 30.0}, "tag": Tag.DELAY, "method": ""}]

        @reducer_method
        def elapse(self, time: float, state: VfDispatchStateA):
            return state, {"name": self.name, "payload": {"time": time}, "tag": Tag.ELAPSED, "method": "", "handler": None}

        @reducer_method
        def reset(self, _: None, state: VfDispatchStateA):
            state = state.deepcopy()
            state.counter.n = 0
            return state, None

        @reducer_method
        def poke(self, payload: VfDispatchPayload, state: VfDispatchStateA):
            state = state.deepcopy()
            state.counter.n += payload.value
            return state, [{"name": self.name, "payload": payload.model_dump(), "tag": None, "handler": "h"},
                           {"name": self.name, "payload": {}, "tag": "", "handler": None}]

        @reducer_method
        def ack(self, _: None, state: VfDispatchStateA):
            return state, [{"name": self.name, "payload": {}, "tag": Tag.ACCEPT, "method": "", "handler": None}]

        @view_method
        def validity(self, state: VfDispatchStateA):
            return {"name": self.name, "left": self.limit - state.counter.n}

        @view_method
        def info(self, state: VfDispatchStateA):
            return {"name": self.name}

        @view_method
        def buff(self, state: VfDispatchStateA):
            if state.counter.n == 0:
                return None
            return Stat(attack_power=0.1 * state.counter.n, final_damage_multiplier=5.0 + state.counter.n, ignored_defence=7.5)

    class VfDispatchCompB(Component):
        def get_default_state(self):
            return {"counter": VfDispatchCounter()}

        @reducer_method
        def use(self, _: None, state: VfDispatchStateB):
            state = state.deepcopy()
            state.counter.n += 1
            state.other.n += 100          # writes ANOTHER component's entity through the bind
            return state, []

        @reducer_method
        def elapse(self, time: float, state: VfDispatchStateB):
            return state, None

        @reducer_method
        def trigger(self, payload: VfDispatchAny, state: VfDispatchStateB):
            state = state.deepcopy()
            state.counter.n += 1
            return state, None

        @view_method
        def buff(self, state: VfDispatchStateB):
            return Stat(STR=0.1 * state.other.n, final_damage_multiplier=10.0 + state.counter.n % 7, ignored_defence=20.0)

        @view_method
        def running(self, state: VfDispatchStateB):
            return {"name": self.name, "n": state.counter.n, "other": state.other.n}

        @view_method
        def buffer(self, state: VfDispatchStateB):     # ".*\\.buff" is matched with re.match: this view is a child of the buff aggregation too
            return None

    _SYN.update(A=VfDispatchCompA, B=VfDispatchCompB, Counter=VfDispatchCounter)
    return _SYN


def synthetic_components():
    k = synthetic_classes()
    a = k["A"](id="s1", name="alpha", limit=2,
               addons=[{"when": "use", "destination": "beta", "method": "use", "payload": {}},
                       {"when": "reset", "destination": "gamma.x", "method": "poke", "payload": {"value": 3}}],
               listening_actions={"$.done.global.damage": "reset", "beta.use": "ack",
                                  "$gamma.x$.poke.emitted": {"name": "poke", "payload": {"value": 5}}})
    b = k["B"](id="s2", name="beta", binds={"other": ".alpha.counter"},
               listening_actions={"$.emitted.global.damage": "trigger", "$.emitted.global.de": "trigger", "alpha.use.done.global.delay": "trigger"})
    c = k["A"](id="s3", name="gamma.x", limit=1, binds={"counter": ".beta.counter"}, listening_actions={"$reset$": "ack"})
    return [a, b, c]


SYN_ACTIONS = [
    ("alpha", "use", None), ("*", "elapse", 30.0), ("alpha", "use", None), ("alpha", "use", None), ("beta", "use", None),
    ("*", "elapse", 0.5), ("gamma.x", "use", None), ("gamma.x", "use", None), ("alpha", "reset", None), ("*", "use", None),
    ("gamma.x", "poke", {"value": 2}), ("*.elapse", "", 7.0), ("nobody", "use", None), ("alpha", "", None), ("*", "elapse", 1000.0),
    ("alpha", "ack", None), ("*", "reset", None), ("*", "elapse", 0.0),
]


def record_synthetic(rng, n_extra=0, views=False):
    from simaple.core.base import ActionStat
    from simaple.simulate.base import play as orig_play
    from simaple.simulate.kms import get_builder
    rec = Recording("synthetic")
    comps = synthetic_components()
    orig_binds = {c.name: dict(c.binds) for c in comps}
    b = get_builder(comps, ActionStat())         # kms.py: clock view, components, the timer, the five aggregation views
    store = b._store
    rec.initial_addresses = [a for a in store.save().keys() if a != CALLBACKS]
    if views:
        rec.viewset = b._viewset
        rec.views = extract_views(b._viewset)
        rec.deep_every = 2
    router = rec.attach(b._router, store)
    rec.orig_binds = orig_binds
    rec.components = comps
    actions = list(SYN_ACTIONS)
    names = ["alpha", "beta", "gamma.x", "*"]
    for _ in range(n_extra):
        actions.append((rng.choice(names), rng.choice(["use", "elapse", "reset", "ack"]), None))
        if actions[-1][1] == "elapse":
            actions[-1] = (actions[-1][0], "elapse", float(rng.choice([0, 1, 30, 250])))
    try:
        for n, m, p in actions:
            rec.play(orig_play, store, {"name": n, "method": m, "payload": p}, router)
    except Exception as ex:
        rec.error = "synthetic run raised %r" % (ex,)
    rec.lines = ["%s.%s(%r)" % a for a in actions]
    return rec


# ------------------------------------------------------------------------------------------- shards
def ev_term(ids, e, tagged=True) -> str:
    return "(E %s %s %s %s %s)" % (cs(e["name"]), cn(ids.pay(e["payload"])), cs(e.get("method", "") or ""), cos(e.get("tag")), cos(e.get("handler")))


def shard_plays(rec: Recording) -> tuple:
    """(Coq text, per-play info) for one recording"""
    ids = rec.ids
    comps = [d for k, d in rec.comps if k == "comp"]
    if [k for k, _d in rec.comps] != ["comp"] * len(comps) + ["timer"]:
        raise Unknown("installed layout is not components followed by the timer: %s" % [k for k, _d in rec.comps])
    tables = collections.defaultdict(list)
    seen = {}
    conflicts = []
    for inv in rec.invocations:
        key = (inv["comp"], inv["key"])
        fields = rec.state_fields.get(key)
        order = [n for n, _a in next(c for c in comps if c["name"] == inv["comp"])["bound_names"]]
        fin = dict(inv["fields_in"])
        keyids = [fin[n] for n in order if n in fin]
        me = inv["raw"]
        if me is None:
            mt = "RNone"
        elif isinstance(me, dict):
            mt = "(ROne %s)" % ev_term(ids, me)
        else:
            mt = "(RList %s)" % cl(ev_term(ids, e) for e in me)
        val = "(%s, %s)" % (cl("(%s, %s)" % (cs(k), cn(v)) for k, v in inv["fields_out"]), mt)
        k2 = (key, inv["pay"], tuple(keyids))
        if k2 in seen:
            if seen[k2] != val:
                conflicts.append({"component": inv["comp"], "key": inv["key"], "payload": inv["raw_payload"]})
            continue
        seen[k2] = val
        tables[key].append("(%s, %s, %s)" % (cn(inv["pay"]), cl(cn(x) for x in keyids), val))
    ctxt = []
    for c in comps:
        maps = []
        for k, m in c["keys"]:
            fields = rec.state_fields.get((c["name"], k))
            if fields is None:
                fields = [n for n, _a in c["bound_names"]]
            maps.append("(%s, M %s %s %s)" % (cs(k), cs(m), cl(cs(f) for f in fields), cl(tables.get((c["name"], k), []))))
        defaults = []
        for n in c["defaults"]:
            defaults.append("(%s, %s)" % (cs(n), cn(rec.default_ids[(c["name"], n)])))
        addons = []
        for a, when in zip(c["addons"], c["addon_whens"]):
            act = a["action"]
            addons.append("{| ad_when := %s; ad_action := Ac %s %s %s |}" % (cs(when), cs(act["name"]), cs(act["method"]), cn(ids.pay(act["payload"]))))
        ctxt.append("{| c_name := %s;\n     c_maps := %s;\n     c_default := %s; c_binds := %s; c_addons := %s |}" % (
            cs(c["name"]), cl(maps), cl(defaults), cl("(%s, %s)" % (cs(k), cs(v)) for k, v in c["binds"]), cl(addons)))
    sp = {}
    for t in rec.timer:
        if t["after"] is not None and (t["action"]["name"] == "*" or t["action"]["method"] == "elapse"):
            sp[(t["before"], t["pay"])] = t["after"]
    plays, infos = [], []
    for p in rec.plays:
        a = p["action"]
        sigs = [x["name"] if not x["method"] else x["name"] + "." + x["method"] for x in p["dispatched"]]
        evs = ["(%s, %s, %s, %s)" % (cs(e["name"]), cs(e["method"]), cos(e.get("tag")), cn(ids.pay(e["payload"]))) for e in p["events"]]
        invs = ["(%s, %s, %s, %s, %s)" % (cs(i["comp"]), cs(i["key"]), cs(i["method"]), cn(i["pay"]), "true" if i["addon"] else "false")
                for i in p["invocations"]]
        after = ["(%s, %s)" % (cs(k), cn(v)) for k, v in p["after"]]
        plays.append("(PAct %s %s %s, (%s, %s, %s, %s))" % (cs(a["name"]), cs(a["method"]), cn(ids.pay(a.get("payload"))),
                                                           cl(cs(s) for s in sigs), cl(evs), cl(invs), cl(after)))
        infos.append({"action": a, "dispatched": len(sigs), "events": len(evs), "invocations": len(invs)})
    txt = (HEADER + "Definition comps : list xcomponent :=\n  %s.\n" % cl(ctxt) +
           "Definition sp : stable := %s.\n" % cl("(%s, %s, %s)" % (cn(b), cn(p), cn(a)) for (b, p), a in sp.items()) +
           "Definition st0 : list (string * N) := %s.\n" % cl("(%s, %s)" % (cs(k), cn(v)) for k, v in rec.st0) +
           "Definition plays : list (xpaction * play_exp) :=\n  %s.\n" % cl(plays) +
           "Eval vm_compute in (bad (check_plays comps %s sp 12 st0 plays)).\n" % cn(rec.clock0))
    return txt, infos, conflicts


def default_ids(rec: Recording, router):
    out = {}
    for d in router._dispatchers:
        b = getattr(d, "_base_dispatcher", None)
        if b is None:
            continue
        b = getattr(b, "_vf_inner", b)
        for n, e in b._default_state.items():
            out[(b._name, n)] = rec.ids.ent(e)
    return out


# ------------------------------------------------------------------------------------------- case generation
def near_misses(rng, keys, observed):
    """signatures around the keys of one dispatcher: exact, prefix/suffix/substring corners of the '$' rule"""
    out = set(observed)
    for k in keys:
        out.add(k)
        out.add(k[:-1])
        out.add(k + "x")
        out.add("x" + k)
        if k.startswith("$"):
            r = k.replace("$", "")
            out.update([r, "x" + r, r + "x", "x" + r + "y", r[1:], r[:-1], "x" + r[:-1], "$" + r, r + "$", "y." + r.strip(".") if r.strip(".") else "y",
                        "a" + r[: len(r) // 2] + "b" + r[len(r) // 2:]])
        if "." in k:
            n, _, m = k.partition(".")
            out.update([n, n + ".", "." + m, m, n + ".." + m, n + "." + m + ".emitted.", n + "." + m + ".emitted.global.damage",
                        n + "." + m + ".done.global.delay"])
    out.update(["", "$", ".", "*", "*.elapse", "*.use"])
    return sorted(out)


SYN_KEYSETS = [
    ["a.use", "*.use", "$.emitted.global.mob"], ["$", "a.b"], ["a.b", "$"], ["$a$b", "$b"], ["$b", "$a$b"], ["a.$b", "$$"], ["x", "", "$y"],
    ["", "$y"], ["$y", ""], ["$a.use", "$.use", "a.use"], ["$.emitted.", "$.emitted.global.damage"], ["$.emitted.global.damage", "$.emitted."],
    ["$한글.use", "한글.use"], ["$$$"], [],
]
SYN_SIGS = ["", "a", "a.use", "a.b", "ab", "b", "xaby", "x.use", "y", "xy", "a.$b", "$", "$y", "z.emitted.global.damage", "z.emitted.", ".emitted",
            "한글.use", "x한글.usey", "한.use", "a.use.emitted.global.mob", "$.emitted.global.mob", "a.use.emitted.global.mo"]


def model_find(keys, sig):
    """Python mirror of Model/Dispatch.v find_mapping_keys, only to show the model's value next to a differing case"""
    if sig in keys:
        return "(FFound %s)" % cs(sig)
    for k in keys:
        if k == "":
            return "FRaise"
        if k[0] == "$" and k.replace("$", "") in sig:
            return "(FFound %s)" % cs(k)
    return "FNone"


def real_find(keys, sig):
    from simaple.simulate.component.base import ReducerMethodWrappingDispatcher
    d = ReducerMethodWrappingDispatcher("n", {k: "m" for k in keys}, {k: None for k in keys}, {})
    try:
        r = d._find_mapping_name(sig)
    except IndexError:
        try:
            d.includes(sig)
            inc = "returned"
        except IndexError:
            inc = "raise"
        return "FRaise", inc
    return ("FNone" if r is None else "(FFound %s)" % cs(r)), d.includes(sig)


RAW_EVENT_SETS = [
    [], [{"name": "a", "payload": {}, "tag": None}], [{"name": "a", "payload": {}, "tag": ""}],
    [{"name": "a", "payload": {}, "tag": "global.reject", "method": "", "handler": None}],
    [{"name": "a", "payload": {}, "tag": "global.accept", "method": "zz", "handler": "h"}],
    [{"name": "a", "payload": {"x": 1}, "tag": "global.damage"}, {"name": "b", "payload": {}, "tag": "global.reject"}],
    [{"name": "a", "payload": {"x": 1}, "tag": "global.damage"}, {"name": "b", "payload": {"time": 3.0}, "tag": "global.delay", "handler": None}],
    [{"name": "a", "payload": {}, "tag": "global.rejec"}, {"name": "a", "payload": {}, "tag": "global.accept "}],
    [{"name": "한글", "payload": {"k": "v"}, "tag": "태그", "handler": "핸들러"}],
]


def chunks(l, n):
    for i in range(0, len(l), n):
        yield l[i:i + n]


# ------------------------------------------------------------------------------------------- C07 at router level
def _router_probe(engine, store, findings, stats, where, seen):
    """on a copy of `store` with the pending callbacks flushed (one `*.elapse` of 0): for every skill whose OWN dispatcher rejects
    `X.use` in that state, the ROUTER's answer must be exactly that reject and the store must stay as it is"""
    from simaple.simulate.base import Checkpoint, TandemDispatcher, play
    router = engine._router
    s0 = Checkpoint.create(store).restore()
    play(s0, {"name": "*", "method": "elapse", "payload": 0}, router)
    base_ck = Checkpoint.create(s0)
    tandems = [d for d in router._dispatchers if isinstance(d, TandemDispatcher)]
    try:
        invalid = [v.name for v in engine._viewset.show("validity", s0) if not v.valid]
    except Exception:
        invalid = []
    by_name = {getattr(d._base_dispatcher, "_name", None): d for d in tandems}
    for x in invalid:
        d = by_name.get(x)
        if d is None:
            continue
        action = {"name": x, "method": "use", "payload": None}
        sig = x + ".use"
        s1 = base_ck.restore()
        try:
            own = d._base_dispatcher(action, s1)
        except Exception:
            continue
        if not any(e.get("tag") == "global.reject" for e in own):
            continue
        stats["rejected_uses_probed"] += 1
        s2 = base_ck.restore()
        before = s2.save()
        before.pop(CALLBACKS, None)
        events = router(action, s2)
        after = s2.save()
        after.pop(CALLBACKS, None)
        changed = sorted(k for k in set(before) | set(after) if before.get(k) != after.get(k))
        if [dict(e) for e in events] == [dict(e) for e in own] and not changed:
            stats["rejected_uses_that_are_noops"] += 1
            continue
        listeners = []
        for t in tandems:
            b = t._base_dispatcher
            if t is not d and b.includes(sig):
                key = b._find_mapping_name(sig)
                listeners.append((b, key))
        extra = [(e["name"], e["method"], e.get("tag")) for e in events if dict(e) not in [dict(o) for o in own]]     # everything but the owner's reject
        if not listeners:
            mech = "addon-after-reject" if d._next_dispatchers else "other"
            k = (x, mech, sig)
            if k not in seen:
                seen.add(k)
                findings.append(dict(prop="C07", what="H-dispatch: a rejected player action is not a no-op at router level (%s): the router answers %s.use with %s"
                                     % (mech, x, [(e["name"], e.get("tag")) for e in events]), component=x, reducer="use", mechanism=mech, listened_key=None,
                                     rejected_action=sig, extra_events=extra, changed_addresses=changed, **where))
        for b, key in listeners:
            k = (b._name, key, sig)
            if k in seen:
                continue
            seen.add(k)
            red = b.reducer_mappings.get(key)
            findings.append(dict(prop="C07", what="H-dispatch: a rejected player action is not a no-op at router level: %s.%s listens to the RAW action %s and "
                                 "acted on the rejected %s" % (b._name, b.method_mappings.get(key), key, sig), component=b._name,
                                 component_class=_cls_of(red) if red is not None else None, reducer=b.method_mappings.get(key),
                                 mechanism="raw-action-listener", listened_key=key, rejected_action=sig, extra_events=extra,
                                 changed_addresses=changed, **where))


def search_router_rejected(rng, quick, budget_s=20.0):
    """all jobs, random plans, NO pending callbacks: `X.use` rejected by its own dispatcher must be a no-op for the router"""
    findings, stats, seen = [], collections.Counter(), set()
    t0 = time.time()
    jobs = list(simenv.JOBS)
    for job in jobs:
        for v in ([1] if quick else [0, 1, 2]):
            if time.time() - t0 > budget_s:
                stats["budget_exhausted"] += 1
                return findings, dict(stats)
            try:
                # targeted: every owner of a raw-action listener, used once so that it is cooling down
                e = simenv.make_engine(job, v)
                comps = [d for k, d in extract(e._router, e._history.current_store()) if k == "comp"]
                for owner in sorted({o for _l, _k, o in raw_listeners(comps)}):
                    e = simenv.make_engine(job, v)
                    lines = ['CAST "%s"' % owner, "ELAPSE 10"]
                    for c in simenv.parse_commands(lines):
                        e.exec(c)
                    stats["targeted_states_probed"] += 1
                    _router_probe(e, e._history.current_store(), findings, stats, {"system": "%s/%d" % (job, v), "plan": lines}, seen)
                e = simenv.make_engine(job, v)
                lines = simenv.random_plan(rng, job, v, 9 if quick else 16, console=False)
                cmds = [c for c in simenv.parse_commands(lines) if getattr(c, "command_type", None) != "console"]
                probe_at = set([len(cmds) - 1] + rng.sample(range(len(cmds)), min(2 if quick else 5, len(cmds))))
                for i, c in enumerate(cmds):
                    e.exec(c)
                    if i in probe_at:
                        stats["states_probed"] += 1
                        _router_probe(e, e._history.current_store(), findings, stats,
                                      {"system": "%s/%d" % (job, v), "plan": lines[:i + 1]}, seen)
            except Exception as ex:
                stats["plans_that_raised"] += 1
    return findings, dict(stats)


def replay_raw_listener_witness():
    """the recorded witness of C07-raw-action-listeners -> (still_failing, detail)"""
    plan = ['CAST "미스트 이럽션"', 'CAST "포이즌 노바"', 'CAST "플레임 스윕 VI"', 'CAST "플레임 스윕 VI"', 'CAST "플레임 스윕 VI"', "ELAPSE 10",
            'USE "미스트 이럽션"']
    last = None
    for v in (1, 2, 0):
        try:
            e = simenv.make_engine("archmagefb", v)
            names = simenv.skill_names("archmagefb", v)
            if "플레임 스윕 VI" not in names:
                continue
            # with hexa levels only the VI form of the owner is installed (the listeners carry both keys)
            owner = "미스트 이럽션" if "미스트 이럽션" in names else "미스트 이럽션 VI"
            plan = [l.replace('"미스트 이럽션"', '"%s"' % owner) for l in plan]
            log = None
            for c in simenv.parse_commands(plan):
                log = e.exec(c)
            evs = log.playlogs[0].events
            own_rej = any(x["name"] == owner and x["tag"] == "global.reject" for x in evs)
            others = [(x["name"], x["method"], x["tag"]) for x in evs
                      if x["name"] in ("포이즌 노바", "플레임 스윕 VI") and x["tag"] == "global.damage"]
            detail = "archmagefb/%d: USE %s while cooling down -> %s" % (v, owner, [(x["name"], x["tag"]) for x in evs][:8])
            return (own_rej and bool(others)), detail
        except Exception as ex:
            last = repr(ex)
    return False, "the witness plan could not be run: %s" % last


# ------------------------------------------------------------------------------------------- the run
def step1(ctx, prop, cov, findings):
    """extraction from freshly built engines of all jobs, gen/DispatchData.v, the generated obligations; the Python mirror of the
    obligations names a concrete witness.  Done once per check (cached on ctx)."""
    cached = getattr(ctx, "_hd_step1", None)
    if cached is not None:
        systems, inits, viewdata, pybad, cov1 = cached
        cov.update(cov1)
    else:
        cov1 = {}
        systems, inits, viewdata, pybad = _step1(ctx, cov1)
        ctx._hd_step1 = (systems, inits, viewdata, pybad, cov1)
        cov.update(cov1)
    for b in pybad:
        if b["what"].startswith(prop) or not b["what"].startswith("C"):
            findings.append(dict(prop=prop, what="H-dispatch: " + b["what"], component=b["component"], reducer="(install)", **{k: v for k, v in b.items() if k not in ("what", "component")}))
    return systems, inits, viewdata


def _step1(ctx, cov):
    jobs = list(simenv.JOBS)
    variants = [0, 3] if not ctx.thorough else [0, 1, 2, 3]      # 3 = the all-zero corner of the level space
    systems, pybad, inits, viewdata = [], [], {}, {}
    try:
        for job in jobs:
            for v in variants:
                e = simenv.make_engine(job, v)
                store = e._history.current_store() if hasattr(e, "_history") else e._store
                inits["%s_%d" % (job, v)] = [a for a in store.save().keys() if a != CALLBACKS]
                viewdata["%s_%d" % (job, v)] = extract_views(e._viewset)
                for vn, view in e._viewset._views.items():          # C10 in the initial state: every registered view evaluates
                    try:
                        view(store)
                    except Exception as ex:
                        pybad.append({"what": "C10: view %s raises on the freshly built engine: %r" % (vn, ex), "system": "%s/%d" % (job, v),
                                      "component": vn.rsplit(".", 1)[0], "view": vn})
                comps = [d for k, d in extract(e._router, store) if k == "comp"]
                kinds = [k for k, _d in extract(e._router, store)]
                if kinds != ["comp"] * len(comps) + ["timer"]:
                    raise Unknown("%s/%d: installed layout %s is not components followed by the timer" % (job, v, collections.Counter(kinds)))
                systems.append(("%s_%d" % (job, v), comps))
                pybad += python_obligations("%s/%d" % (job, v), comps, set(inits["%s_%d" % (job, v)]))
    except Unknown as ex:
        ctx.broken.append("H-dispatch extraction: %s" % ex)
    cov["systems"] = len(systems)
    cov["components"] = sum(len(c) for _l, c in systems)
    cov["mapping_keys"] = sum(len(c["keys"]) for _l, cc in systems for c in cc)
    cov["dollar_keys"] = sorted({k for _l, cc in systems for c in cc for k, _m in c["keys"] if k.startswith("$")})
    cov["bind_targets"] = dict(collections.Counter(v for _l, cc in systems for c in cc for _k, v in c["binds"]).most_common(12))
    cov["addons"] = sum(len(c["addons"]) for _l, cc in systems for c in cc)
    if systems:
        ctx.write_gen("DispatchData.v", data_file(systems, inits))
        ok, log, failed = ctx.build(TARGETS)
        if not ok:
            ctx.obligations += 1
            m = re.search(r"Error.*", log, re.S)
            ctx.broken.append("H-dispatch: Model/DispatchExec.v does not build: %s" % " ".join((m.group(0) if m else log[-300:]).split())[:300])
        elif not _check_generated(ctx):     # compiles the file: data + the generated obligations, proved there by vm_compute
            ctx.broken.append("generated obligations of gen/DispatchData.v (clock / callbacks address bound by no component, no addon re-dispatches "
                              "*.elapse, distinct names, non-empty keys, every bind target owned by a component or global and present in the initial store) "
                              "do not check on the components of this tree")
    return systems, inits, viewdata, pybad


def run(ctx, prop: str):
    """returns (implementation counterexamples, nothing else): see the module docstring"""
    t_start = time.time()
    quick = not ctx.thorough
    rng = random.Random(ctx.seed * 7919 + {"C05": 5, "C06": 6, "C07": 7, "C10": 10}.get(prop, 0))
    cov = {"part": prop}
    ctx.cov["dispatch"] = cov
    is10 = prop == "C10"        # C10 = the store-access part of the views; the dispatcher glue itself is checked by C05/C06/C07
    findings, diffs = [], []
    timing = cov.setdefault("timing", {})

    def mark(name, _t=[t_start]):
        timing[name] = round(time.time() - _t[0], 1)
        _t[0] = time.time()

    def diff(what, case=None, expected=None, observed=None):
        diffs.append({"what": what, "input": case, "expected_model": expected, "observed_implementation": observed})

    # ---- 1. extraction + generated obligations (once per check: `preflight` may already have done it)
    systems, inits, viewdata = step1(ctx, prop, cov, findings)
    mark("extraction+obligations")
    # ---- 2. recording
    recs = []
    n_eng = 8 if quick else 24          # one short plan per job; the first few also go to Coq as whole-play shards
    n_play_shards = 3 if quick else 24
    rot = list(simenv.JOBS)
    rng.shuffle(rot)
    budget = 14 if quick else 240
    t0 = time.time()
    syn = record_synthetic(rng, 0 if quick else 30, views=is10)
    recs.append(syn)
    for i in range(n_eng):
        if time.time() - t0 > budget:
            break
        job, v = rot[i % len(rot)], rng.choice([0, 0, 1, 2] if not quick else [0, 0, 1])
        lines = simenv.random_plan(rng, job, v, rng.randint(5, 8) if quick else rng.randint(8, 14), console=False)
        if prop == "C07":                  # rejections: the same skill again before its cooldown is over
            lines = [x for l in lines for x in ([l, "USE " + l.split(" ", 1)[1]] if l.startswith(("USE", "CAST")) and rng.random() < 0.5 else [l])]
        try:
            recs.append(record_engine(job, v, lines, views=is10))
        except Unknown as ex:
            ctx.broken.append("H-dispatch recording: %s" % ex)
    cov["recordings"] = [{"label": r.label, "plays": len(r.plays), "invocations": len(r.invocations), "dispatcher_calls": len(r.calls),
                          "error": r.error} for r in recs]
    good = [r for r in recs if r.error is None and r.plays]
    if syn.error:
        ctx.broken.append("H-dispatch: the synthetic engine (real base classes) could not be run: %s" % syn.error)

    mark("recording")
    shards, meta = {}, {}
    istat = collections.Counter()
    if not is10:
        # ---- (a) _find_mapping_name / includes
        keysets, kidx, fcases, finfo = [], {}, [], []
        observed = collections.defaultdict(set)
        for r in good:
            for p in r.plays:
                for a in p["dispatched"]:
                    observed[r.label].add(a["name"] if not a["method"] else a["name"] + "." + a["method"])

        def ks(keys):
            t = tuple(keys)
            if t not in kidx:
                kidx[t] = len(keysets)
                keysets.append(list(keys))
            return kidx[t]
        inc_mismatch = 0
        for r in good:
            comps = [d for k, d in r.comps if k == "comp"]
            obs = sorted(observed[r.label])
            for c in comps:
                keys = [k for k, _m in c["keys"]]
                sigs = near_misses(rng, keys, rng.sample(obs, min(len(obs), 12 if quick else 60)))
                if quick and len(sigs) > 60:
                    dollar = [s for s in sigs if any(k.startswith("$") and k.replace("$", "")[:4] in s for k in keys)]
                    sigs = sorted(set(rng.sample(sigs, 45) + dollar[:25]))
                for s in sigs:
                    exp, inc = real_find(keys, s)
                    if (inc is True) != exp.startswith("(FFound") and inc != "raise":
                        inc_mismatch += 1
                        findings.append(dict(prop=prop, what="H-dispatch: includes() disagrees with _find_mapping_name", component=c["name"], reducer="includes",
                                             signature=s, keys=keys))
                    fcases.append("(%d, %s, %s)" % (ks(keys), cs(s), exp))
                    finfo.append({"keys": keys, "signature": s, "implementation": exp})
        for keys in SYN_KEYSETS:
            for s in SYN_SIGS:
                exp, _inc = real_find(keys, s)
                fcases.append("(%d, %s, %s)" % (ks(keys), cs(s), exp))
                finfo.append({"keys": keys, "signature": s, "implementation": exp})
        order = list(range(len(fcases)))
        if quick and len(order) > 2200:
            syn_n = len(SYN_KEYSETS) * len(SYN_SIGS)
            found = [j for j in order[:-syn_n] if finfo[j]["implementation"] != "FNone"]
            rest = [j for j in order[:-syn_n] if finfo[j]["implementation"] == "FNone"]
            order = sorted(set(found + rng.sample(rest, max(0, 1800 - len(found))) + order[-syn_n:]))
        for i, ch in enumerate(chunks(order, 500)):
            used = sorted({int(fcases[j][1:fcases[j].index(",")]) for j in ch})
            remap = {u: x for x, u in enumerate(used)}
            ksdef = "Definition keysets : list (list string) := %s.\n" % cl(cl(cs(k) for k in keysets[u]) for u in used)
            cases = ["(%d%s" % (remap[int(fcases[j][1:fcases[j].index(",")])], fcases[j][fcases[j].index(","):]) for j in ch]
            n = "disp_%s_find_%02d" % (prop.lower(), i)
            shards[n] = HEADER + ksdef + "Eval vm_compute in (bad (map (fm_case keysets) %s)).\n" % cl(cases)
            meta[n] = ("find_mapping", [finfo[j] for j in ch])
        fcases = [fcases[j] for j in order]
        finfo = [finfo[j] for j in order]
        cov["find_mapping_cases"] = len(fcases)
        cov["find_mapping_results"] = dict(collections.Counter(x["implementation"].split()[0].strip("(") for x in finfo))

        # ---- (b) tag_events_by_method_name
        from simaple.simulate.component.base import ReducerMethodWrappingDispatcher
        tcases, tinfo = [], []
        ids = Ids()
        raws = [("n", "m", r) for r in RAW_EVENT_SETS] + [("한", "", RAW_EVENT_SETS[1]), ("n", "global.accept", RAW_EVENT_SETS[2])]
        seen_raw = set()
        for r in good:
            for inv in r.invocations:
                raw = inv["raw"]
                evs = [] if raw is None else ([raw] if isinstance(raw, dict) else raw)
                k = (inv["comp"], inv["method"], digest(evs))
                if k in seen_raw:
                    continue
                seen_raw.add(k)
                raws.append((inv["comp"], inv["method"], evs))
        if quick and len(raws) > 400:
            raws = raws[:len(RAW_EVENT_SETS) + 2] + rng.sample(raws[len(RAW_EVENT_SETS) + 2:], 380)
        for name, method, evs in raws:
            d = ReducerMethodWrappingDispatcher(name, {}, {}, {})
            try:
                out = d.tag_events_by_method_name(method, [dict(e) for e in evs])
            except Exception as ex:
                diff("tag_events_by_method_name raised %r" % ex, {"name": name, "method": method, "raw": evs})
                continue
            tcases.append("(%s, %s, %s, %s)" % (cs(name), cs(method), cl(ev_term(ids, e) for e in evs), cl(ev_term(ids, e) for e in out)))
            tinfo.append({"name": name, "method": method, "raw": evs, "implementation": out})
            # the statement itself, on the implementation
            rawtags = [e.get("tag") for e in evs]
            has = any(t in ("global.reject", "global.accept") for t in rawtags)
            acc = len(out) - len(evs)
            if acc != (0 if has else 1) or (acc == 1 and out[-1].get("tag") != "global.accept"):
                findings.append(dict(prop=prop, what="H-dispatch: ACCEPT rule: %d event(s) appended for raw tags %r" % (acc, rawtags), component=name, reducer=method, raw=evs, out=out))
        for i, ch in enumerate(chunks(list(range(len(tcases))), 400)):
            n = "disp_%s_tag_%02d" % (prop.lower(), i)
            shards[n] = HEADER + "Eval vm_compute in (bad (map tag_case %s)).\n" % cl(tcases[j] for j in ch)
            meta[n] = ("tag_events", [tinfo[j] for j in ch])
        cov["tag_cases"] = len(tcases)
        cov["tag_raw_tags"] = dict(collections.Counter(str(e.get("tag")) for x in tinfo for e in x["raw"]).most_common(12))

    # ---- (c) bound names and write sets
    bcases, binfo, wcases, winfo = [], [], [], []
    seen_b = set()
    for label, comps in [(l, c) for l, c in systems] + [(r.label, [d for k, d in r.comps if k == "comp"]) for r in good]:
        for c in comps:
            binds = c["binds"]
            if label == "synthetic":
                binds = list(syn.orig_binds[c["name"]].items())      # as given to Component(...), before the GlobalProperty merge
            k = (c["name"], tuple(c["defaults"]), tuple(binds), tuple(c["bound"]))
            if k in seen_b:
                continue
            seen_b.add(k)
            bcases.append("(%s, %s, %s, %s)" % (cs(c["name"]), cl(cs(n) for n in c["defaults"]), cl("(%s, %s)" % (cs(a), cs(b)) for a, b in binds),
                                                cl(cs(a) for a in c["bound"])))
            binfo.append({"system": label, "component": c["name"], "defaults": c["defaults"], "binds": binds, "implementation_bound": c["bound"]})
    wstat = collections.Counter()
    for r in good:
        comps = {d["name"]: d for k, d in r.comps if k == "comp"}
        for call in r.calls:
            c = comps[call["comp"]]
            wstat["dispatcher_calls"] += 1
            wstat["written_addresses"] += len(call["written"])
            wstat["appeared_addresses"] += len(call["appeared"])
            k = (call["comp"], tuple(call["written"]))
            if call["written"] and k not in seen_b:
                seen_b.add(k)
                binds = c["binds"] if r.label != "synthetic" else list(syn.orig_binds[c["name"]].items())
                wcases.append("(%s, %s, %s, %s)" % (cs(c["name"]), cl(cs(n) for n in c["defaults"]), cl("(%s, %s)" % (cs(a), cs(b)) for a, b in binds),
                                                    cl(cs(a) for a in call["written"])))
                winfo.append({"system": r.label, "component": c["name"], "action": call["action"], "written": call["written"], "bound": c["bound"]})
            # the statement on the implementation: nothing outside the bound set is written; nothing appears when all were present
            outside = [a for a in call["written"] if a not in c["bound"]]
            if outside:
                findings.append(dict(prop=prop, what="H-dispatch: a dispatcher call wrote an address outside the bound names of its component: %s" % outside,
                                     component=call["comp"], reducer=call["action"]["method"], system=r.label, action=call["action"], bound=c["bound"], written=call["written"]))
    for i, ch in enumerate(chunks(list(range(len(bcases))), 500)):
        n = "disp_%s_bound_%02d" % (prop.lower(), i)
        shards[n] = HEADER + "Eval vm_compute in (bad (map bound_case %s)).\n" % cl(bcases[j] for j in ch)
        meta[n] = ("bound_names", [binfo[j] for j in ch])
    for i, ch in enumerate(chunks(list(range(len(wcases))), 500)):
        n = "disp_%s_write_%02d" % (prop.lower(), i)
        shards[n] = HEADER + "Eval vm_compute in (bad (map write_case %s)).\n" % cl(wcases[j] for j in ch)
        meta[n] = ("write_set", [winfo[j] for j in ch])
    cov["bound_cases"] = len(bcases)
    cov["write_set_cases"] = len(wcases)
    cov["write_sets"] = dict(wstat)

    # ---- C10: what the views read, the children of the aggregation views, the initial store
    if is10:
        vcases, vinfo, seen_v = [], [], set()
        vstat = collections.Counter()
        for r in good:
            comps = {d["name"]: d for k, d in r.comps if k == "comp"}
            for st_ in (r.view_stats,):
                vstat.update(st_)
            findings += r.view_findings[:4]
            for comp, view, reads in r.view_obs:
                c = comps.get(comp)
                if c is None:
                    diff("a registered component view belongs to no installed dispatcher", {"system": r.label, "component": comp, "view": view})
                    continue
                k = (comp, view, reads, tuple(c["bound"]))
                if k in seen_v:
                    continue
                seen_v.add(k)
                binds = c["binds"] if r.label != "synthetic" else list(syn.orig_binds[c["name"]].items())
                # the component as the DISPATCHER sees it (name, default names, binds) -> the model's bound addresses = what the VIEW read, in order
                vcases.append("(%s, %s, %s, %s)" % (cs(c["name"]), cl(cs(n) for n in c["defaults"]), cl("(%s, %s)" % (cs(a), cs(b)) for a, b in binds),
                                                    cl(cs(a) for a in reads)))
                vinfo.append({"system": r.label, "component": comp, "view": view, "implementation_reads": list(reads), "dispatcher_bound": c["bound"]})
        for i, ch in enumerate(chunks(list(range(len(vcases))), 500)):
            n = "disp_%s_reads_%02d" % (prop.lower(), i)
            shards[n] = HEADER + "Eval vm_compute in (bad (map bound_case %s)).\n" % cl(vcases[j] for j in ch)
            meta[n] = ("view_reads", [vinfo[j] for j in ch])
        ccases, cinfo, icases, iinfo = [], [], [], []
        allviews = dict(viewdata)
        if syn.views is not None:
            allviews["synthetic"] = syn.views
        for label, vd in allviews.items():
            for agg in vd["aggregations"]:
                ccases.append("(%s, %s, %s)" % (cl(cs(n) for n in vd["names"]), cs(agg["kind"]), cl(cs(n) for n in agg["children"])))
                cinfo.append({"system": label, "aggregation": agg["name"], "pattern": agg["pattern"], "registered": len(vd["names"]), "implementation": agg["children"]})
        vstat["aggregation_views"] = len(ccases)
        vstat["component_views_registered"] = sum(len(vd["component_views"]) for vd in allviews.values())
        for label, comps in systems:
            icases.append("(%s, %s)" % (cl("(%s, %s)" % (cs(c["name"]), cl(cs(n) for n in c["defaults"])) for c in comps), cl(cs(a) for a in inits[label])))
            iinfo.append({"system": label, "implementation": inits[label]})
        if syn.error is None and getattr(syn, "initial_addresses", None):
            comps = [d for k, d in syn.comps if k == "comp"]
            icases.append("(%s, %s)" % (cl("(%s, %s)" % (cs(c["name"]), cl(cs(n) for n in c["defaults"])) for c in comps), cl(cs(a) for a in syn.initial_addresses)))
            iinfo.append({"system": "synthetic", "implementation": syn.initial_addresses})
        for i, ch in enumerate(chunks(list(range(len(ccases))), 40)):
            n = "disp_%s_children_%02d" % (prop.lower(), i)
            shards[n] = HEADER + "Eval vm_compute in (bad (map children_case %s)).\n" % cl(ccases[j] for j in ch)
            meta[n] = ("children", [cinfo[j] for j in ch])
        for i, ch in enumerate(chunks(list(range(len(icases))), 12)):
            n = "disp_%s_init_%02d" % (prop.lower(), i)
            shards[n] = HEADER + "Eval vm_compute in (bad (map init_case %s)).\n" % cl(icases[j] for j in ch)
            meta[n] = ("init", [iinfo[j] for j in ch])
        # a view called directly on stores that LACK some of its entities: setdefault of defaulted ones, ValueError otherwise
        from simaple.core.base import ActionStat
        from simaple.simulate.kms import bare_store
        K = synthetic_classes()["Counter"]
        dcases, dinfo_ = [], []
        syn_comps = synthetic_components()
        for extra in ([], [".alpha.counter"], [".beta.counter"], [".alpha.counter", ".beta.counter", ".gamma.x.counter"]):
            for comp in syn_comps:
                ob = dict(comp.binds)
                for vn, view in comp.get_views().items():
                    st_ = bare_store(ActionStat())
                    for a in extra:
                        st_.set_entity(a, K(n=1))
                    before = list(st_.save().keys())
                    try:
                        view(st_)
                        exp, obs = "(Some %s)" % cl(cs(a) for a in st_.save().keys()), list(st_.save().keys())
                    except ValueError as ex:
                        exp, obs = "None", "ValueError"
                    dcases.append("(%s, %s, %s, %s, %s)" % (cs(comp.name), cl(cs(n) for n in comp.get_default_state()),
                                                            cl("(%s, %s)" % (cs(a), cs(b)) for a, b in ob.items() if a != "dynamics"), cl(cs(a) for a in before), exp))
                    dinfo_.append({"component": comp.name, "view": vn, "store": before, "implementation": obs})
        n = "disp_%s_viewcall" % prop.lower()
        shards[n] = HEADER + "Eval vm_compute in (bad (map viewcall_case %s)).\n" % cl(dcases)
        meta[n] = ("viewcall", dinfo_)
        cov["views"] = dict(vstat, read_set_cases=len(vcases), direct_view_calls_on_incomplete_stores=len(dcases), children_cases=len(ccases), initial_store_cases=len(icases),
                            distinct_views_observed=len({(v["component"], v["view"]) for v in vinfo}))
        istat.update({"view_calls": vstat["view_calls"], "stores_probed": vstat["stores_probed"]})
    if not is10:
        # ---- (d) addresses, signatures, callbacks, method mappings
        from simaple.simulate.base import AddressedStore, ConcreteStore, _get_event_callbacks, message_signature
        curs = ["", ".a", ".한글", "x.y", "."]
        nms = ["", "a", "a.b", ".a", "a.", "..", "global.time", "한글", "한.글", "previous_callbacks", "a b", "$"]
        rc, lc, mc, cc, dinfo = [], [], [], [], {"resolve": [], "local": [], "msig": [], "callbacks": [], "mappings": []}
        for cur in curs:
            for nm in nms:
                st = AddressedStore(ConcreteStore(), cur)
                rc.append("(%s, %s, %s)" % (cs(cur), cs(nm), cs(st._resolve_address(nm))))
                dinfo["resolve"].append({"current": cur, "name": nm, "implementation": st._resolve_address(nm)})
                lc.append("(%s, %s, %s)" % (cs(cur), cs(nm), cs(st.local(nm)._current_address)))
                dinfo["local"].append({"current": cur, "address": nm, "implementation": st.local(nm)._current_address})
        meths = ["", "use", "elapse", "use.emitted.global.damage", ".", "a.b"]
        for nm in nms:
            for m in meths:
                s = message_signature({"name": nm, "method": m, "payload": None})
                mc.append("(%s, %s, %s)" % (cs(nm), cs(m), cs(s)))
                dinfo["msig"].append({"name": nm, "method": m, "implementation": s})
        evs = [{"name": nm, "payload": p, "method": m, "tag": t, "handler": None}
               for nm in ["a", "한글", "a.b", ""] for m in ["use", "", "x.y"] for t in [None, "", "global.damage", "t.u"] for p in [{}, {"time": 1.5}]]
        for r in good[:3]:
            for p in r.plays[:6]:
                evs += p["events"][:6]
        for e in evs:
            em, dn = _get_event_callbacks(e)
            cc.append("(%s, Ac %s %s %s, Ac %s %s %s)" % (ev_term(ids, e), cs(em["name"]), cs(em["method"]), cn(ids.pay(em["payload"])),
                                                          cs(dn["name"]), cs(dn["method"]), cn(ids.pay(dn["payload"]))))
            dinfo["callbacks"].append({"event": e, "implementation": [em, dn]})
        from simaple.simulate.component.base import StaticPayloadReducerInfo
        mpc = []
        mcomps = list(synthetic_components())
        if quick:
            from simaple.container.simulation import get_skill_components
            mcomps += get_skill_components(simenv.get_env(rot[0], 0))
        else:
            from simaple.container.simulation import get_skill_components
            for job in simenv.JOBS:
                mcomps += get_skill_components(simenv.get_env(job, 0))
        for comp in mcomps:
            mm, rm = comp.get_method_mappings()
            methods = list(comp.get_every_reducer_methods().keys())
            la = comp.listening_actions
            listening = [(k, v) for k, v in la.items() if isinstance(v, str)] + [(k, v.name) for k, v in la.items() if isinstance(v, StaticPayloadReducerInfo)]
            if list(mm) != list(rm):
                diff("get_method_mappings: method_mappings and reducer_mappings differ in key order", {"component": comp.name}, list(mm), list(rm))
            mpc.append("(%s, %s, %s, %s)" % (cs(comp.name), cl(cs(m) for m in methods), cl("(%s, %s)" % (cs(k), cs(v)) for k, v in listening),
                                             cl("(%s, %s)" % (cs(k), cs(mm[k])) for k in rm)))
            dinfo["mappings"].append({"component": comp.name, "methods": methods, "listening": listening, "implementation": [(k, mm[k]) for k in rm]})
        # ConcreteStore.read_entity / set_entity and the timer, called directly
        from simaple.simulate.global_property import Clock
        from simaple.simulate.timer import timer_delay_dispatcher
        K = synthetic_classes()["Counter"]
        rdc, stc, tmc = [], [], []
        dinfo.update(read=[], set=[], timer=[])
        for init in ([], [("x", 1)], [("a", 1), ("x", 2), ("b", 3)]):
            for addr in ("x", "y", ""):
                for dflt in (None, 7):
                    st = ConcreteStore()
                    for k, v in init:
                        st.set_entity(k, K(n=v))
                    try:
                        val = st.read_entity(addr, default=None if dflt is None else K(n=dflt))
                        exp = "(Some (%s, %s))" % (cl("(%s, %s)" % (cs(k), cn(v.n)) for k, v in st._entities.items()), cn(val.n))
                        obs = {"store": [(k, v.n) for k, v in st._entities.items()], "value": val.n}
                    except ValueError:
                        exp, obs = "None", "ValueError"
                    rdc.append("(%s, %s, %s, %s)" % (cl("(%s, %s)" % (cs(k), cn(v)) for k, v in init), cs(addr), "None" if dflt is None else "(Some %s)" % cn(dflt), exp))
                    dinfo["read"].append({"store": init, "address": addr, "default": dflt, "implementation": obs})
                st = ConcreteStore()
                for k, v in init:
                    st.set_entity(k, K(n=v))
                st.set_entity(addr, K(n=9))
                stc.append("(%s, %s, %s, %s)" % (cl("(%s, %s)" % (cs(k), cn(v)) for k, v in init), cs(addr), cn(9), cl("(%s, %s)" % (cs(k), cn(v.n)) for k, v in st._entities.items())))
                dinfo["set"].append({"store": init, "address": addr, "implementation": [(k, v.n) for k, v in st._entities.items()]})
        for nm, m in (("*", "elapse"), ("*", "use"), ("x", "elapse"), ("x", "use"), ("*.elapse", ""), ("", "elapse"), ("*", "")):
            for has in (True, False):
                st = AddressedStore(ConcreteStore())
                if has:
                    st.set_entity("global.time", Clock(current_time=10.0))
                evs_ = timer_delay_dispatcher({"name": nm, "method": m, "payload": 5.0}, st)
                ck = st._concrete_store._entities.get("global.time")
                now = None if ck is None else ck.current_time
                moved = now != (10.0 if has else None)
                ok_val = (not moved) or now == (15.0 if has else 5.0)
                tmc.append("(%s, %s, %s, %s)" % (cs(nm), cs(m), "true" if has else "false", "true" if (moved and ok_val and evs_ == []) else "false"))
                dinfo["timer"].append({"name": nm, "method": m, "clock_present": has, "implementation": {"clock_after": now, "events": evs_}})
        n = "disp_%s_addr" % prop.lower()
        shards[n] = (HEADER + "Eval vm_compute in (bad (map resolve_case %s)).\nEval vm_compute in (bad (map local_case %s)).\n"
                     "Eval vm_compute in (bad (map msig_case %s)).\nEval vm_compute in (bad (map cb_case %s)).\nEval vm_compute in (bad (map maps_case %s)).\n"
                     "Eval vm_compute in (bad (map read_case %s)).\nEval vm_compute in (bad (map set_case %s)).\nEval vm_compute in (bad (map timer_case %s)).\n"
                     % (cl(rc), cl(lc), cl(mc), cl(cc), cl(mpc), cl(rdc), cl(stc), cl(tmc)))
        meta[n] = ("addr", dinfo)
        cov["address_cases"] = {"resolve": len(rc), "local": len(lc), "message_signature": len(mc), "callbacks": len(cc), "method_mappings": len(mpc),
                                "read_entity": len(rdc), "set_entity": len(stc), "timer_direct": len(tmc)}

    if not is10:
        # ---- (e) whole plays, trace-driven
        pstat = collections.Counter()
        for ri, r in enumerate(good[:1 + n_play_shards]):
            try:
                # the default entity ids come from the recorded dispatchers themselves
                r.default_ids = {}
                for c in (r.components if r.label == "synthetic" else []):
                    for nme, e in c.get_default_state().items():
                        r.default_ids[(c.name, nme)] = r.ids.ent(e)
                if r.label != "synthetic":
                    e0 = simenv.make_engine(*_jv(r.label))
                    r.default_ids = default_ids(r, e0._router)
                txt, infos, conflicts = shard_plays(r)
            except Unknown as ex:
                ctx.broken.append("H-dispatch plays: %s" % ex)
                continue
            for c in conflicts[:2]:
                ctx.broken.append("H-dispatch: a reducer answered differently on equal (payload, state): %s" % json.dumps(c, ensure_ascii=False, default=str)[:200])
            n = "disp_%s_play_%02d" % (prop.lower(), ri)
            shards[n] = txt
            meta[n] = ("plays", {"recording": r.label, "plan": getattr(r, "lines", None), "plays": infos})
            pstat["plays"] += len(r.plays)
            pstat["dispatched_actions"] += sum(len(p["dispatched"]) for p in r.plays)
            pstat["invocations"] += len(r.invocations)
            pstat["addon_invocations"] += sum(1 for i in r.invocations if i["addon"])
            pstat["listener_invocations"] += sum(1 for i in r.invocations if ".emitted." in i["key"] or ".done." in i["key"] or i["key"].startswith("$"))
        cov["plays"] = dict(pstat)

    mark("case generation")
    # ---- evaluate
    res = ctx.coq_eval(shards)
    mark("coq evaluation")
    ncase = ndiff = 0
    for n in sorted(res):
        rc_, out = res[n]
        kind, info = meta[n]
        if rc_ != 0:
            ctx.broken.append("correspondence H-dispatch: shard %s (%s) did not evaluate: %s" % (n, kind, " ".join(out[-400:].split())))
            diff("shard %s did not evaluate" % n, {"kind": kind}, None, out[-600:])
            continue
        bads = parse_bad(out)
        if kind == "addr":
            parts = ["resolve", "local", "msig", "callbacks", "mappings", "read", "set", "timer"]
            if len(bads) != 8:
                ctx.broken.append("correspondence H-dispatch: shard %s printed %d lists" % (n, len(bads)))
                continue
            for part, b in zip(parts, bads):
                ncase += len(info[part])
                for j in b[:3]:
                    diff({"resolve": "_resolve_address", "local": "AddressedStore.local", "msig": "message_signature", "callbacks": "_get_event_callbacks",
                          "mappings": "Component.get_method_mappings", "read": "ConcreteStore.read_entity", "set": "ConcreteStore.set_entity",
                          "timer": "timer_delay_dispatcher called directly"}[part] + ": model and implementation differ", info[part][j], "see Model/Dispatch.v",
                         info[part][j].get("implementation"))
                ndiff += len(b)
            continue
        if len(bads) != 1:
            ctx.broken.append("correspondence H-dispatch: shard %s printed %d lists" % (n, len(bads)))
            continue
        b = bads[0]
        if kind == "plays":
            ncase += len(info["plays"])
            ndiff += len(b)
            for j in b[:2]:
                diff("whole play: the model's dispatched signatures / events / reducer-invocation trace / store differ from the implementation's",
                     {"recording": info["recording"], "plan": info["plan"], "play_index": j, "play": info["plays"][j]})
            continue
        ncase += len(info)
        ndiff += len(b)
        for j in b[:3]:
            diff({"find_mapping": "_find_mapping_name", "tag_events": "tag_events_by_method_name", "bound_names": "StoreAdapter._get_bound_names + _resolve_address",
                  "write_set": "write set of one dispatcher call is not inside the model's bound set",
                  "view_reads": "WrappedView: the addresses a view call reads are not the bound addresses of its component's dispatcher, in order",
                  "children": "AggregationView.build: children of an installed aggregation view",
                  "viewcall": "WrappedView called on a store lacking some entities (setdefault of defaulted ones / ValueError)",
                  "init": "address set / order of the freshly built store (install_global_properties + init_store)"}[kind] + ": model and implementation differ",
                 info[j], model_find(info[j]["keys"], info[j]["signature"]) if kind == "find_mapping" else None,
                 info[j].get("implementation") or info[j].get("implementation_bound") or info[j].get("written") or info[j].get("implementation_reads"))
    cov["correspondence"] = {"cases": ncase, "differences": ndiff, "shards": len(shards)}

    if not is10:
        # ---- 4. the statements themselves on the recorded runs
        for r in good:
            comps = [d for k, d in r.comps if k == "comp"]
            byname = {c["name"]: c for c in comps}
            # C07: a rejected dispatch leaves the store as it was and is reported alone
            for call in r.calls:
                tags = [e.get("tag") for e in call["events"]]
                if "global.reject" in tags:
                    istat["rejected_dispatches"] += 1
                    cls = call["invocations"][0]["cls"] if call["invocations"] else "?"
                    red = call["invocations"][0]["method"] if call["invocations"] else call["action"]["method"]
                    if prop == "C07":
                        if call["changed"] or call["appeared"]:
                            findings.append(dict(prop="C07", what="H-dispatch: a rejected action changed the state (store differs after the dispatch at %s)" % (call["changed"] + call["appeared"]),
                                                 component=cls, reducer=red, name=call["comp"], system=r.label, plan=getattr(r, "lines", None), action=call["action"],
                                                 before=call["before"], after=call["after"]))
                        if len(call["events"]) != 1:
                            findings.append(dict(prop="C07", what="H-dispatch: a rejection is accompanied by other events (dispatcher output %s)" % tags,
                                                 component=cls, reducer=red, name=call["comp"], system=r.label, plan=getattr(r, "lines", None), action=call["action"]))
                elif call["invocations"]:
                    istat["accepted_dispatches"] += 1
                    if prop == "C07" and "global.accept" not in tags:
                        findings.append(dict(prop="C07", what="H-dispatch: a dispatch without rejection was not acknowledged (no ACCEPT in %s)" % tags,
                                             component=call["invocations"][0]["cls"], reducer=call["invocations"][0]["method"], name=call["comp"], system=r.label,
                                             action=call["action"]))
                if call["appeared"]:
                    istat["entities_created_by_a_dispatch"] += 1
            # C05: every event of play k is offered to each listening component exactly once before and once after, in play k+1
            def offered(name, method, payload):
                sig = name if not method else name + "." + method
                out = []
                for c in comps:
                    key = r.bases[c["name"]]._find_mapping_name(sig)
                    if key is not None and r.bases[c["name"]].reducer_mappings.get(key) is not None:
                        out.append((c["name"], key, r.ids.pay(payload)))
                return out
            for k in range(1, len(r.plays)):
                prev, cur = r.plays[k - 1], r.plays[k]
                before, after = [], []
                for e in reversed(prev["events"]):            # emitted callbacks: newest event first
                    before += offered(e["name"], "%s.emitted.%s" % (e["method"], e.get("tag") or ""), e["payload"])
                for e in prev["events"]:
                    after += offered(e["name"], "%s.done.%s" % (e["method"], e.get("tag") or ""), e["payload"])
                a = cur["action"]
                own = offered(a["name"], a["method"], a.get("payload"))
                top = [(i["comp"], i["key"], i["pay"]) for i in cur["invocations"] if not i["addon"]]
                istat["listener_offers_expected"] += len(before) + len(after)
                istat["plays_with_listeners"] += 1 if before or after else 0
                if prop == "C05" and top != before + own + after:
                    findings.append(dict(prop="C05", what="H-dispatch: listeners were not offered the events of the previous action exactly once before and once after "
                                         "(expected %d before + %d own + %d after, observed %d direct invocations)" % (len(before), len(own), len(after), len(top)),
                                         component="play", reducer="listeners", system=r.label, plan=getattr(r, "lines", None), play_index=k, action=a,
                                         expected=(before + own + after)[:12], observed=top[:12]))
            # C06: only a direct ("*", "elapse") moves the clock, by its payload; dispatcher calls never write the clock address
            for p in r.plays:
                a = p["action"]
                istat["plays"] += 1
                if prop == "C06":
                    moved = p["clock_before"] != p["clock_after"]
                    is_el = a["name"] == "*" and a["method"] == "elapse"
                    if moved and not is_el:
                        findings.append(dict(prop="C06", what="H-dispatch: a play whose action is not (*, elapse) moved the clock entity", component="play", reducer="timer",
                                             system=r.label, plan=getattr(r, "lines", None), action=a, before=p["clock_before"], after=p["clock_after"]))
                    if is_el and p["clock_before"] is not None and p["clock_after"] is not None:
                        b0, a0 = p["clock_before"]["payload"]["current_time"], p["clock_after"]["payload"]["current_time"]
                        if a0 != b0 + a["payload"]:
                            findings.append(dict(prop="C06", what="H-dispatch: (*, elapse, %r) moved the clock entity from %r to %r" % (a["payload"], b0, a0), component="play",
                                                 reducer="timer", system=r.label, plan=getattr(r, "lines", None), action=a))
            if prop == "C06":
                for call in r.calls:
                    if CLOCK in call["written"]:
                        findings.append(dict(prop="C06", what="H-dispatch: a component dispatcher wrote the clock address", component=call["comp"], reducer=call["action"]["method"],
                                             system=r.label, action=call["action"]))
    if prop == "C07":
        rfind, rstat = search_router_rejected(rng, quick, 18.0 if quick else 240.0)
        findings += rfind
        cov["router_rejected_search"] = dict(rstat, findings=len(rfind),
                                             by_listener=dict(collections.Counter("%s <- %s" % (f["component"], f.get("listened_key")) for f in rfind)))
    mark("statements on the implementation")
    cov["impl_search"] = dict(istat, counterexamples=len(findings))
    cov["wall_s"] = round(time.time() - t_start, 1)

    # ---- report differences
    for d in diffs[:20]:
        ctx.broken.append("correspondence H-dispatch: %s: %s" % (d["what"], json.dumps(d["input"], ensure_ascii=False, default=str)[:240]))
    cov["differences"] = diffs[:8]
    for d in diffs[:3]:
        ctx.violation("correspondence", "H-dispatch: " + d["what"], input=d["input"], expected=d["expected_model"], observed=d["observed_implementation"])
    ctx.log("H-dispatch (%s): %d systems / %d components, %d recordings, %d correspondence cases, %d differences, %d impl findings, %.1fs" % (
        prop, len(systems), cov["components"], len(good), ncase, len(diffs), len(findings), time.time() - t_start))
    return findings


def _check_generated(ctx) -> bool:
    """ctx.check_props on gen/DispatchData.v; its built-in coqchk step assumes the logical path V, the generated file lives
    under G, so that step is run here with the right module name"""
    from lib.vf import sh
    tier = ctx.tier
    ctx.tier = "quick"
    try:
        ok = ctx.check_props("gen/DispatchData.v")
    finally:
        ctx.tier = tier
    if ok and ctx.thorough:
        cmd = "coqchk -silent -o -Q theories V -Q gen G G.DispatchData"
        rc, out = sh("timeout 900 " + cmd, cwd=ctx.coq, timeout=930)
        ctx.checker_cmds.append(cmd)
        m = re.search(r"\* Axioms:\s*(.*?)(?:\n\s*\n|\n\* |\Z)", out, re.S)
        ctx.cov.setdefault("coqchk", {})["G.DispatchData"] = {"rc": rc, "axioms": " ".join(m.group(1).split()) if m else "?"}
        if rc != 0:
            ctx.broken.append("coqchk does not re-check G.DispatchData: %s" % out[-300:])
            return False
    return ok


def preflight(ctx, prop="C10"):
    """before anything else evaluates a view: the extraction, the generated obligations and every registered view on the freshly built
    engines of all jobs.  Returns the findings for `prop` (a bound address that nobody owns makes every view of that component raise
    in the INITIAL state, and the rest of a driver cannot even draw a plan)."""
    findings = []
    cov = ctx.cov.setdefault("dispatch_preflight", {})
    try:
        step1(ctx, prop, cov, findings)
    except Exception as ex:
        findings.append(dict(prop=prop, what="H-dispatch: building / inspecting the engines raised %r" % (ex,), component="engine", reducer="(build)"))
    return findings


def hook(ctx, prop: str):
    """what the C05 / C06 / C07 drivers call: build and check Props/<prop>_dispatch.v, then `run`"""
    pf = "theories/Props/%s_dispatch.v" % prop
    ok, log, failed = ctx.build([pf.replace(".v", ".vo")] + TARGETS)
    if not ok:
        i = log.find("Error")
        ctx.broken.append("Coq build failed at %s: %s" % (failed, " ".join(log[max(0, i - 200):i + 400].split())))
        ctx.obligations += 1
    else:
        ctx.check_props(pf)
    return run(ctx, prop)


def _jv(label):
    j, v = label.split("/")
    return j, int(v)
