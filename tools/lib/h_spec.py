"""H-spec: correspondence harness and implementation-side search for C15.

Four evaluators of one generated expression meet here:
  real      simaple.spec._math.evaluate_expression(text, variables)            (Lark + CalcTransformer)
  reference `ref_eval`: Python's own parser (`ast`) + Python's own arithmetic -- the property's observe_at
  dual      `eval_dual`: my tree evaluator, binary64 and exact Fraction in lock step; it only decides which
            cases are well-conditioned (rounding-noise rule) and which results are exactly representable
  model     Coq `evalp env tokens` = eval of the model's parse of the same token list (inside coqc)

Documents: random nested dict/list documents with '{{ }}' strings as keys, values and list elements go through the
real ArithmeticPatch.apply and through Coq's `arith_apply`; `ideal_py` / `coded_py` are the Python-side readings used
by the implementation-side search.  Shipped specs: every Spec of every shipped repository is interpreted twice with the
shipped patch chains while the repository's stored data are dumped before and after.
"""
from __future__ import annotations

import ast
import copy
import hashlib
import json
import math
import os
import re
import sys
from decimal import Decimal
from fractions import Fraction

from lib import vf
from lib.vf import qlit

# the implementation under test is vf.REPO (VERIF_REPO for scratch copies); make sure THAT tree is imported
_repo = str(vf.REPO)
sys.path[:] = [_repo] + [p for p in sys.path if p not in (_repo, "/repo")]
for _m in [m for m in sys.modules if m == "simaple" or m.startswith("simaple.")]:
    if not (getattr(sys.modules[_m], "__file__", None) or "").startswith(_repo + "/"):
        del sys.modules[_m]

OPS = ["+", "-", "*", "/", "//", ">", "<"]
LVL = {"+": 0, "-": 0, "*": 1, "/": 1, "//": 1, ">": 1, "<": 1}
COQ_OP = {"+": "Add", "-": "Sub", "*": "Mul", "/": "Div", "//": "IDiv", ">": "Gt", "<": "Lt"}
FN1 = {"ceil": "Ceil", "floor": "Floor", "apply_attack_speed": "AtkSpd"}
FN2 = {"min": "Min", "max": "Max"}

ENVS = [
    {"x": 3, "y.z": 7, "a_b": 0.5, "skill_level": 12, "zero": 0, "neg": -2.5, "character_stat.STR": 1234.0, "lv": 30},
    {"x": 0, "y.z": -4, "a_b": 1.25, "skill_level": 1, "zero": 0.0, "neg": -8, "character_stat.STR": 0.75, "lv": 1},
    {"x": 250, "y.z": 0.125, "a_b": 6, "skill_level": 30, "zero": 0, "neg": -1, "character_stat.STR": 40000.0, "lv": 300},
]
UNDEFINED = "undefined_v"

INT_LITS = ["0", "1", "2", "3", "4", "5", "7", "8", "10", "12", "16", "30", "100", "1000"]
DYADIC_LITS = ["0.5", "1.25", "2.5", "0.75", "1.5", "0.125", "2.0", "5.", ".5", "1e2", "2E1", "2.5e1", "5e-1"]
NOISY_LITS = ["0.01", "0.15", "0.1", "0.3", "1.1", "1e-2", "0.07"]
SEP_LITS = ["1_000", "1_0", "2_5", "1_000_000", "5_0"]
ODD_LITS = ["007", "_5", "5_", "1__0", "0_5", "08"]          # accepted by the grammar, not Python literals


class Ill(Exception):
    """case rejected by the conditioning rule (regenerated, counted)"""


# ------------------------------------------------------------------------------------------- trees
def gen_tree(rng, depth, leaves="mixed"):
    if depth <= 0 or rng.random() < 0.18:
        r = rng.random()
        if r < 0.42:
            return ("var", rng.choice(list(ENVS[0])) if rng.random() > 0.02 else UNDEFINED)
        r = rng.random()
        if leaves == "exact":
            pool = INT_LITS if r < 0.6 else (DYADIC_LITS if r < 0.88 else SEP_LITS)
        else:
            pool = (INT_LITS if r < 0.5 else DYADIC_LITS if r < 0.7 else NOISY_LITS if r < 0.82
                    else SEP_LITS if r < 0.94 else ODD_LITS)
        t = rng.choice(pool)
        return ("sep" if ("_" in t) else "num", t)
    r = rng.random()
    if r < 0.58:
        op = rng.choices(OPS, weights=[20, 20, 20, 14, 16, 5, 5])[0]
        return ("bin", op, gen_tree(rng, depth - 1, leaves), gen_tree(rng, depth - 1, leaves))
    if r < 0.68:
        return ("neg", gen_tree(rng, depth - 1, leaves))
    if r < 0.84:
        return ("fn1", rng.choice(list(FN1)), gen_tree(rng, depth - 1, leaves))
    return ("fn2", rng.choice(list(FN2)), gen_tree(rng, depth - 1, leaves), gen_tree(rng, depth - 1, leaves))


def depth_of(t):
    k = t[0]
    if k in ("num", "sep", "var"):
        return 0
    return 1 + max(depth_of(c) for c in t[1:] if isinstance(c, tuple))


def n_ops(t):
    k = t[0]
    if k in ("num", "sep", "var"):
        return 0
    return (0 if k == "par" else 1) + sum(n_ops(c) for c in t[1:] if isinstance(c, tuple))


def decorate(rng, t, prob):
    """insert redundant parentheses ('par' nodes) around random subtrees"""
    k = t[0]
    if k in ("num", "sep", "var"):
        out = t
    else:
        out = tuple(decorate(rng, c, prob) if isinstance(c, tuple) else c for c in t)
    while rng.random() < prob:
        out = ("par", out)
    return out


def pyify(t):
    """wrap comparisons so that Python's grammar groups them like the spec grammar: ((a) > (b))"""
    k = t[0]
    if k in ("num", "sep", "var"):
        return t
    t = tuple(pyify(c) if isinstance(c, tuple) else c for c in t)
    if k == "bin" and t[1] in (">", "<"):
        return ("par", ("bin", t[1], ("par", t[2]), ("par", t[3])))
    return t


def python_compatible(t):
    k = t[0]
    if k in ("num", "sep"):
        return t[1] not in ODD_LITS
    if k == "var":
        return True
    return all(python_compatible(c) for c in t[1:] if isinstance(c, tuple))


def tokens(t, level=0):
    """the model's printer `dp` (minimal parentheses + the redundant ones of 'par' nodes)"""
    k = t[0]
    if k == "num":
        return [("num", t[1])]
    if k == "sep":
        return [("sep", t[1])]
    if k == "var":
        return [("var", t[1])]
    if k == "bin":
        lv = LVL[t[1]]
        body = tokens(t[2], lv) + [("op", t[1])] + tokens(t[3], lv + 1)
        return ([("lp", "(")] + body + [("rp", ")")]) if lv < level else body
    if k == "neg":
        return [("op", "-")] + tokens(t[1], 2)
    if k == "fn1":
        return [("f1", t[1] + "(")] + tokens(t[2], 0) + [("rp", ")")]
    if k == "fn2":
        return [("f2", t[1] + "(")] + tokens(t[2], 0) + [("comma", ",")] + tokens(t[3], 0) + [("rp", ")")]
    if k == "par":
        return [("lp", "(")] + tokens(t[1], 0) + [("rp", ")")]
    raise ValueError(k)


def render(toks, rng, spaces="random"):
    out = []
    for i, (k, s) in enumerate(toks):
        if i:
            if spaces == "always":
                out.append(" ")
            elif spaces == "random":
                out.append(rng.choice(["", "", " ", " ", "  ", "\t"]))
        out.append(s)
    return "".join(out)


def lit_value(text) -> Fraction:
    return Fraction(Decimal(text.replace("_", "")))


def coq_tok(tok) -> str:
    k, s = tok
    if k == "num":
        return "TNum %s" % qlit(lit_value(s))
    if k == "sep":
        return "TSep [%s]" % "; ".join("SUnd" if c == "_" else "SDig %s" % c for c in s)
    if k == "var":
        return 'TVar "%s"' % s
    if k == "op":
        return "TOp %s" % COQ_OP[s]
    if k == "lp":
        return "TLP"
    if k == "rp":
        return "TRP"
    if k == "comma":
        return "TComma"
    if k == "f1":
        return "TF1 %s" % FN1[s[:-1]]
    if k == "f2":
        return "TF2 %s" % FN2[s[:-1]]
    raise ValueError(k)


def coq_toks(toks) -> str:
    return "[" + "; ".join(coq_tok(t) for t in toks) + "]"


def coq_env(env) -> str:
    return "env_of [" + "; ".join('("%s", %s)' % (k, qlit(Fraction(v))) for k, v in env.items() if v is not None) + "]"


# ------------------------------------------------------------------------------------------- dual evaluator
def _near_int(xe: Fraction) -> bool:
    d = abs(xe - round(xe))
    return d != 0 and d <= Fraction(1, 10 ** 6) * max(1, abs(xe))


def eval_dual(t, env):
    """-> ('val', float_value, exact Fraction) | ('err', kind).  Raises Ill when binary64 and exact arithmetic may
    legitimately take different branches (floor/ceil/'//'/comparison next to a threshold) or drift apart by more
    than the rounding-noise bound."""
    k = t[0]
    if k in ("num", "sep"):
        return ("val", float(t[1].replace("_", "")), lit_value(t[1]))
    if k == "var":
        if t[1] not in env:
            return ("err", "undefined")
        v = env[t[1]]
        return ("val", v, Fraction(v))
    if k == "par":
        return eval_dual(t[1], env)
    subs = [eval_dual(c, env) for c in t[1:] if isinstance(c, tuple)]
    for s in subs:
        if s[0] == "err":
            return s                     # any failing child fails the whole expression (bottom-up transformer)
    if k == "neg":
        (_, f, e), = subs
        return ("val", -f, -e)
    if k == "fn1":
        (_, f, e), = subs
        if t[1] == "apply_attack_speed":
            f, e = f * 0.75 / 30, e * Fraction(3, 4) / 30
        if Fraction(f) != e and (_near_int(e) or e == round(e)):
            raise Ill("floor/ceil operand next to an integer")
        if t[1] == "floor":
            return ("val", math.floor(f), Fraction(math.floor(e)))
        r = (math.ceil(f), Fraction(math.ceil(e)))
        if t[1] == "apply_attack_speed":
            r = (30 * r[0], 30 * r[1])
        return ("val",) + r
    (_, fa, ea), (_, fb, eb) = subs
    if k == "fn2":
        if (Fraction(fa) != ea or Fraction(fb) != eb) and abs(ea - eb) <= Fraction(1, 10 ** 6) * max(1, abs(ea), abs(eb)) and ea != eb:
            raise Ill("min/max operands nearly equal")
        if t[1] == "min":
            return ("val", min(fa, fb), min(ea, eb))
        return ("val", max(fa, fb), max(ea, eb))
    op = t[1]
    if op == "+":
        r = (fa + fb, ea + eb)
    elif op == "-":
        r = (fa - fb, ea - eb)
    elif op == "*":
        r = (fa * fb, ea * eb)
    elif op in ("/", "//"):
        if (fb == 0) != (eb == 0):
            raise Ill("divisor is zero in one arithmetic only")
        if eb == 0:
            return ("err", "zerodiv")
        if op == "/":
            r = (fa / fb, ea / eb)
        else:
            q = ea / eb
            if (Fraction(fa) != ea or Fraction(fb) != eb) and (_near_int(q) or q == round(q)):
                raise Ill("'//' quotient next to an integer")
            r = (fa // fb, Fraction(math.floor(q)))
    else:
        if (Fraction(fa) != ea or Fraction(fb) != eb) and abs(ea - eb) <= Fraction(1, 10 ** 6) * max(1, abs(ea), abs(eb)):
            raise Ill("comparison operands nearly equal")
        r = ((fa > fb, Fraction(int(ea > eb))) if op == ">" else (fa < fb, Fraction(int(ea < eb))))
    f, e = r
    if isinstance(f, float) and (math.isinf(f) or math.isnan(f)):
        raise Ill("overflow")
    if abs(e) > 10 ** 15:
        raise Ill("magnitude")
    if abs(Fraction(f) - e) > Fraction(1, 10 ** 10) * max(1, abs(e)):
        raise Ill("cancellation: binary64 and exact values differ by more than 1e-10")
    return ("val", f, e)


# ------------------------------------------------------------------------------------------- reference evaluator
_REF_BIN = {ast.Add: lambda a, b: a + b, ast.Sub: lambda a, b: a - b, ast.Mult: lambda a, b: a * b,
            ast.Div: lambda a, b: a / b, ast.FloorDiv: lambda a, b: a // b}
_REF_FN = {"ceil": math.ceil, "floor": math.floor, "min": min, "max": max,
           "apply_attack_speed": lambda x: 30 * math.ceil(x * 0.75 / 30)}


def _dotted(n):
    if isinstance(n, ast.Name):
        return n.id
    if isinstance(n, ast.Attribute):
        return _dotted(n.value) + "." + n.attr
    raise ValueError("not a name")


def ref_eval(text, env):
    """Independent reference: Python's parser and Python's arithmetic on the SAME text. Number literals are floats
    (as the spec language has no integer literals); variables keep their Python type."""
    def go(n):
        if isinstance(n, ast.Expression):
            return go(n.body)
        if isinstance(n, ast.Constant) and isinstance(n.value, (int, float)) and not isinstance(n.value, bool):
            return float(n.value)
        if isinstance(n, (ast.Name, ast.Attribute)):
            name = _dotted(n)
            if name not in env:
                raise KeyError(name)
            return env[name]
        if isinstance(n, ast.BinOp) and type(n.op) in _REF_BIN:
            return _REF_BIN[type(n.op)](go(n.left), go(n.right))
        if isinstance(n, ast.UnaryOp) and isinstance(n.op, ast.USub):
            return -go(n.operand)
        if isinstance(n, ast.Compare) and len(n.ops) == 1 and isinstance(n.ops[0], (ast.Gt, ast.Lt)):
            a, b = go(n.left), go(n.comparators[0])
            return a > b if isinstance(n.ops[0], ast.Gt) else a < b
        if isinstance(n, ast.Call) and isinstance(n.func, ast.Name) and n.func.id in _REF_FN and not n.keywords:
            return _REF_FN[n.func.id](*[go(a) for a in n.args])
        raise ValueError("reference evaluator: unsupported node %s" % ast.dump(n)[:80])
    return go(ast.parse(text.strip().replace("\t", " "), mode="eval"))


def classify_exc(e) -> str:
    """error kind of an exception raised by evaluate_expression / Patch.apply"""
    orig = getattr(e, "orig_exc", None)
    if orig is not None:
        e = orig
    if isinstance(e, ZeroDivisionError):
        return "zerodiv"
    if isinstance(e, (AssertionError, KeyError)):
        return "undefined"
    if isinstance(e, OverflowError):
        return "overflow"
    name = type(e).__name__
    if name.startswith("Unexpected") or name in ("LarkError", "ParseError", "LexError"):
        return "syntax"
    if isinstance(e, TypeError):
        return "type"
    if isinstance(e, ValueError):
        return "value"
    return "other:" + name


def real_eval(text, env):
    from simaple.spec._math import evaluate_expression
    try:
        return ("val", evaluate_expression(text, env))
    except Exception as e:          # noqa: BLE001 - every failure is data here
        return ("err", classify_exc(e))


def to_fraction(v) -> Fraction:
    if isinstance(v, bool):
        return Fraction(int(v))
    return Fraction(v)


# ------------------------------------------------------------------------------------------- expression cases
def make_expr_case(rng, max_depth=5, leaves="mixed", stats=None, want_exact=False, allow_err=True, env_index=None):
    """one well-conditioned case: tree, env, styles; regenerates ill-conditioned ones (counted in stats)"""
    for _ in range(400):
        depth = rng.randint(1, max_depth)
        tree = gen_tree(rng, depth, leaves)
        ei = rng.randrange(len(ENVS)) if env_index is None else env_index
        env = ENVS[ei]
        try:
            d = eval_dual(tree, env)
        except Ill as e:
            if stats is not None:
                stats["ill_conditioned_regenerated"] = stats.get("ill_conditioned_regenerated", 0) + 1
                stats.setdefault("ill_kinds", {}).setdefault(str(e).split(":")[0], 0)
                stats["ill_kinds"][str(e).split(":")[0]] += 1
            continue
        if d[0] == "err" and not allow_err:
            continue
        exact = d[0] == "val" and to_fraction(d[1]) == d[2]
        if want_exact and not (exact or d[0] == "err"):
            continue
        return {"tree": tree, "env": ei, "dual": d, "exact": exact}
    raise RuntimeError("could not generate a well-conditioned expression")


def expr_views(rng, case):
    """the same tree rendered in several ways: minimal, redundant parentheses, always/never spaces"""
    tree = case["tree"]
    views = []
    style = rng.choice(["min-random", "min-nospace", "min-spaces", "redundant", "redundant", "redundant-spaces"])
    t = tree if style.startswith("min") else decorate(rng, tree, 0.25)
    toks = tokens(t)
    sp = "never" if style.endswith("nospace") else "always" if style.endswith("spaces") else "random"
    views.append((style, toks, render(toks, rng, sp)))
    return views


def mutate_tokens(rng, toks):
    """a (probably) ungrammatical neighbour: delete, duplicate or swap a token"""
    toks = list(toks)
    i = rng.randrange(len(toks))
    r = rng.random()
    if r < 0.4:
        del toks[i]
    elif r < 0.7:
        toks.insert(i, toks[i])
    elif r < 0.85 and len(toks) > 1:
        j = rng.randrange(len(toks))
        toks[i], toks[j] = toks[j], toks[i]
    else:
        toks.insert(i, rng.choice([("op", "*"), ("rp", ")"), ("lp", "("), ("comma", ","), ("num", "2")]))
    return toks


CORR_PRELUDE = """From Coq Require Import QArith List String ZArith NArith Bool.
From V.Model Require Import Expr ExprParse Doc.
From V.Lib Require Import Corr.
Import ListNotations.
Open Scope string_scope.
%s
Definition chk (c : env * list tok * option Q * bool) : bool :=
  let '(r, ts, want, exact) := c in
  match evalp r ts, want with
  | Some v, Some w => if exact then qexact v w else qclose v w
  | None, None => true
  | _, _ => false
  end.
""" % "\n".join("Definition env%d : env := %s." % (i, coq_env(e)) for i, e in enumerate(ENVS))


def expr_shard(rows) -> str:
    """rows: (env index, tokens, expected Fraction | None, exact)"""
    items = []
    for ei, toks, want, exact in rows:
        items.append("(env%d, %s, %s, %s)" % (ei, coq_toks(toks), "None" if want is None else "Some " + qlit(want),
                                              "true" if exact else "false"))
    return CORR_PRELUDE + "Definition cases : list (env * list tok * option Q * bool) := [\n " + ";\n ".join(items) + \
        "\n].\nEval vm_compute in (bad (map chk cases)).\n"


def parse_bad(out):
    m = re.search(r"=\s*\[([^\]]*)\]", out, re.S)
    if not m:
        return None
    body = m.group(1).strip()
    if not body:
        return []
    return [int(x.strip().rstrip("%N")) for x in body.replace("\n", " ").split(";") if x.strip()]


# ------------------------------------------------------------------------------------------- documents
EXPR_RE = re.compile(r"^\s*\{\{(.+)\}\}\s*$")          # only used on strings the harness did NOT generate (shipped specs)


class DocGen:
    """random nested documents; remembers which strings it generated as expressions (text -> tokens, tree)"""

    def __init__(self, rng, env_index, stats):
        self.rng = rng
        self.ei = env_index
        self.env = ENVS[env_index]
        self.exprs = {}            # full string -> (inner tokens, tree)
        self.stats = stats
        self.placed = {"key": 0, "value": 0, "element": 0, "zero": 0, "key_before_container": 0, "error": 0}
        self.simple = ["1", "2 - 1", "x - 2", "0", "zero", "x - 3", "0 * 5", "2", "1 + 1", "0.5", "skill_level // 12"]

    def expr_string(self, where, zero=False):
        rng = self.rng
        if zero or rng.random() < 0.35:
            # short expressions with small results make equal keys and zeros likely
            for _ in range(50):
                inner = rng.choice(self.simple) if not zero else rng.choice(["0", "zero", "x - x", "0 * 5", "1 - 1", "floor(0.5)", "-0"])
                tree = _parse_simple(inner)
                try:
                    d = eval_dual(tree, self.env)
                except Ill:
                    continue
                break
        else:
            allow_err = rng.random() < 0.04
            c = make_expr_case(rng, max_depth=3, leaves="exact", stats=self.stats, want_exact=True, allow_err=allow_err,
                               env_index=self.ei)
            d, tree = c["dual"], c["tree"]
        if rng.random() < 0.3:
            tree = decorate(rng, tree, 0.2)
        toks = tokens(tree)
        inner = render(toks, rng, rng.choice(["random", "always", "never"]))
        text = rng.choice(["{{ %s }}", "{{%s}}", "  {{ %s }}  ", "{{  %s}}", "\t{{ %s }} ", "{{ %s }}\n"]) % inner
        self.exprs[text] = (toks, tree)
        self.placed[where] += 1
        if d[0] == "err":
            self.placed["error"] += 1
        elif d[2] == 0:
            self.placed["zero"] += 1
        return text

    def scalar(self, where):
        rng = self.rng
        r = rng.random()
        if r < 0.45:
            return self.expr_string(where, zero=rng.random() < 0.25)
        if r < 0.6:
            return rng.choice([0, 1, 2, 3, 10, -1, 180000])
        if r < 0.7:
            return rng.choice([0.0, 0.5, 0.1, 2.0, 1.5])
        if r < 0.75:
            return rng.choice([True, False])
        if r < 0.80:
            return None            # a YAML null: a leaf no patch touches, as a value and as a list element alike
        return rng.choice(["a", "b", "name", "스킬", "", "x", "a {{ 1 }}", "{{ 1 }} b", "{ 1 }", "1 + 1"])

    def key(self, container_value):
        rng = self.rng
        r = rng.random()
        if r < 0.3:
            k = self.expr_string("key")
            if container_value:
                self.placed["key_before_container"] += 1
            return k
        if r < 0.4:
            return rng.choice([0, 1, 2, 0.5, 2.0, True])
        return rng.choice(["a", "b", "c", "name", "k1", "k2", "damage", "스킬", "x", "hit"])

    def doc(self, depth, top=False):
        rng = self.rng
        r = rng.random()
        if depth <= 0 or (not top and r < 0.35):
            return self.scalar("value")
        if r < 0.62 and not top:
            return [self.element(depth - 1) for _ in range(rng.randint(0, 4))]
        d = {}
        for _ in range(rng.randint(0 if not top else 1, 5)):
            v = self.doc(depth - 1) if rng.random() < 0.55 else self.scalar("value")
            d[self.key(isinstance(v, (dict, list)))] = v
        if rng.random() < 0.25:
            keys = list(d)
            ex = [rng.choice(keys) for _ in range(rng.randint(0, 2))] if keys else []
            if rng.random() < 0.3:
                ex.append(rng.choice(["absent", 1, 1.0, True, ["a"], {"a": 1}]))
            d["exclude"] = ex if rng.random() > 0.06 else rng.choice(["a", 3, {"a": 1}])
        return d

    def element(self, depth):
        rng = self.rng
        if rng.random() < 0.6:
            return self.scalar("element")
        return self.doc(depth)


def _parse_simple(inner):
    """tiny parser for the fixed pool of simple expressions above (space separated binary forms)"""
    parts = inner.split(" ")
    def atom(s):
        if s.startswith("floor("):
            return ("fn1", "floor", atom(s[6:-1]))
        if s.startswith("-"):
            return ("neg", atom(s[1:]))
        if re.match(r"^[0-9.]+$", s):
            return ("num", s)
        return ("var", s)
    if len(parts) == 1:
        return atom(parts[0])
    return ("bin", parts[1], atom(parts[0]), atom(parts[2]))


class Interner:
    def __init__(self):
        self.ids = {"exclude": 0}

    def id(self, s):
        if s not in self.ids:
            self.ids[s] = len(self.ids)
        return self.ids[s]


def coq_leaf(v, interner, exprs, as_output=False) -> str:
    if v is None:
        # null: for the model a string leaf that is no expression (every patch declines it, it comes back unchanged)
        return "LStr %d None" % interner.id("\x00null")
    if isinstance(v, bool):
        return "LNum %s" % qlit(int(v))
    if isinstance(v, (int, float)):
        return "LNum %s" % qlit(Fraction(v))
    if isinstance(v, str):
        i = interner.id(v)
        if not as_output and v in exprs:
            return "LStr %d (Some %s)" % (i, coq_toks(exprs[v][0]))
        return "LStr %d None" % i
    raise TypeError("unsupported scalar %r" % (v,))


def coq_doc(d, interner, exprs, as_output=False) -> str:
    if isinstance(d, dict):
        return "DDict [%s]" % "; ".join("(%s, %s)" % (coq_leaf(k, interner, exprs, as_output), coq_doc(v, interner, exprs, as_output))
                                         for k, v in d.items())
    if isinstance(d, list):
        return "DList [%s]" % "; ".join(coq_doc(x, interner, exprs, as_output) for x in d)
    return "DLeaf (%s)" % coq_leaf(d, interner, exprs, as_output)


DOC_PRELUDE = CORR_PRELUDE + """
Definition leaf_same (a b : leaf) : bool :=
  match a, b with
  | LNum x, LNum y => Qeq_bool x y
  | LStr i _, LStr j _ => N.eqb i j
  | _, _ => false
  end.
Fixpoint doc_same (a b : sdoc) : bool :=
  match a, b with
  | DLeaf x, DLeaf y => leaf_same x y
  | DList xs, DList ys =>
      (fix go (xs ys : list sdoc) : bool :=
         match xs, ys with
         | [], [] => true
         | x :: xs', y :: ys' => doc_same x y && go xs' ys'
         | _, _ => false
         end) xs ys
  | DDict xs, DDict ys =>
      (fix go (xs ys : list (leaf * sdoc)) : bool :=
         match xs, ys with
         | [], [] => true
         | (k, x) :: xs', (l, y) :: ys' => leaf_same k l && doc_same x y && go xs' ys'
         | _, _ => false
         end) xs ys
  | _, _ => false
  end.
Definition chkd (c : env * sdoc * option sdoc) : bool :=
  let '(r, d, want) := c in
  match arith_apply r d, want with
  | Some v, Some w => doc_same v w
  | None, None => true
  | _, _ => false
  end.
"""


def doc_shard(rows) -> str:
    """rows: (env index, coq input doc, coq expected doc | None)"""
    items = ["(env%d, %s, %s)" % (ei, din, "None" if dout is None else "Some (%s)" % dout) for ei, din, dout in rows]
    return DOC_PRELUDE + "Definition dcases : list (env * sdoc * option sdoc) := [\n " + ";\n ".join(items) + \
        "\n].\nEval vm_compute in (bad (map chkd dcases)).\n"


def jsafe(d):
    """JSON-safe form of a document: a dict with a non-string key becomes {"__pairs__": [[key, value], ...]}"""
    if isinstance(d, dict):
        if all(isinstance(k, str) for k in d):
            return {k: jsafe(v) for k, v in d.items()}
        return {"__pairs__": [[k, jsafe(v)] for k, v in d.items()]}
    if isinstance(d, (list, tuple)):
        return [jsafe(x) for x in d]
    if isinstance(d, Fraction):
        return float(d) if d.denominator != 1 else int(d)
    return d


def unjsafe(d):
    if isinstance(d, dict):
        if set(d) == {"__pairs__"}:
            return {k: unjsafe(v) for k, v in d["__pairs__"]}
        return {k: unjsafe(v) for k, v in d.items()}
    if isinstance(d, list):
        return [unjsafe(x) for x in d]
    return d


def canon(d):
    """canonical value of a document: numbers by value (1 == 1.0 == True), dicts as ordered pair lists"""
    if isinstance(d, dict):
        return ("dict", tuple((canon(k), canon(v)) for k, v in d.items()))
    if isinstance(d, list):
        return ("list", tuple(canon(x) for x in d))
    if isinstance(d, (bool, int, float)):
        return ("num", to_fraction(d))
    if isinstance(d, Fraction):
        return ("num", d)
    return ("str", d)


def real_apply(doc, env):
    from simaple.spec.patch import ArithmeticPatch
    try:
        return ("val", ArithmeticPatch(variables=dict(env)).apply(doc))
    except Exception as e:          # noqa: BLE001
        return ("err", classify_exc(e))


class RefError(Exception):
    pass


def reading_py(d, env, exprs):
    """Python-side statement of the property with the independent reference evaluator: every generated '{{ }}' string --
    value, list element, key of a scalar- or container-valued entry -- is replaced; excluded entries are dropped."""
    def evs(s):
        if isinstance(s, str) and s in exprs:
            toks, _tree = exprs[s]
            if not python_compatible(_tree):
                raise RefError("not a Python expression")
            text = render(tokens(pyify(_tree)), None, "always")
            try:
                return ref_eval(text, env)
            except ZeroDivisionError:
                raise RefError("zerodiv")
            except KeyError:
                raise RefError("undefined")
        return s
    def go(x):
        if isinstance(x, list):
            return [go(a) for a in x]
        if not isinstance(x, dict):
            return evs(x)
        ex = x.get("exclude", [])
        if not isinstance(ex, list):
            raise RefError("type")
        ex = ex + ["exclude"]
        out = {}
        for k, v in x.items():
            if any((not isinstance(e, (list, dict))) and k == e for e in ex):
                continue
            out[evs(k)] = go(v)
        return out
    return go(d)


# the witness of the former finding C15-container-valued-key-not-interpreted (fixed by e5276b7): runs first, every run
REGRESSION_DOC = {"{{ 1 + 1 }}": {"a": 1}, "{{ 3 }}": ["{{ 1 }}"]}
REGRESSION_EXPRS = {"{{ 1 + 1 }}": ([("num", "1"), ("op", "+"), ("num", "1")], ("bin", "+", ("num", "1"), ("num", "1"))),
                    "{{ 3 }}": ([("num", "3")], ("num", "3")),
                    "{{ 1 }}": ([("num", "1")], ("num", "1"))}
REGRESSION_EXPECTED = {2.0: {"a": 1}, 3.0: [1.0]}


def has_expr_key_before_container(d, exprs) -> bool:
    if isinstance(d, list):
        return any(has_expr_key_before_container(x, exprs) for x in d)
    if isinstance(d, dict):
        for k, v in d.items():
            if isinstance(v, (dict, list)):
                if isinstance(k, str) and k in exprs:
                    return True
                if has_expr_key_before_container(v, exprs):
                    return True
    return False


def shrink_doc(doc, still_bad):
    """greedy descent to a small sub-document that still violates"""
    cur = doc
    progress = True
    while progress:
        progress = False
        cands = []
        if isinstance(cur, dict):
            for k, v in cur.items():
                if isinstance(v, dict):
                    cands.append(v)
                elif isinstance(v, list):
                    cands.append({"k": v})
                cands.append({k: v})
        for c in cands:
            if c != cur and still_bad(c):
                cur, progress = c, True
                break
        if not progress and isinstance(cur, dict) and len(cur) == 1:
            (k, v), = cur.items()
            if isinstance(v, list) and len(v) > 1:
                for x in v:
                    c = {k: [x]}
                    if still_bad(c):
                        cur, progress = c, True
                        break
    return cur


# ------------------------------------------------------------------------------------------- shipped specs
def spec_fingerprint(spec) -> str:
    return hashlib.sha1(repr((spec.kind, spec.version, spec.metadata, spec.data, spec.patch)).encode()).hexdigest()


def repo_fingerprint(repo) -> list:
    return [spec_fingerprint(s) for s in repo._db]


def shares_container(a, b) -> bool:
    """does result `a` share a mutable container object with stored data `b`?"""
    ids = set()
    def collect(x):
        if isinstance(x, (dict, list)):
            ids.add(id(x))
            for y in (x.values() if isinstance(x, dict) else x):
                collect(y)
    collect(b)
    def probe(x):
        if isinstance(x, (dict, list)):
            if id(x) in ids:
                return True
            return any(probe(y) for y in (x.values() if isinstance(x, dict) else x))
        return False
    return probe(a)


def interpret_twice(spec, patches, findings, label, stats):
    """interpret one stored spec twice with one chain; record every deviation from the property"""
    before = spec_fingerprint(spec)
    outs = []
    for _ in range(2):
        try:
            outs.append(("val", spec.interpret(patches)))
        except Exception as e:          # noqa: BLE001
            outs.append(("err", type(e).__name__ + ": " + str(e)[:120]))
    after = spec_fingerprint(spec)
    stats["interpretations"] = stats.get("interpretations", 0) + 2
    if outs[0][0] == "err":
        stats["raising"] = stats.get("raising", 0) + 1
        stats.setdefault("raising_examples", [])
        if len(stats["raising_examples"]) < 3:
            stats["raising_examples"].append({"spec": label, "error": outs[0][1]})
    if before != after:
        findings.append({"what": "Spec.interpret altered the stored specification", "spec": label,
                         "chain": [type(p).__name__ for p in patches or []]})
    if outs[0][0] != outs[1][0] or (outs[0][0] == "val" and repr(outs[0][1]) != repr(outs[1][1])) or \
            (outs[0][0] == "err" and outs[0][1] != outs[1][1]):
        findings.append({"what": "interpreting the same stored specification twice gives different results", "spec": label,
                         "chain": [type(p).__name__ for p in patches or []],
                         "first": repr(outs[0][1])[:300], "second": repr(outs[1][1])[:300]})
    if outs[0][0] == "val" and outs[0][1] is spec.data:
        findings.append({"what": "Spec.interpret returned the stored dict itself (no copy)", "spec": label,
                         "chain": [type(p).__name__ for p in patches or []]})
    return outs[0]


def spec_label(spec) -> str:
    lab = spec.metadata.label
    return "%s/%s/%s" % (spec.kind, lab.get("group", lab.get("name", "?")), spec.data.get("name", lab.get("name", "?")))


def shipped_specs(ctx, thorough: bool):
    """every Spec of every shipped repository x the shipped patch chains, twice; repository dumps before/after.
    Returns (findings, stats)."""
    from simaple.core import JobType, Stat
    from simaple.data.jobs import builtin
    from simaple.data.jobs.patch import (HexaSkillImprovementPatch, PassiveHyperskillPatch, SkillImprovementPatch,
                                         SkillLevelPatch, VSkillImprovementPatch)
    from simaple.spec.loader import SpecBasedLoader
    from simaple.spec.patch import ArithmeticPatch
    from simaple.spec.repository import DirectorySpecRepository
    findings, stats = [], {}
    repos = {}
    repo = builtin.get_kms_jobs_repository()
    repos["kms-jobs"] = repo
    loader = SpecBasedLoader(repo)
    before = {"kms-jobs": repo_fingerprint(repo)}
    params = [dict(co=1, ps=0, lvl=260, wap=700, wp=300, skill=30, v=30, hexa=10),
              dict(co=0, ps=1, lvl=200, wap=100, wp=50, skill=0, v=0, hexa=0)]
    if thorough:
        params.append(dict(co=2, ps=2, lvl=300, wap=1234, wp=321, skill=1, v=60, hexa=30))
    groups = sorted({s.metadata.label.get("group") for s in repo._db if s.metadata.label.get("group")})
    stats["groups"] = len(groups)
    chains_seen = set()
    for pi, P in enumerate(params):
        st = Stat(STR=1000 + pi, DEX=900, INT=800, LUK=700, attack_power=500, magic_attack=400)
        injected = {"character_level": P["lvl"], "character_stat": st, "weapon_attack_power": P["wap"],
                    "weapon_pure_attack_power": P["wp"], "combat_orders_level": P["co"], "passive_skill_level": P["ps"]}
        refvars = builtin._as_reference_variables(injected)
        names = [s.data.get("name") for s in repo._db if isinstance(s.data.get("name"), str)]
        levels = {n: P["skill"] for n in names}
        base = [SkillLevelPatch(combat_orders_level=P["co"], passive_skill_level=P["ps"], default_skill_levels=levels),
                ArithmeticPatch(variables=refvars)]
        per_group = {}
        for spec in repo._db:
            g = spec.metadata.label.get("group")
            if g not in per_group:
                try:
                    hs = loader.load_all(query={"group": g, "kind": "PassiveHyperskill"})
                    imps = loader.load_all(query={"group": g, "kind": "SkillImprovement"}, patches=base)
                except Exception as e:      # noqa: BLE001
                    hs, imps = [], []
                    stats.setdefault("group_load_errors", []).append("%s: %r" % (g, e))
                per_group[g] = [VSkillImprovementPatch(improvements={n: P["v"] for n in names}),
                                HexaSkillImprovementPatch(improvements={n: P["hexa"] for n in names}),
                                PassiveHyperskillPatch(hyper_skills=hs), SkillImprovementPatch(improvements=imps)]
            chain = base + per_group[g]
            interpret_twice(spec, chain, findings, "kms-jobs:" + spec_label(spec), stats)
            chains_seen.add(("kms-jobs", tuple(spec.patch or ())))
            if pi == 0:
                # the second chain shipped for this repository (damage logic: empty variables) and "no patches"
                if spec.kind == "DamageLogic" and spec.patch == ["SkillLevelPatch", "ArithmeticPatch"]:
                    interpret_twice(spec, [SkillLevelPatch(combat_orders_level=P["co"], passive_skill_level=0),
                                           ArithmeticPatch(variables={})], findings, "kms-jobs(dl):" + spec_label(spec), stats)
                if spec.patch is None:
                    interpret_twice(spec, None, findings, "kms-jobs(nopatch):" + spec_label(spec), stats)
    # the real builders on top (they go through the very same stored specs)
    built = 0
    from lib import simenv
    for ji, job in enumerate(simenv.JOBS[: (8 if thorough else 3)]):
        try:
            simenv.make_engine(job, ji % 3 if thorough else 1)
            built += 1
        except Exception as e:      # noqa: BLE001
            stats.setdefault("builder_errors", []).append("%s: %s" % (job, str(e)[:100]))
    stats["jobs_built_with_real_builders"] = built
    # the other shipped repositories
    import simaple.data as data_pkg
    root = os.path.dirname(data_pkg.__file__)
    others = {"baseline": os.path.join(root, "baseline", "blueprints"), "doping": os.path.join(root, "doping"),
              "system": os.path.join(root, "system")}
    for name, path in others.items():
        if not os.path.isdir(path):
            continue
        try:
            r = DirectorySpecRepository(path)
        except Exception as e:      # noqa: BLE001
            stats.setdefault("repository_load_errors", []).append("%s: %r" % (name, e))
            continue
        repos[name] = r
        before[name] = repo_fingerprint(r)
        jts = []
        if name == "baseline":
            from simaple.data.baseline import jobtype_patches
            cands = list(JobType) if thorough else [JobType("adele"), JobType("archmagefb"), JobType("bishop"), JobType("mechanic"), JobType("dualblade"), JobType("windbreaker")]
            for jt in cands:
                try:
                    jts.append((jt.value, jobtype_patches(jt)))
                except Exception:       # noqa: BLE001
                    continue
        for spec in r._db:
            if spec.patch is None or not jts:
                interpret_twice(spec, None, findings, name + ":" + spec_label(spec), stats)
                chains_seen.add((name, tuple(spec.patch or ())))
            for jn, chain in jts:
                interpret_twice(spec, chain, findings, "%s[%s]:%s" % (name, jn, spec_label(spec)), stats)
                chains_seen.add((name, tuple(spec.patch or ())))
    for name, r in repos.items():
        if repo_fingerprint(r) != before[name]:
            findings.append({"what": "stored specifications of repository %r differ after interpretation" % name,
                             "spec": name, "chain": []})
    stats["repositories"] = {n: len(r._db) for n, r in repos.items()}
    stats["declared_patch_lists"] = sorted(["%s: %s" % (n, list(c)) for n, c in chains_seen])
    # expressions actually shipped: every '{{ }}' string of the job repository vs the reference evaluator
    stats["shipped_expression_strings"] = sum(1 for s in repo._db for _ in _expr_strings(s.data))
    return findings, stats


def _expr_strings(d):
    if isinstance(d, dict):
        for k, v in d.items():
            yield from _expr_strings(k)
            yield from _expr_strings(v)
    elif isinstance(d, list):
        for x in d:
            yield from _expr_strings(x)
    elif isinstance(d, str) and EXPR_RE.search(d):
        yield d


def synthetic_store_probe():
    """Spec.interpret must hand the patches a copy: a patch that assigns a top-level key in place (the pattern the
    `.copy()` exists for) must not reach the stored dict; nested containers are rebuilt by the DFS patches."""
    from simaple.spec.patch import ArithmeticPatch, Patch
    from simaple.spec.spec import Spec

    class TopLevelAssign(Patch):
        def apply(self, raw: dict) -> dict:
            raw["added"] = 1
            raw.pop("name", None)
            return raw

    findings = []
    data = {"name": "n", "v": "{{ 1 + 1 }}", "l": ["{{ 0 }}", {"a": "{{ 2 * 3 }}"}], "d": {"k": [1, 2]}}
    for chain, names in (([TopLevelAssign()], ["TopLevelAssign"]),
                         ([ArithmeticPatch(variables={}), TopLevelAssign()], ["ArithmeticPatch", "TopLevelAssign"]),
                         ([ArithmeticPatch(variables={})], ["ArithmeticPatch"])):
        spec = Spec(kind="K", version="v/X", metadata={"label": {}}, data=copy.deepcopy(data), patch=names)
        before = repr(spec.data)
        o1 = spec.interpret(chain)
        mid = repr(spec.data)
        o2 = spec.interpret(chain)
        if repr(spec.data) != before or mid != before:
            findings.append({"what": "Spec.interpret let a patch alter the stored specification (data not copied)",
                             "spec": "synthetic", "chain": names, "stored_before": before, "stored_after": repr(spec.data)})
        if repr(o1) != repr(o2):
            findings.append({"what": "interpreting the same stored specification twice gives different results",
                             "spec": "synthetic", "chain": names, "first": repr(o1), "second": repr(o2)})
    return findings
