"""H-opt (C19): correspondence and monitoring harness for simaple/optimizer.

Worker side (runs in a fresh interpreter with PYTHONPATH=<repo tree>:/verif/tools, so that a scratch copy
of the source can be checked): `python h_opt.py` reads one JSON job on stdin, prints one JSON result.

  synthetic : the REAL StepwizeOptimizer on table-driven DiscreteTarget subclasses (value/cost are
              Fractions computed from small tables; the same tables are written as Coq terms and run
              through Model/Greedy.v by the caller)
  iterator  : Iterator().cumulated_iterator(n, depth) as lists
  real      : invariants monitored on the real targets (hyperstat, union squad, union occupation, link)
  weapon    : WeaponPotentialOptimizer against an independent brute force, plus the data the Coq
              instance needs

Caller side: encoders of the cases as Coq terms.
"""
from __future__ import annotations

import json
import sys
from fractions import Fraction

# --------------------------------------------------------------------------- table functions (mirror of GreedyInst.eval_fn)


def frac(x):
    if isinstance(x, (list, tuple)):
        return Fraction(int(x[0]), int(x[1]))
    return Fraction(x)


def eval_fn(f, st, exact=True):
    """f = {"kind": "sum"|"prod", "base": q, "tabs": [[q..]..]} | {"kind": "full", "radix": r, "tbl": [q..], "dflt": q}"""
    conv = frac if exact else (lambda x: (x[0] / x[1]) if isinstance(x, (list, tuple)) else x)
    k = f["kind"]
    if k in ("sum", "prod"):
        acc = conv(f["base"])
        for t, x in zip(f["tabs"], st):
            v = conv(t[x]) if x < len(t) else conv(0)
            acc = acc + v if k == "sum" else acc * v
        return acc
    if k == "full":
        r = f["radix"]
        if all(x < r for x in st):
            c = 0
            for x in st:
                c = c * r + x
            if c < len(f["tbl"]):
                return conv(f["tbl"][c])
        return conv(f["dflt"])
    raise ValueError(k)


# --------------------------------------------------------------------------- Coq encoders (caller side)
def qlit(x):
    f = frac(x)
    if f.numerator < 0:
        return "((-%d)#%d)%%Q" % (-f.numerator, f.denominator)
    return "(%d#%d)%%Q" % (f.numerator, f.denominator)


def coq_fn(f):
    if f["kind"] in ("sum", "prod"):
        tabs = "[" + "; ".join("[" + "; ".join(qlit(v) for v in t) + "]" for t in f["tabs"]) + "]"
        return "(%s %s %s)" % ("FSum" if f["kind"] == "sum" else "FProd", qlit(f["base"]), tabs)
    return "(FFull %d [%s] %s)" % (f["radix"], "; ".join(qlit(v) for v in f["tbl"]), qlit(f["dflt"]))


def coq_state(st):
    return "[" + "; ".join(str(int(x)) for x in st) + "]"


def coq_states(sts):
    return "[" + "; ".join(coq_state(s) for s in sts) + "]"


def coq_outcome(o):
    if o["kind"] == "Done":
        return "(Done %s %d)" % (coq_state(o["state"]), o["steps"])
    return o["kind"]


def coq_case(case, res):
    return "case_ok %s %s %d %s %d %d %s %s %s" % (
        coq_fn(case["value"]), coq_fn(case["cost"]), case["M"], qlit(case["budget"]), case["depth"],
        case["max_iter"], coq_state(case["start"]), coq_outcome(res["outcome"]), coq_states(res["visited"]))


SHARD_HEAD = ("From Coq Require Import List QArith Bool Arith.\nFrom V.Model Require Import Greedy GreedyInst.\n"
              "From V.Lib Require Import Corr.\nImport ListNotations.\nOpen Scope nat_scope.\n")


def shard(terms):
    return SHARD_HEAD + "Definition cases : list bool := [\n  " + ";\n  ".join(terms) + "].\nEval vm_compute in (bad cases).\n"


def parse_bad(out):
    import re
    m = re.search(r"=\s*\[([^\]]*)\]", out)
    if not m:
        return None
    body = m.group(1).replace("%N", "").strip()
    return [int(x) for x in body.split(";") if x.strip()] if body else []


# --------------------------------------------------------------------------- worker: synthetic targets
def run_synthetic(case, exact=True):
    from simaple.optimizer.optimizer import DiscreteTarget, StepwizeOptimizer

    vf, cf = case["value"], case["cost"]

    class TableTarget(DiscreteTarget):
        def __init__(self, n, maximum_step):
            super().__init__(n, maximum_step)

        def get_value(self):
            return eval_fn(vf, self.state, exact)

        def get_cost(self):
            return eval_fn(cf, self.state, exact)

        def get_result(self):
            return list(self.state)

        def clone(self):
            t = TableTarget(self.state_length, self.maximum_step)
            t.set_state(self.state)
            return t

    visited = []

    class Recording(StepwizeOptimizer):      # only observes: the real methods do all the work
        def get_optimal_increment(self, target):
            visited.append(list(target.state))
            return super().get_optimal_increment(target)

    proto = TableTarget(len(case["start"]), case["M"])
    proto.set_state(list(case["start"]))
    budget = frac(case["budget"]) if exact else float(frac(case["budget"]))
    opt = Recording(proto, budget, case["depth"], case["max_iter"])
    try:
        out = opt.optimize()
        outcome = {"kind": "Done", "state": list(out.state), "steps": len(visited) - 1}
    except ZeroDivisionError:
        outcome = {"kind": "Crash"}
    except StepwizeOptimizer.MaximumOptimizationStepExceed:
        outcome = {"kind": "IterExceeded"}
    except TypeError:
        outcome = {"kind": "Impossible"}
    return {"outcome": outcome, "visited": visited[1:]}


def gen_table(rng, n, levels, style):
    """one table per slot, `levels` entries each"""
    tabs = []
    for _ in range(n):
        if style == "concave":          # positive, shrinking gains (hyper stat like)
            g, t, acc = rng.randint(2, 12), [0], 0
            for _l in range(levels - 1):
                acc += g
                t.append(acc)
                g = max(0, g - rng.randint(0, 4))
        elif style == "rising":         # costs that grow (1, 2, 4, ...)
            t, acc, c = [0], 0, rng.randint(1, 2)
            for _l in range(levels - 1):
                acc += c
                t.append(acc)
                c += rng.randint(0, 3)
        elif style == "count":          # cost = sum(state)
            t = list(range(levels))
        elif style == "factor":         # multiplicative factors >= 1 as fractions
            t, f = [[1, 1]], Fraction(1)
            for _l in range(levels - 1):
                f += Fraction(rng.randint(0, 5), rng.choice([10, 20, 100]))
                t.append([f.numerator, f.denominator])
        else:                           # wild: anything, including falling values, zero and negative numbers
            t = [rng.randint(-3, 12) for _l in range(levels)]
        tabs.append(t)
    return tabs


def gen_case(rng, kind):
    n = rng.choice([1, 2, 2, 3, 3, 4])
    M = rng.choice([1, 1, 2, 3])
    start = [0] * n
    r = rng.random()
    if r < 0.25:
        start = [rng.randint(0, M) for _ in range(n)]
    elif r < 0.33:
        start = [rng.randint(0, M + 2) for _ in range(n)]       # some slots already above the maximum
    levels = max(M, max(start)) + 2
    depth = rng.choice([0, 1, 1, 2, 2, 2, 3, 4, 5])
    max_iter = 999 if rng.random() < 0.85 else rng.randint(0, 3)
    if kind == "hyper":
        vf = {"kind": "sum", "base": rng.randint(50, 300), "tabs": gen_table(rng, n, levels, "concave")}
        cf = {"kind": "sum", "base": 0, "tabs": gen_table(rng, n, levels, "rising")}
    elif kind == "mask":
        vf = {"kind": rng.choice(["prod", "sum"]), "base": rng.randint(10, 100), "tabs": None}
        vf["tabs"] = gen_table(rng, n, levels, "factor" if vf["kind"] == "prod" else "concave")
        cf = {"kind": "sum", "base": 0, "tabs": gen_table(rng, n, levels, "count")}
    elif kind == "full":
        radix = levels
        size = radix ** n
        pos = rng.random() < 0.5
        vf = {"kind": "full", "radix": radix, "dflt": rng.randint(0, 3),
              "tbl": [rng.randint(1, 40) if pos else rng.randint(-2, 20) for _ in range(size)]}
        if rng.random() < 0.5:
            cf = {"kind": "sum", "base": 0, "tabs": gen_table(rng, n, levels, "count")}
        else:
            cf = {"kind": "full", "radix": radix, "dflt": rng.randint(0, 9),
                  "tbl": [rng.randint(0, 9) for _ in range(size)]}
    else:                                # wild separable
        vf = {"kind": "sum", "base": rng.randint(0, 60), "tabs": gen_table(rng, n, levels, "wild")}
        cf = {"kind": "sum", "base": rng.randint(0, 3),
              "tabs": gen_table(rng, n, levels, rng.choice(["wild", "rising", "count"]))}
    # budgets: on the cost of some reachable-looking state (boundary of `cost > maximum_cost`), around it, or free
    probe = [rng.randint(s, max(s, M)) for s in start]
    c = eval_fn(cf, probe)
    r = rng.random()
    if r < 0.45:
        budget = c
    elif r < 0.6:
        budget = c + rng.choice([-1, 1])
    elif r < 0.7:
        budget = c + Fraction(rng.choice([-1, 1]), 2)
    elif r < 0.8:
        budget = eval_fn(cf, start) - rng.randint(0, 2)       # start at / over the budget
    else:
        budget = rng.randint(0, 30)
    budget = Fraction(budget)
    return {"kind": kind, "value": vf, "cost": cf, "M": M, "budget": [budget.numerator, budget.denominator],
            "depth": depth, "max_iter": max_iter, "start": start}


# fixed cases: the examples proved in Proofs/GreedyCoded.v must behave the same in the real code
FIXED_CASES = [
    {"kind": "example", "value": {"kind": "sum", "base": 100, "tabs": [[0, 5, 9, 12], [0, 4, 6, 7]]},
     "cost": {"kind": "sum", "base": 0, "tabs": [[0, 1, 2, 3], [0, 1, 2, 3]]}, "M": 3, "budget": [4, 1], "depth": 2,
     "max_iter": 999, "start": [0, 0]},
    {"kind": "falling-value", "value": {"kind": "sum", "base": 100, "tabs": [[0, -10, -20]]},
     "cost": {"kind": "sum", "base": 0, "tabs": [[0, 1, 2]]}, "M": 2, "budget": [2, 1], "depth": 1,
     "max_iter": 999, "start": [0]},
]


def feature(case, res):
    """coarse class of a case for the input histogram"""
    o = res["outcome"]
    fs = [case["kind"], "depth%d" % min(case["depth"], 5), o["kind"]]
    if o["kind"] == "Done":
        fs.append("steps0" if o["steps"] == 0 else ("steps1-2" if o["steps"] <= 2 else "steps3+"))
        b = frac(case["budget"])
        if o["steps"] and eval_fn(case["cost"], o["state"]) == b:
            fs.append("budget-tight")
        if eval_fn(case["cost"], case["start"]) > b:
            fs.append("start-over-budget")
        if any(x >= case["M"] for x in o["state"]):
            fs.append("max-step-reached")
    if any(x > case["M"] for x in case["start"]):
        fs.append("start-above-max")
    if case["max_iter"] < 999:
        fs.append("small-max-iter")
    return fs


def exact_rewards(case, st):
    """harness-side mirror of get_reward (only used to explain a float/exact disagreement by a tie)"""
    from simaple.optimizer.step_iterator import Iterator
    out = []
    v0, c0, b = eval_fn(case["value"], st), eval_fn(case["cost"], st), frac(case["budget"])
    for inc in Iterator().cumulated_iterator(len(st), case["depth"]):
        ns, ok = list(st), True
        for i in inc:
            ns[i] += 1
            if ns[i] > case["M"]:
                ok = False
                break
        if not ok:
            continue
        c = eval_fn(case["cost"], ns)
        if c > b or v0 == 0 or c == c0:
            continue
        out.append((eval_fn(case["value"], ns) / v0 - 1) / (c - c0))
    return out


def has_near_tie(case, res):
    """some visited state where the best reward is (nearly) shared by two increments or (nearly) equals -1"""
    for st in [case["start"]] + res["visited"]:
        rs = sorted(exact_rewards(case, st), reverse=True)
        if rs and abs(rs[0] + 1) < Fraction(1, 10 ** 9):
            return True
        if len(rs) >= 2 and abs(rs[0] - rs[1]) <= Fraction(1, 10 ** 9) * max(1, abs(rs[0])):
            return True
    return False


def job_synthetic(job):
    import random
    rng = random.Random(job["seed"])
    out = []
    cases = list(job.get("cases") or [])
    if job.get("fixed"):
        cases += FIXED_CASES
    kinds = ["hyper", "mask", "full", "full", "wild", "wild"]
    for i in range(job.get("n", 0)):
        cases.append(gen_case(rng, kinds[i % len(kinds)]))
    for case in cases:
        res = run_synthetic(case, exact=True)
        # the same target with plain ints/floats (what real targets use): must agree unless a tie/rounding is involved
        try:
            fl = run_synthetic(case, exact=False)
        except Exception as e:           # pragma: no cover
            fl = {"outcome": {"kind": "error", "what": repr(e)}, "visited": []}
        twice = run_synthetic(case, exact=True)
        tie = (fl != res) and has_near_tie(case, res)
        out.append({"case": case, "res": res, "float_agrees": fl == res, "float": fl if fl != res else None, "tie": tie,
                    "deterministic": twice == res, "features": feature(case, res)})
    return out


def job_iterator(job):
    from simaple.optimizer.step_iterator import Iterator
    out = []
    for n, d in job["pairs"]:
        out.append({"n": n, "depth": d, "tuples": [list(t) for t in Iterator().cumulated_iterator(n, d)]})
    return out


def coq_iter_case(rec):
    return "iter_ok %d %d %s" % (rec["n"], rec["depth"], coq_states(rec["tuples"]))


# --------------------------------------------------------------------------- worker: real targets
LOGICS = ["STRBasedDamageLogic", "INTBasedDamageLogic", "DEXBasedDamageLogic", "LUKBasedDamageLogic",
          "LUKBasedDualSubDamageLogic"]
TOL = 1e-9


def make_logic(spec):
    from simaple.core import damage
    return getattr(damage, spec["cls"])(attack_range_constant=spec["arc"], mastery=spec["mastery"])


def gen_stat(rng):
    """a reference stat block of a plausible character; the positive-damage domain is checked by the caller"""
    d = {}
    for k in ("STR", "DEX", "INT", "LUK"):
        d[k] = float(rng.choice([4, 500, 5000, 40000]) + rng.randint(0, 3000))
        d[k + "_multiplier"] = float(rng.choice([0, 50, 300, 600]))
        d[k + "_static"] = float(rng.choice([0, 1000, 20000]))
    d["attack_power"] = float(rng.choice([50, 1500, 3000, 6000]))
    d["magic_attack"] = float(rng.choice([50, 1500, 3000, 6000]))
    d["attack_power_multiplier"] = float(rng.choice([0, 30, 90]))
    d["magic_attack_multiplier"] = float(rng.choice([0, 30, 90]))
    d["critical_rate"] = float(rng.choice([0, 40, 80, 98, 100, 120]))
    d["critical_damage"] = float(rng.choice([0, 50, 100]))
    d["boss_damage_multiplier"] = float(rng.choice([0, 100, 300]))
    d["damage_multiplier"] = float(rng.choice([0, 60, 150]))
    d["final_damage_multiplier"] = float(rng.choice([0, 40]))
    d["ignored_defence"] = float(rng.choice([0, 50, 70, 85, 90, 95, 100]))
    return d


def fix_domain(rng, cfg):
    """mostly inside the positive-damage domain: armour term 1 - armor * (100 - ied) / 10000 > 0"""
    a = cfg["armor"]
    if a > 0 and rng.random() < 0.9:
        lo = 100 - 10000.0 / a               # the armour term vanishes here (negative for a < 100)
        lo = max(0.0, lo)
        cfg["stat"]["ignored_defence"] = float(rng.choice([int(lo) + 1, int(lo) + 3, 80, 85, 90, 95, 97, 100]))
        if cfg["stat"]["ignored_defence"] <= lo:
            cfg["stat"]["ignored_defence"] = 95.0


def gen_real_config(rng, kind):
    from simaple.system.hyperstat import Hyperstat
    cfg = {"target": kind,
           "logic": {"cls": rng.choice(LOGICS), "arc": rng.choice([1.0, 1.2, 1.34, 1.5]), "mastery": rng.choice([0.85, 0.9, 0.95])},
           "stat": gen_stat(rng),
           "armor": rng.choice([300, 300, 0, 100, 250, 380])}
    fix_domain(rng, cfg)
    if kind == "hyperstat":
        lv = rng.choice([100, 140, 141, 200, 230, 250, 260, 275, 285, 300])
        cfg["level"] = lv
        cfg["budget"] = rng.choice([Hyperstat.get_maximum_cost_from_level(lv), rng.randint(0, 1700)])
        cfg["step"] = rng.choice([1, 1, 1, 2])
    elif kind == "union_squad":
        cfg["preset_jobs"] = rng.sample(preset_job_pool("union_squad"), rng.choice([0, 1, 1, 2, 3]))
        cfg["budget"] = rng.choice([0, 1, 2, 3, 5, 9, 15, 22, 30, 37, 42, 47, 50])
        cfg["step"] = 1
        # a board may hold the same job twice (a job gives its effect once, by its LARGEST placed block): smaller duplicates placed later
        cfg["duplicates"] = [(rng.randrange(0, 40), rng.choice([1, 2, 3])) for _ in range(rng.choice([0, 0, 1, 2]))]
    elif kind == "union_occupation":
        cfg["preset_state"] = rng.choice([None, None, [0, 0, 0, 0, 40], [5, 0, 0, 0, 0], [0, 10, 0, 3, 0]])
        cfg["budget"] = rng.choice([0, 1, 7, 20, 39, 40, 41, 60, 80, 120, 160, 199, 200, 201, 250])
        cfg["step"] = rng.choice([2, 2, 2, 1, 3])
    elif kind == "link":
        cfg["preset_jobs"] = rng.sample(preset_job_pool("link"), rng.choice([0, 1, 1, 2]))
        cfg["budget"] = rng.choice([0, 1, 2, 3, 6, 12, 13, 20, 26, 27, 28, 40])
        cfg["step"] = rng.choice([1, 1, 1, 2])
    return cfg


_JOBS = {}


def preset_job_pool(kind):
    """jobs that have a union block / provide a link skill in the shipped data (get_index raises KeyError for others)"""
    if kind not in _JOBS:
        if kind == "union_squad":
            from simaple.data.system.union_block import create_with_some_large_blocks
            _JOBS[kind] = sorted({b.job.value for b in create_with_some_large_blocks(large_block_jobs=[]).blocks})
        else:
            from simaple.data.system.link import get_kms_link_skill_set
            _JOBS[kind] = sorted({j.value for l in get_kms_link_skill_set().links for j in l.providing_jobs})
    return _JOBS[kind]


_PROTO = {}


def proto(key, make):
    """shipped prototypes are loaded from YAML (slow): once per worker; targets never mutate them"""
    if key not in _PROTO:
        _PROTO[key] = make()
    return _PROTO[key]


def build_target(cfg):
    """-> (target, expected start state, per-slot limit, objects for the independent objective)"""
    from simaple.core import JobType, Stat
    from simaple import optimizer as O
    stat = Stat(**cfg["stat"])
    logic = make_logic(cfg["logic"])
    armor = cfg["armor"]
    kw = {} if cfg.get("armor_default") else {"armor": armor}
    kind = cfg["target"]
    if kind == "hyperstat":
        from simaple.data.system.hyperstat import get_kms_hyperstat
        hs = proto("hyperstat", get_kms_hyperstat)
        t = O.HyperstatTarget(stat, logic, hs, **kw)
        start = [0] * hs.length()
        limit = [len(opt) - 1 for (_p, opt) in hs.options]
        indep = lambda tt: tt.get_result().get_stat()
    elif kind == "union_squad":
        from simaple.data.system.union_block import create_with_some_large_blocks
        jobs = [JobType(j) for j in cfg["preset_jobs"]]
        squad = proto(("squad",) + tuple(cfg["preset_jobs"]), lambda: create_with_some_large_blocks(large_block_jobs=jobs))
        if cfg.get("duplicates"):
            from simaple.system.union import UnionSquad
            sizes, blocks = list(squad.block_size), list(squad.blocks)
            for idx, smaller in cfg["duplicates"]:
                idx %= len(squad.blocks)
                sizes.append(max(1, squad.block_size[idx] - smaller))
                blocks.append(squad.blocks[idx])
            squad = UnionSquad(block_size=sizes, blocks=blocks)
        t = O.UnionSquadTarget(stat, logic, squad, preempted_jobs=jobs, **kw)
        start = [0] * squad.length()
        for j in jobs:
            start[squad.get_index(j)] = 1
        limit = [1] * squad.length()
        indep = lambda tt: tt.get_result().get_stat()
    elif kind == "union_occupation":
        from simaple.system.union import UnionOccupation
        occ = UnionOccupation()
        t = O.UnionOccupationTarget(stat, logic, occ, **kw)
        start = [0] * occ.length()
        if cfg.get("preset_state"):
            t.set_state(list(cfg["preset_state"]))
            start = list(cfg["preset_state"])
        limit = [40] * occ.length()
        indep = lambda tt: tt.get_result().get_stat()
    elif kind == "link":
        from simaple.data.system.link import get_kms_link_skill_set
        jobs = [JobType(j) for j in cfg["preset_jobs"]]
        ls = proto("link", get_kms_link_skill_set)
        t = O.LinkSkillTarget(stat, logic, ls, preempted_jobs=jobs, **kw)
        start = [0] * ls.length()
        for j in jobs:
            start[ls.get_index(j)] = 1
        limit = [1] * ls.length()
        indep = lambda tt: tt.get_result().get_stat()
    else:
        raise ValueError(kind)
    return t, start, limit, (stat, logic, armor, indep)


def independent_value(target, objs):
    stat, logic, armor, indep = objs
    return logic.get_damage_factor(stat + indep(target), armor=armor)


def check_real(cfg):
    """Run the real optimizer on one configuration and evaluate the property as stated.
    -> {"skipped": why} | {"findings": [...], "info": {...}}"""
    from simaple.optimizer.optimizer import StepwizeOptimizer
    from simaple.optimizer.step_iterator import Iterator
    findings = []

    def bad(what, **kw):
        findings.append(dict(kw, what=what))

    target, start, limit, objs = build_target(cfg)
    if list(target.state) != start:
        bad("pre-assigned choices are not in the target's start state", state=list(target.state), expected=start)
    v0 = target.get_value()
    if not v0 > 0:
        return {"skipped": "start value %r is not positive (outside the positive-damage domain)" % v0}
    c0 = target.get_cost()
    budget = cfg["budget"]
    # objective = configured logic, stat and ARMOUR (computed without the target's get_value)
    iv = independent_value(target, objs)
    if abs(iv - v0) > TOL * max(1.0, abs(iv)):
        bad("get_value() is not the configured objective (logic, stat, armour)", get_value=v0, independent=iv)
    # clone keeps the objective
    cl = target.clone()
    if cl.get_value() != v0 or cl.get_cost() != c0 or list(cl.state) != list(target.state):
        bad("clone() changes value, cost or state", value=v0, clone_value=cl.get_value(), cost=c0,
            clone_cost=cl.get_cost(), state=list(target.state), clone_state=list(cl.state))

    visited = []

    class Recording(StepwizeOptimizer):
        def get_optimal_increment(self, tt):
            visited.append((list(tt.state), tt.get_cost(), tt.get_value()))
            return super().get_optimal_increment(tt)

    try:
        out = Recording(target, budget, cfg["step"]).optimize()
    except Exception as e:
        bad("optimize() raised %r" % e)
        return {"findings": findings, "info": {}}
    st = list(out.state)
    cost, val = out.get_cost(), out.get_value()
    steps = len(visited) - 1
    # budget: every state after the start state, and the result (unless nothing was done)
    for (s, c, v) in visited[1:]:
        if c > budget:
            bad("a visited state costs more than the budget", state=s, cost=c, budget=budget)
            break
    if steps > 0 and cost > budget:
        bad("result costs more than the budget", state=st, cost=cost, budget=budget)
    if steps == 0 and st != start:
        bad("no step taken but the state changed", state=st, start=start)
    if c0 > budget and st != start:
        bad("start state over budget but the optimizer moved", state=st, start=start, cost=cost, budget=budget)
    # per-slot limits, presets
    for i, (x, x0, lim) in enumerate(zip(st, start, limit)):
        if x > max(lim, x0):
            bad("slot above its limit", slot=i, value=x, limit=lim, state=st)
            break
    if len(st) != len(start) or any(x < x0 for x, x0 in zip(st, start)):
        bad("a pre-assigned choice was lowered or dropped", state=st, start=start)
    # never worse, and values along the run (the monotonicity hypothesis of C19_never_worse)
    if val < v0 - TOL * abs(v0):
        bad("result scores worse than the starting point", start_value=v0, value=val, state=st)
    for (a, b) in zip(visited, visited[1:]):
        if b[2] < a[2] - TOL * abs(a[2]):
            bad("value fell along the run", before=a[0], after=b[0], v_before=a[2], v_after=b[2])
            break
    # result object agrees with the state
    iv2 = independent_value(out, objs)
    if abs(iv2 - val) > TOL * max(1.0, abs(iv2)):
        bad("result's get_value() is not the configured objective", get_value=val, independent=iv2)
    cl2 = out.clone()
    if cl2.get_value() != val or cl2.get_cost() != cost or list(cl2.state) != st:
        bad("clone() of the result changes value, cost or state", value=val, clone_value=cl2.get_value())
    # local optimality: no increment of the iterator that is legal and affordable improves the value
    legal_affordable = 0
    for inc in Iterator().cumulated_iterator(len(st), cfg["step"]):
        ns = list(st)                     # legality by the documented per-slot limit, not by get_stepped_target
        for i in inc:
            ns[i] += 1
        if any(x > max(lim, x0) for x, x0, lim in zip(ns, start, limit)):
            continue
        nt = out.clone()
        nt.set_state(ns)
        nc = nt.get_cost()
        if nc > budget:
            continue
        legal_affordable += 1
        nv = nt.get_value()
        if nv > val + TOL * abs(val) and nc > cost:
            bad("a further affordable legal increment improves the result", increment=list(inc), value=val, new_value=nv,
                cost=cost, new_cost=nc, budget=budget, state=st)
            break
    # determinism
    t2, _s, _l, _o = build_target(cfg)
    out2 = StepwizeOptimizer(t2, budget, cfg["step"]).optimize()
    if list(out2.state) != st or out2.get_value() != val:
        bad("same inputs, different result", first=st, second=list(out2.state))
    # the caller's target is an INPUT: optimizing must not change it, a result must not change when the same target is optimized
    # again with another budget, and that second run must give what a fresh target gives (budget sweep over one prototype)
    if list(target.state) != start:
        bad("optimize() changed the state of the target it was given", state=list(target.state), start=start, budget=budget)
    if list(out.state) != st:
        bad("the returned result changed after it was returned", first=st, now=list(out.state))
    for b2 in (max(0, budget // 3), 0, budget + max(1, budget // 2)):
        try:
            o_same = StepwizeOptimizer(target, b2, cfg["step"]).optimize()
            t_fresh, _s, _l, _o = build_target(cfg)
            o_fresh = StepwizeOptimizer(t_fresh, b2, cfg["step"]).optimize()
        except Exception as e:
            bad("optimize() raised %r on a second run over the same target" % e, budget=b2)
            break
        if list(o_same.state) != list(o_fresh.state):
            bad("a second run over the SAME target object (other budget) differs from the run over a fresh target",
                first_budget=budget, budget=b2, same_target=list(o_same.state), fresh_target=list(o_fresh.state),
                cost=o_same.get_cost())
            break
        if list(out.state) != st or list(target.state) != start:
            bad("a later run over the same target rewrote an earlier result or the target itself", first_budget=budget, budget=b2,
                earlier_result_now=list(out.state), earlier_result=st, target_now=list(target.state), start=start)
            break
    # does the configured armour matter here? (coverage only)
    armour_matters = None
    if cfg["armor"] != 300:
        c3 = dict(cfg, armor=300)
        t3, _s, _l, _o = build_target(c3)
        out3 = StepwizeOptimizer(t3, budget, cfg["step"]).optimize()
        armour_matters = list(out3.state) != st
    return {"findings": findings,
            "info": {"steps": steps, "state": st, "cost": cost, "budget": budget, "value_gain": val / v0,
                     "legal_affordable_left": legal_affordable, "armour_changes_result": armour_matters,
                     "start_over_budget": c0 > budget, "preset": sum(start)}}


def job_real(job):
    import random
    rng = random.Random(job["seed"])
    out = []
    cfgs = list(job.get("configs") or [])
    kinds = job.get("kinds") or ["hyperstat", "union_squad", "union_occupation", "link"]
    for i in range(job.get("n", 0)):
        cfgs.append(gen_real_config(rng, kinds[i % len(kinds)]))
    for cfg in cfgs:
        try:
            r = check_real(cfg)
        except Exception as e:
            import traceback
            r = {"findings": [], "harness_error": "%r %s" % (e, traceback.format_exc()[-800:]), "info": {}}
        r["config"] = cfg
        out.append(r)
    return out


# --------------------------------------------------------------------------- worker: weapon potential
TIERS = ["empty", "rare", "epic", "unique", "legendary"]


def line_view(stat, logic):
    """(att, attm, ied, boss) of a potential line as the logic sees it"""
    from simaple.core.base import AttackType
    if logic.get_attack_type() == AttackType.attack_power:
        return (stat.attack_power, stat.attack_power_multiplier, stat.ignored_defence, stat.boss_damage_multiplier)
    return (stat.magic_attack, stat.magic_attack_multiplier, stat.ignored_defence, stat.boss_damage_multiplier)


def wp_formula(env, ied0, armor, lines):
    att, attm, dmg, ied = env["att"], env["attm"], env["dmg"], ied0
    for (a, am, i, b) in lines:
        att += a
        attm += am
        dmg += b
        ied = 100 - 0.01 * ((100 - ied) * (100 - i))
    return env["const"] * (1 + dmg * 0.01) * (1 - 0.0001 * (armor * (100 - ied))) * (att * (1 + 0.01 * attm))


def check_weapon(cfg):
    import itertools
    from simaple.core import Stat
    from simaple.core.base import AttackType
    from simaple.gear.potential import PotentialTier
    from simaple.optimizer import weapon_potential_optimizer as W
    findings = []

    def bad(what, **kw):
        findings.append(dict(kw, what=what))

    stat = Stat(**cfg["stat"])
    logic = make_logic(cfg["logic"])
    armor = cfg["armor"]
    tiers = tuple(PotentialTier[t] for t in cfg["tiers"])
    wp = W.WeaponPotentialOptimizer(default_stat=stat, tiers=tiers, damage_logic=logic, armor=armor)
    base = wp.get_reward(Stat())
    if not base > 0 or not logic.get_armor_factor(stat, armor) > 0:
        return {"skipped": "outside the positive-damage domain"}
    table = {t: list(W._WEAPON_POTENTIALS[PotentialTier[t]]) for t in set(cfg["tiers"])}
    # environment of the closed formula (validated below against get_reward on sampled combinations)
    a0, am0, i0, b0 = line_view(stat, logic)
    env = {"att": a0, "attm": am0, "dmg": stat.boss_damage_multiplier + stat.damage_multiplier, "ied": i0, "armor": armor}
    denom = (1 + env["dmg"] * 0.01) * (1 - 0.0001 * (armor * (100 - i0))) * (a0 * (1 + 0.01 * am0))
    env["const"] = base / denom
    views = {t: [line_view(s, logic) for s in table[t]] for t in table}

    def legal(ids, emblem):
        boss = sum(1 for t, i in zip(cfg["tiers"], ids) if views[t][i][3] > 0)
        ied = sum(1 for t, i in zip(cfg["tiers"], ids) if views[t][i][2] > 0)
        return not (emblem and boss > 0) and boss <= 2 and ied <= 2

    def ids_of(potential):
        ids = []
        for t, o in zip(cfg["tiers"], potential.options):
            ids.append(next(k for k, s in enumerate(table[t]) if s == o.stat))
        return ids

    # ---- real results
    full = wp.get_full_optimal_potential()
    single = wp.get_optimal_potential()
    full_stat = full[0].get_stat() + full[1].get_stat() + full[2].get_stat()
    full_reward = wp.get_reward(full_stat)
    single_reward = wp.get_reward(single.get_stat())
    full_ids = [ids_of(p) for p in full] if all(len(p.options) == 3 for p in full) else None
    single_ids = ids_of(single) if len(single.options) == 3 else None
    cands = [ids_of(p) for p in wp.get_potential_candidates(tiers)]
    cands_e = [ids_of(p) for p in wp.get_potential_candidates(tiers, emblem=True)]
    # ---- independent brute force over ALL lines of the tiers (no pruning), own legality test, closed formula
    all_ids = list(itertools.product(*[range(len(table[t])) for t in cfg["tiers"]]))
    norm = [c for c in all_ids if legal(c, False)]
    embl = [c for c in all_ids if legal(c, True)]
    lines_of = lambda c: [views[t][i] for t, i in zip(cfg["tiers"], c)]

    def partial(c):                       # (att, attm, dmg, remaining defence factor) contributed by one potential
        a = am = b = 0.0
        rem = 1.0
        for (x, y, i, z) in lines_of(c):
            a += x
            am += y
            b += z
            rem *= (100 - i) * 0.01
        return (a, am, b, rem)

    pn = [partial(c) for c in norm]
    pe = [partial(c) for c in embl]
    best, best_at = 0.0, None
    k0 = env["const"]
    for wi, (a1, m1, b1, r1) in enumerate(pn):
        for si, (a2, m2, b2, r2) in enumerate(pn):
            a12, m12, b12, r12 = a0 + a1 + a2, am0 + m1 + m2, env["dmg"] + b1 + b2, (100 - i0) * r1 * r2
            for ei, (a3, m3, b3, r3) in enumerate(pe):
                v = k0 * (1 + (b12 + b3) * 0.01) * (1 - 0.0001 * armor * (r12 * r3)) * ((a12 + a3) * (1 + 0.01 * (m12 + m3)))
                if v > best:
                    best, best_at = v, (wi, si, ei)
    best_single = max([0.0] + [wp_formula(env, i0, armor, lines_of(c)) for c in norm])
    # the closed formula is the code's objective: validate on the optimum and on sampled combinations
    import random
    rng = random.Random(cfg.get("seed", 0))
    probes = [(norm[best_at[0]], norm[best_at[1]], embl[best_at[2]])] if best_at else []
    for _ in range(6):
        probes.append((rng.choice(norm), rng.choice(norm), rng.choice(embl)))
    for (w, s, e) in probes:
        st_sum = Stat()
        for c in (w, s, e):
            for t, i in zip(cfg["tiers"], c):
                st_sum = st_sum + table[t][i]
        real = wp.get_reward(st_sum)
        mine = wp_formula(env, i0, armor, lines_of(w) + lines_of(s) + lines_of(e))
        if abs(real - mine) > 1e-9 * max(1.0, abs(real)):
            bad("harness formula differs from get_reward (harness must be updated)", real=real, formula=mine)
    if full_reward < best * (1 - TOL):
        bad("full optimal potential is not the best of all legal combinations", reward=full_reward, best=best,
            chosen=full_ids, better=[list(norm[best_at[0]]), list(norm[best_at[1]]), list(embl[best_at[2]])])
    if full_reward > best * (1 + TOL) and full_reward > 0:
        bad("full optimal potential is not a legal combination of the tiers' lines", reward=full_reward, best=best, chosen=full_ids)
    if full_ids is not None and not (legal(full_ids[0], False) and legal(full_ids[1], False) and legal(full_ids[2], True)):
        bad("full optimal potential breaks a line-count limit", chosen=full_ids)
    if single_reward < best_single * (1 - TOL):
        bad("optimal potential is not the best of all legal combinations", reward=single_reward, best=best_single, chosen=single_ids)
    if single_ids is not None and not legal(single_ids, False):
        bad("optimal potential breaks a line-count limit", chosen=single_ids)
    # never worse than no potential; determinism; armour is part of the objective
    if full_reward < base * (1 - TOL) and full_ids is not None:
        bad("full optimal potential scores worse than no potential", reward=full_reward, base=base)
    again = wp.get_full_optimal_potential()
    if [ids_of(p) for p in again] != (full_ids or [[], [], []]) and full_ids is not None:
        bad("same inputs, different weapon potential", first=full_ids, second=[ids_of(p) for p in again])
    indep = logic.get_damage_factor(stat + full_stat, armor=armor)
    if abs(indep - full_reward) > TOL * max(1.0, abs(indep)):
        bad("get_reward is not the configured objective (armour)", get_reward=full_reward, independent=indep)
    # data for the Coq instance
    from fractions import Fraction as F
    coq = {"env": {k: list(F(float(v)).as_integer_ratio()) for k, v in env.items()},
           "tiers": [[[k] + [list(F(float(x)).as_integer_ratio()) for x in views[t][k]] for k in range(len(views[t]))] for t in cfg["tiers"]],
           "cands": cands, "cands_emblem": cands_e, "full_reward": list(F(full_reward).as_integer_ratio()),
           "single_reward": list(F(single_reward).as_integer_ratio())}
    return {"findings": findings, "coq": coq,
            "info": {"full": full_ids, "single": single_ids, "n_cands": len(cands), "n_cands_emblem": len(cands_e),
                     "unpruned": [len(norm), len(embl)], "gain": full_reward / base}}


def gen_weapon_config(rng):
    r = rng.random()
    if r < 0.35:
        t = rng.choice(TIERS)
        tiers = [t, t, t]
    elif r < 0.8:
        i = rng.randint(1, 4)
        tiers = [TIERS[i], TIERS[max(0, i - 1)], TIERS[max(0, i - rng.choice([1, 2]))]]
    else:
        tiers = [rng.choice(TIERS) for _ in range(3)]
    cfg = {"logic": {"cls": rng.choice(LOGICS), "arc": rng.choice([1.0, 1.2, 1.5]), "mastery": rng.choice([0.85, 0.9, 0.95])},
            "stat": gen_stat(rng), "armor": rng.choice([300, 300, 0, 100, 250, 380]), "tiers": tiers,
            "seed": rng.randint(0, 10 ** 6)}
    fix_domain(rng, cfg)
    return cfg


def job_weapon(job):
    import random
    rng = random.Random(job["seed"])
    out = []
    cfgs = list(job.get("configs") or [])
    for _ in range(job.get("n", 0)):
        cfgs.append(gen_weapon_config(rng))
    for cfg in cfgs:
        try:
            r = check_weapon(cfg)
        except Exception as e:
            import traceback
            r = {"findings": [], "harness_error": "%r %s" % (e, traceback.format_exc()[-800:]), "info": {}}
        r["config"] = cfg
        out.append(r)
    return out


def coq_weapon_case(coq, with_unpruned):
    """bool term: candidate lists equal, optimum values close (rounding-noise rule), and optionally the
    pruned optimum equals the best over all legal unpruned triples"""
    q = lambda p: qlit(p)
    e = coq["env"]
    env = "{| e_const := %s; e_att := %s; e_attm := %s; e_dmg := %s; e_ied := %s; e_armor := %s |}" % (
        q(e["const"]), q(e["att"]), q(e["attm"]), q(e["dmg"]), q(e["ied"]), q(e["armor"]))
    tiers = "[" + "; ".join("[" + "; ".join(
        "{| l_id := %d; l_att := %s; l_attm := %s; l_ied := %s; l_boss := %s |}" % (l[0], q(l[1]), q(l[2]), q(l[3]), q(l[4]))
        for l in t) + "]" for t in coq["tiers"]) + "]"
    parts = ["states_eqb (wp_cand_ids E T false) %s" % coq_states(coq["cands"]),
             "states_eqb (wp_cand_ids E T true) %s" % coq_states(coq["cands_emblem"]),
             "qclose (wp_full_value E T) %s" % q(coq["full_reward"]),
             "qclose (wp_single_value E T) %s" % q(coq["single_reward"])]
    if with_unpruned:
        parts.append("qclose (wp_unpruned_best E T) (wp_full_value E T)")
    return "(let E := %s in let T := %s in %s)" % (env, tiers, " && ".join(parts))


# --------------------------------------------------------------------------- entry
JOBS = {"synthetic": job_synthetic, "iterator": job_iterator, "real": job_real, "weapon": job_weapon}

if __name__ == "__main__":
    job = json.loads(sys.stdin.read())
    res = JOBS[job["job"]](job)
    sys.stdout.write("\n@@RESULT@@" + json.dumps(res, default=str))

def check_preset_weapon_potential(seed, n=3):
    """PresetOptimizer.calculate_optimal_weapon_potential with a DIFFERENT tier triple per weaponry slot (what the Legendary18 /
    EpicUnique baselines configure): every line of every slot must come from the table of that slot's own tier at that position,
    and the triple must be the arg-max over the per-slot candidate products (independent brute force)."""
    import itertools
    import random
    from simaple.core import JobType, Stat
    from simaple.core.damage import INTBasedDamageLogic, STRBasedDamageLogic
    from simaple.gear.potential import PotentialTier
    from simaple.optimizer import weapon_potential_optimizer as W
    from simaple.optimizer.preset import PresetOptimizer
    rng = random.Random(seed)
    findings, runs = [], 0
    tiers_pool = [PotentialTier.epic, PotentialTier.unique, PotentialTier.legendary]
    for _ in range(n):
        logic = rng.choice([STRBasedDamageLogic, INTBasedDamageLogic])(attack_range_constant=1.34, mastery=0.9)
        ref = Stat(STR=4000, INT=4000, DEX=1000, LUK=1000, attack_power=2000, magic_attack=2000, attack_power_multiplier=30,
                   magic_attack_multiplier=30, boss_damage_multiplier=rng.choice([100, 250]), ignored_defence=rng.choice([70, 85, 93]),
                   critical_rate=80, critical_damage=40)
        triples = tuple(tuple(sorted((rng.choice(tiers_pool) for _ in range(3)), key=tiers_pool.index, reverse=True)) for _ in range(3))
        if len(set(triples)) == 1:
            triples = (triples[0], (PotentialTier.unique, PotentialTier.epic, PotentialTier.epic), triples[2])
        opt = PresetOptimizer(union_block_count=37, default_stat=Stat(), level=275, damage_logic=logic, character_job_type=JobType.adele,
                              alternate_character_job_types=[], link_count=13, artifact_level=40)
        got = opt.calculate_optimal_weapon_potential(ref, triples)
        runs += 1
        desc = {"tiers": [[t.value for t in tr] for tr in triples], "reference_stat": ref.short_dict(), "logic": type(logic).__name__}
        for slot, (pot, tr) in enumerate(zip(got, triples)):
            lines = [o.stat for o in pot.options]
            for k, (line, tier) in enumerate(zip(lines, tr)):
                if line not in W._WEAPON_POTENTIALS[tier]:
                    findings.append(dict(desc, what="C19: a weapon-potential line is not offered by the tier configured for its slot (per-slot limit)",
                                         slot=["weapon", "sub-weapon", "emblem"][slot], line=line.short_dict(), position=k, tier=tier.value))
        if findings:
            break
        # independent arg-max over the per-slot products (same legality rules: at most 2 boss / 2 IED lines per item, no boss on the emblem)
        def cands(tr, emblem):
            out = []
            for stats in itertools.product(*[W._WEAPON_POTENTIALS[t] for t in tr]):
                boss = sum(1 for s in stats if s.boss_damage_multiplier > 0)
                ied = sum(1 for s in stats if s.ignored_defence > 0)
                if (emblem and boss) or boss > 2 or ied > 2:
                    continue
                out.append(sum(stats, Stat()))
            return out
        best = max(logic.get_damage_factor(ref + a + b + c, armor=300)
                   for a in cands(triples[0], False) for b in cands(triples[1], False) for c in cands(triples[2], True))
        val = logic.get_damage_factor(ref + sum((o.stat for p in got for o in p.options), Stat()), armor=300)
        if val < best * (1 - 1e-9):
            findings.append(dict(desc, what="C19: the weapon-potential result of the preset optimizer is not the best legal combination of the "
                                 "per-slot tiers", value=val, best=best))
            break
    return findings, {"preset_weapon_potential_runs": runs}
