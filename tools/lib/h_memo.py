"""H-memo -- correspondence harness of C20 (memoizer).

A *scenario* is a JSON-able history
    {"id", "variant": "mem" | "xi" | "file", "ops": [{"kind": <class name>, "cfg": {...}} | "reopen" | "reopen_proc"],
     "label": {...}}
variant mem : one InMemoryMemoizer;  xi : InMemoryMemoizer, "reopen" = export, JSON round trip, import into a new
memoizer;  file : PersistentStorageMemoizer on a private path, "reopen" = a new memoizer object on the same path,
"reopen_proc" = the same in a forked child process that runs the rest of the history (a process restart: nothing
but the file is carried over by the memoizer).

`run_scenario` executes the REAL `memoizer.compute_environment(provider)` and the REAL
`provider.get_simulation_environment()` for every request and returns
  * the property itself: canonical JSON of both environments (must be equal; an exception must be the same exception);
  * the abstract trace: hit flag, index of the serving entry, number of entries, memoizable / independent part
    actually handed out, and the direct memoizable / independent parts -- everything interned to numbers so that
    `coq_case` can print a `case_ok ...` term that the executable Coq model (Model/MemoExec.v) decides;
  * tests of the hypotheses the theorems leave to trust: the implementation's key is equal exactly when the
    abstract key (class, key fields) is; the memoizable / independent parts are functions of (class, read fields);
    a stored entry deserialises to what was stored.
The two part-computing methods of the provider classes are wrapped IN THIS PROCESS ONLY to record their return
values (the wrappers call the originals), so that the direct parts do not have to be computed a second time
(a Baseline memoizable part costs ~5 s).
"""
from __future__ import annotations

import copy
import enum
import json
import os
import pickle

_STATE = {"installed": False, "rec": {"memo": [], "indep": []}, "direct": {}}

JOBS = ["bishop", "archmagefb", "archmagetc", "dualblade", "soulmaster", "windbreaker", "mechanic", "adele"]
KINDS = {"MinimalEnvironmentProvider": "Minimal", "BaselineEnvironmentProvider": "Baseline"}


def _plain(o):
    # environments are compared in JSON mode: an enum member is its value (the parts handed out on a hit went through
    # JSON and hold "bishop" where the freshly computed dict holds JobType.bishop; SimulationEnvironment validates both alike)
    if isinstance(o, enum.Enum):
        return o.value
    if hasattr(o, "model_dump"):
        return o.model_dump(mode="json")
    return str(o)


def canon(x) -> str:
    return json.dumps(x, sort_keys=True, ensure_ascii=False, default=_plain)


def _install():
    if _STATE["installed"]:
        return
    try:
        from loguru import logger
        logger.remove()
    except Exception:
        pass
    from simaple.container import environment_provider as ep
    for cname in KINDS:
        cls = getattr(ep, cname)
        for nm, slot in (("get_memoizable_environment", "memo"), ("get_memoization_independent_environment", "indep")):
            orig = getattr(cls, nm)

            def wrap(self, _o=orig, _s=slot):
                r = _o(self)
                _STATE["rec"][_s].append(copy.deepcopy(r))
                return r
            setattr(cls, nm, wrap)
    _STATE["installed"] = True


def make_provider(kind: str, cfg: dict):
    from simaple.container.environment_provider import get_environment_provider
    return get_environment_provider(kind, copy.deepcopy(cfg))


def env_json(env) -> str:
    return canon(env.model_dump(mode="json"))


def direct_of(kind: str, cfg: dict):
    """(env json | None, memo json | None, indep json | None, error | None), computed once per distinct provider."""
    k = canon([kind, cfg])
    d = _STATE["direct"]
    if k not in d:
        rec = _STATE["rec"]
        rec["memo"].clear()
        rec["indep"].clear()
        try:
            p = make_provider(kind, cfg)
            env = p.get_simulation_environment()
            memo = canon(rec["memo"][-1]) if rec["memo"] else None
            indep = canon(rec["indep"][-1]) if rec["indep"] else None
            d[k] = (env_json(env), memo, indep, None, (len(rec["memo"]), len(rec["indep"])))
        except Exception as e:      # an invalid request: the memoizer must fail the same way
            d[k] = (None, None, None, type(e).__name__, (0, 0))
    return d[k]


class _Memo:
    """The memoizer under test plus the recording of what `memoize` handed out."""

    def __init__(self, variant, path):
        self.variant, self.path = variant, path
        self.last = None
        self.open(None)

    def open(self, saved):
        from simaple.container.memoizer import InMemoryMemoizer, PersistentStorageMemoizer
        if self.variant == "file":
            self.m = PersistentStorageMemoizer(self.path)
        else:
            self.m = InMemoryMemoizer(saved) if saved is not None else InMemoryMemoizer()
        orig = self.m.memoize

        def rec(p, _o=orig):
            r = _o(p)
            self.last = (canon(copy.deepcopy(r[0].memoizable_environment)),
                         canon(copy.deepcopy(r[0].independent_environment)), bool(r[1]))
            return r
        self.m.memoize = rec

    def reopen(self):
        if self.variant == "file":
            self.open(None)
        elif self.variant == "xi":
            self.open(json.loads(json.dumps(self.m.export())))
        else:
            raise ValueError("reopen in variant mem")

    def entries(self) -> dict:
        if self.variant == "file":
            with open(self.path) as f:
                return json.load(f)
        return self.m.memos


def _run_ops(sc, M: _Memo, start: int, recs: list):
    """Runs ops[start:], appending one record per op to recs.  Returns normally when done."""
    ops = sc["ops"]
    i = start
    while i < len(ops):
        op = ops[i]
        if op == "reopen":
            M.reopen()
            recs.append({"op": "reopen"})
        elif op == "reopen_proc":
            recs.append({"op": "reopen"})
            r, w = os.pipe()
            pid = os.fork()
            if pid == 0:                      # child: a new memoizer object on the same path, rest of the history
                try:
                    os.close(r)
                    sub = []
                    M2 = _Memo(sc["variant"], M.path)
                    _run_ops(sc, M2, i + 1, sub)
                    with os.fdopen(w, "wb") as f:
                        pickle.dump(sub, f)
                finally:
                    os._exit(0)
            os.close(w)
            with os.fdopen(r, "rb") as f:
                data = f.read()
            os.waitpid(pid, 0)
            recs.extend(pickle.loads(data) if data else [{"op": "req", "crash": "child process died"}])
            M.reopen()
            return
        else:
            recs.append(_request(M, op["kind"], op["cfg"]))
        i += 1


def _request(M: _Memo, kind: str, cfg: dict) -> dict:
    want_env, want_memo, want_indep, want_err, _calls = direct_of(kind, cfg)
    rec = {"op": "req", "kind": kind, "cfg": cfg, "want_err": want_err}
    before = M.entries()
    keys_before = list(before)
    M.last = None
    st = _STATE["rec"]
    st["memo"].clear()
    st["indep"].clear()
    try:
        p = make_provider(kind, cfg)
        # A request is often DERIVED from an earlier one (provider.model_copy(update=...) in an editor session): every second request of a
        # kind is the previously served provider object copied with exactly the fields that changed.  Field for field it is the provider
        # built from scratch, so it must be served like it (whatever the earlier object cached for itself must not travel along).
        prev = getattr(M, "prev_provider", {}).get(kind)
        M.derived = False
        if prev is not None and (getattr(M, "n_req", 0) % 2 == 1):
            changed = {f: getattr(p, f) for f in type(p).model_fields if getattr(p, f) != getattr(prev, f)}
            q = prev.model_copy(update=changed)
            if all(getattr(q, f) == getattr(p, f) for f in type(p).model_fields):
                p, M.derived = q, True
        M.n_req = getattr(M, "n_req", 0) + 1
        ikey = M.m._compute_memo_key(p)
        env = M.m.compute_environment(p)
        got_env, got_err = env_json(env), None
        if not hasattr(M, "prev_provider"):
            M.prev_provider = {}
        M.prev_provider[kind] = p
    except Exception as e:
        got_env, got_err, ikey = None, type(e).__name__, None
    after = M.entries()
    rec.update({
        "got_err": got_err, "env_equal": got_env == want_env, "ikey": ikey,
        "entries_before": len(keys_before), "entries_after": len(after),
        "memo_computations": len(st["memo"]), "indep_computations": len(st["indep"]),
        "want_memo": want_memo, "want_indep": want_indep, "derived_by_model_copy": getattr(M, "derived", False),
    })
    if got_env != want_env:
        rec["got_env"], rec["want_env"] = got_env, want_env
    if M.last is not None:
        gm, gi, hit = M.last
        rec.update({"got_memo": gm, "got_indep": gi, "hit": hit})
        if hit:
            rec["hit_index"] = keys_before.index(ikey) if ikey in keys_before else None
        else:
            # serialise / deserialise round trip of the entry just stored
            try:
                stored = after[ikey]
                back = M.m._deserialize_output(stored)
                rec["roundtrip_ok"] = (canon(back.memoizable_environment) == want_memo)
            except Exception as e:
                rec["roundtrip_ok"] = False
                rec["roundtrip_error"] = repr(e)
            rec["appended_last"] = (list(after)[:-1] == keys_before and list(after)[-1:] == [ikey])
    if got_err is not None or want_err is not None:
        rec["store_unchanged_on_error"] = (list(after) == keys_before)
    return rec


def run_scenario(args):
    """Pool entry point.  args = (scenario, meta_of_translator, workdir)."""
    sc, meta, workdir = args
    _install()
    path = os.path.join(workdir, "memo_%s_%d.json" % (sc["id"], os.getpid()))
    if os.path.exists(path):
        os.remove(path)
    recs = []
    try:
        M = _Memo(sc["variant"], path)
        _run_ops(sc, M, 0, recs)
        crash = None
    except Exception as e:
        crash = repr(e)
    finally:
        if os.path.exists(path):
            os.remove(path)
    return analyse(sc, recs, meta, crash)


# ------------------------------------------------------------------------------ analysis + interning
class Interner:
    def __init__(self):
        self.t = {}

    def __call__(self, s) -> int:
        if s not in self.t:
            self.t[s] = len(self.t) + 1        # 0 is the model's "absent"
        return self.t[s]


def analyse(sc, recs, meta, crash):
    """Turns the raw records into (a) violations of the property, (b) failed hypothesis tests,
    (c) the data of the Coq case."""
    out = {"id": sc["id"], "scenario": sc, "violations": [], "hypothesis_failures": [], "crash": crash,
           "requests": 0, "hits": 0, "misses": 0, "errors": 0, "case": None}
    if crash:
        out["hypothesis_failures"].append({"what": "harness could not run the scenario", "error": crash})
        return out
    vals, envs = Interner(), Interner()
    xops, expected = [], []
    gt, ht = {}, {}
    keymap = {}          # abstract key -> impl key ; and reverse
    rkeymap = {}
    entries = 0
    distinct_envs = set()
    for idx, r in enumerate(recs):
        if r["op"] == "reopen":
            xops.append(None)
            continue
        if "crash" in r:
            out["hypothesis_failures"].append({"what": r["crash"], "at": idx})
            continue
        out["requests"] += 1
        kind, cfg = r["kind"], r["cfg"]
        if r["want_err"] or r["got_err"]:
            out["errors"] += 1
            if r["want_err"] != r["got_err"]:
                out["violations"].append({"what": "C20: direct computation %s but the memoizer %s" % (
                    "raises " + r["want_err"] if r["want_err"] else "succeeds",
                    "raises " + r["got_err"] if r["got_err"] else "succeeds"), "at": idx, "request": {"kind": kind, "cfg": cfg}})
            elif not r.get("store_unchanged_on_error", True):
                out["hypothesis_failures"].append({"what": "a failing request changed the memo", "at": idx})
            continue                                        # exceptions are not part of the model
        if not r["env_equal"]:
            got, want = json.loads(r["got_env"]), json.loads(r["want_env"])
            diff = {k: {"memoized": got.get(k), "direct": want.get(k)} for k in sorted(set(got) | set(want))
                    if got.get(k) != want.get(k)}
            out["violations"].append({
                "what": "C20: memoized environment differs from the directly computed one (%s, variant %s, hit=%s, fields %s)"
                        % (kind, sc["variant"], r.get("hit"), sorted(diff)),
                "at": idx, "request": {"kind": kind, "cfg": cfg}, "difference": diff})
        distinct_envs.add(canon([r["want_memo"], r["want_indep"]]))
        info = meta["providers"][kind]
        missing = [f for f in info["all_fields"] if f not in cfg]
        if missing:
            out["hypothesis_failures"].append({"what": "scenario request lacks fields %s" % missing, "at": idx})
            continue
        cells = [(f, vals(canon(cfg[f]))) for f in info["all_fields"]]
        cd = dict(cells)
        key_fields = [f for f in info["all_fields"] if f not in info["excluded"]]
        akey = (kind, tuple((f, cd[f]) for f in key_fields))
        pr = (kind, tuple((f, cd[f]) for f in info["memo_reads"]))
        pi = (kind, tuple((f, cd[f]) for f in info["indep_reads"]))
        # hypothesis: key equal <-> (class, key fields) equal
        ik = r["ikey"]
        if keymap.setdefault(akey, ik) != ik:
            out["hypothesis_failures"].append({"what": "the implementation's key is not a function of (class, key fields)", "at": idx})
        if rkeymap.setdefault(ik, akey) != akey:
            out["hypothesis_failures"].append({
                "what": "two requests with different (class, key fields) have the same memo key (key not injective)",
                "at": idx, "a": list(rkeymap[ik]), "b": list(akey)})
        # hypothesis: parts are functions of the read fields
        wm, wi = envs("m" + r["want_memo"]), envs("i" + r["want_indep"])
        if gt.setdefault(pr, wm) != wm:
            out["hypothesis_failures"].append({
                "what": "the memoizable part differs between two requests that agree on every field the translator "
                        "found it to read (%s)" % kind, "at": idx})
        if ht.setdefault(pi, wi) != wi:
            out["hypothesis_failures"].append({
                "what": "the independent part differs between two requests that agree on every field the translator "
                        "found it to read (%s)" % kind, "at": idx})
        if "hit" not in r:
            out["hypothesis_failures"].append({"what": "compute_environment did not go through memoize", "at": idx})
            continue
        if r["hit"]:
            out["hits"] += 1
            if r["memo_computations"]:
                out.setdefault("notes", []).append("memoizable part computed on a hit at %d" % idx)
        else:
            out["misses"] += 1
            if not r.get("roundtrip_ok", True):
                out["hypothesis_failures"].append({"what": "a stored entry does not deserialise to the memoizable part that was stored "
                                                           "(de (ser m) = m fails)", "at": idx})
            if not r.get("appended_last", True):
                out["hypothesis_failures"].append({"what": "a miss did not append exactly one entry under the request's key", "at": idx})
        xops.append((kind, cells))
        expected.append((envs("m" + r["got_memo"]), envs("i" + r["got_indep"]),
                         r.get("hit_index") if r["hit"] else None, r["hit"]))
        entries = r["entries_after"]
    out["case"] = {"file": sc["variant"] == "file", "xops": xops, "expected": expected, "entries": entries,
                   "gt": [(k, list(c), v) for (k, c), v in gt.items()], "ht": [(k, list(c), v) for (k, c), v in ht.items()]}
    out["distinct_envs"] = len(distinct_envs)
    out["nontrivial"] = bool(len(distinct_envs) >= 2 and out["hits"] >= 1)
    return out


# ------------------------------------------------------------------------------ Coq text
def _cells(cells, opt):
    return "[" + "; ".join('("%s", %s%d%%N)' % (f, "Some " if opt else "", v) for f, v in cells) + "]"


def _table(t):
    return "[" + "; ".join("((%s, %s), %d%%N)" % (KINDS[k], _cells(c, True), v) for k, c, v in t) + "]"


def coq_case(case) -> str:
    xs = []
    for x in case["xops"]:
        xs.append("XReopen" if x is None else "XReq %s %s" % (KINDS[x[0]], _cells(x[1], False)))
    ex = []
    for m, i, j, hit in case["expected"]:
        if hit and j is None:
            j = 999999          # a hit the implementation could not attribute to an entry: never equal to the model
        ex.append("((%d%%N, %d%%N), %s)" % (m, i, "Some %d%%N" % j if hit else "None"))
    return "case_ok %s %s %s [%s] [%s] %d%%N" % (
        "true" if case["file"] else "false", _table(case["gt"]), _table(case["ht"]), "; ".join(xs), "; ".join(ex), case["entries"])


def shard_text(cases) -> str:
    L = ["From Coq Require Import List String NArith.", "From V.Model Require Import Memo MemoExec.",
         "From V.Lib Require Import Corr.", "Import ListNotations.", "Open Scope string_scope."]
    for i, c in enumerate(cases):
        L.append("Definition c%d : bool := %s." % (i, coq_case(c)))
    L.append("Eval vm_compute in (bad [%s])." % "; ".join("c%d" % i for i in range(len(cases))))
    return "\n".join(L) + "\n"


# ------------------------------------------------------------------------------ scenario generation
def base_cfg(kind: str, job: str) -> dict:
    """A complete (every field explicit) valid configuration."""
    common = {
        "use_doping": True, "armor": 300, "mob_level": 265, "force_advantage": 1.0, "v_skill_level": 30,
        "hexa_skill_level": 1, "hexa_mastery_level": 1, "v_improvements_level": 60, "hexa_improvements_level": 0,
        "hexa_mastery_skill_levels": {}, "hexa_skill_levels": {}, "hexa_improvement_levels": {}, "weapon_attack_power": 0,
    }
    if kind == "MinimalEnvironmentProvider":
        cfg = {"level": 270, "action_stat": {"buff_duration": 10.0}, "stat": {"INT": 1000.0, "magic_attack": 100.0},
               "jobtype": job, "weapon_pure_attack_power": 0, "combat_orders_level": 1}
    else:
        cfg = {"tier": "Legendary", "union_block_count": 37, "link_count": 13, "artifact_level": 40, "propensity_level": 100,
               "jobtype": job, "level": 270, "passive_skill_level": 0, "combat_orders_level": 1, "weapon_pure_attack_power": 0}
    cfg.update(common)
    return normalise(kind, cfg)


def normalise(kind, cfg):
    """Full JSON dump of the validated provider: every field explicit, nested models expanded."""
    return json.loads(canon(make_provider(kind, cfg).model_dump(mode="json")))


def job_names(job: str) -> dict:
    from simaple.core import JobType
    from simaple.data.jobs import get_skill_profile
    sp = get_skill_profile(JobType(job))
    return {"hexa_skill_levels": list(sp.hexa_skill_names), "hexa_mastery_skill_levels": list(sp.hexa_mastery.values()),
            "hexa_improvement_levels": list(sp.get_filled_hexa_improvements(0))}


def alternatives(kind: str, job: str, rng) -> dict:
    """field -> list of alternative values (each different from the base value), in normalised JSON form."""
    other_job = rng.choice([j for j in JOBS if j != job])
    names = job_names(job)
    alt = {
        "level": [260, 275], "jobtype": [other_job], "weapon_pure_attack_power": [10, 150], "combat_orders_level": [2, 0],
        "use_doping": [False], "armor": [100, 380], "mob_level": [250, 280], "force_advantage": [1.5, 0.7],
        "v_skill_level": [20, 25], "hexa_skill_level": [5, 10], "hexa_mastery_level": [7, 3], "v_improvements_level": [30, 40],
        "hexa_improvements_level": [3, 10], "weapon_attack_power": [77, 200],
    }
    for f, ns in names.items():
        if ns:
            alt[f] = [{ns[0]: 9}, {ns[-1]: 3}] if len(ns) > 1 else [{ns[0]: 9}, {ns[0]: 4}]
    if kind == "MinimalEnvironmentProvider":
        b = base_cfg(kind, job)
        a1, a2 = copy.deepcopy(b["action_stat"]), copy.deepcopy(b["action_stat"])
        a1["buff_duration"] = 20.0
        a2["cooltime_reduce_rate"] = 5.0
        s1, s2 = copy.deepcopy(b["stat"]), copy.deepcopy(b["stat"])
        s1["INT"] = 2000.0
        s2["boss_damage_multiplier"] = 40.0
        alt["action_stat"], alt["stat"] = [a1, a2], [s1, s2]
    else:
        alt.update({"tier": ["Unique", "Epic"], "union_block_count": [30, 20], "link_count": [10, 8], "artifact_level": [30, 20],
                    "propensity_level": [80, 50], "passive_skill_level": [1, 2]})
    return alt


def with_field(cfg, f, v):
    c = copy.deepcopy(cfg)
    c[f] = copy.deepcopy(v)
    return c


def single_field_scenario(sid, kind, job, field, value, variant, pattern, proc=False):
    """Two providers that differ in exactly `field`."""
    p0 = base_cfg(kind, job)
    if field == "jobtype":
        p1 = base_cfg(kind, value)      # skill-name dictionaries are empty in the base, so only jobtype differs
    else:
        p1 = with_field(p0, field, value)
    a, b = {"kind": kind, "cfg": p0}, {"kind": kind, "cfg": p1}
    ro = "reopen_proc" if (proc and variant == "file") else "reopen"
    if pattern == "A":
        ops = [a, b, ro, a, b] if variant != "mem" else [a, b, a, b]
    else:
        ops = [b, ro, a, b, ro, a] if variant != "mem" else [b, a, b, a]
    return {"id": sid, "variant": variant, "ops": ops,
            "label": {"type": "single-field", "kind": kind, "job": job, "field": field, "pattern": pattern, "proc": bool(proc and variant == "file")}}


def walk_scenario(sid, rng, kinds, job, variant, length, alts_by_kind, weights=None):
    """Random walk: every step changes ONE field of the current provider of one kind (or repeats it, or switches to the
    other kind's current provider), values drawn from base + alternatives so that earlier providers come back (hits)."""
    cur = {k: base_cfg(k, job) for k in kinds}
    base = copy.deepcopy(cur)
    kind = kinds[0]
    ops = [{"kind": kind, "cfg": copy.deepcopy(cur[kind])}]
    changed = []
    for _ in range(length - 1):
        r = rng.random()
        if variant != "mem" and r < 0.12 and ops[-1] not in ("reopen", "reopen_proc"):
            ops.append("reopen")
            continue
        if len(kinds) > 1 and r < 0.3:
            kind = [k for k in kinds if k != kind][0]
        elif r < 0.38:
            pass                                    # same provider again
        else:
            alts = alts_by_kind[kind]
            fs = [f for f in alts if f != "jobtype"]
            if weights:
                f = rng.choices(fs, [weights(kind, f) for f in fs])[0]
            else:
                f = rng.choice(fs)
            choices = [v for v in [base[kind][f]] + alts[f] if canon(v) != canon(cur[kind][f])]
            cur[kind] = with_field(cur[kind], f, rng.choice(choices))
            changed.append(f)
        ops.append({"kind": kind, "cfg": copy.deepcopy(cur[kind])})
    return {"id": sid, "variant": variant, "ops": ops,
            "label": {"type": "walk", "kinds": kinds, "job": job, "length": length, "fields_changed": changed}}


# ------------------------------------------------------------------------------ implementation-only probes
def twin_probe(_args=None):
    """Two provider CLASSES with identical field dumps but different memoizable computations must not share an entry
    (this is what the class name in the key is for).  Uses a subclass defined here, so it is outside the two kinds of the
    Coq model; run on the implementation only."""
    _install()
    from simaple.container.environment_provider import MinimalEnvironmentProvider
    from simaple.container.memoizer import InMemoryMemoizer

    class C20TwinEnvironmentProvider(MinimalEnvironmentProvider):
        def get_memoizable_environment(self):
            d = MinimalEnvironmentProvider.get_memoizable_environment(self)
            d = dict(d)
            d["passive_skill_level"] = 1
            return d

    cfg = base_cfg("MinimalEnvironmentProvider", "bishop")
    found = []
    for order in ((MinimalEnvironmentProvider, C20TwinEnvironmentProvider), (C20TwinEnvironmentProvider, MinimalEnvironmentProvider)):
        m = InMemoryMemoizer()
        for cls in order + order:
            p = cls.model_validate(copy.deepcopy(cfg))
            got, want = env_json(m.compute_environment(p)), env_json(p.get_simulation_environment())
            if got != want:
                found.append({"what": "C20: provider classes %s and %s with equal settings share a memo entry: the memoized "
                                      "environment of %s is not its direct one" % (order[0].__name__, order[1].__name__, cls.__name__),
                              "request": {"kind": cls.__name__, "cfg": cfg},
                              "memoized_passive_skill_level": json.loads(got)["passive_skill_level"],
                              "direct_passive_skill_level": json.loads(want)["passive_skill_level"]})
    return found, 8


def runtime_field_check(meta):
    """The translator's static field lists against pydantic's own view and the real key dump."""
    _install()
    from simaple.container import environment_provider as ep
    bad = []
    for cname, info in meta["providers"].items():
        cls = getattr(ep, cname)
        real = list(cls.model_fields)
        if real != info["all_fields"]:
            bad.append("%s: pydantic fields %s differ from the translated list %s" % (cname, real, info["all_fields"]))
        p = make_provider(cname, base_cfg(cname, "bishop"))
        knames = sorted(json.loads(p.get_memoization_key()))
        want = sorted(f for f in info["all_fields"] if f not in info["excluded"])
        if knames != want:
            bad.append("%s: the key dump has names %s, the translated key fields are %s" % (cname, knames, want))
        if p.get_name() != cname:
            bad.append("%s.get_name() = %r" % (cname, p.get_name()))
    return bad
