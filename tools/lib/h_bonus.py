"""H-bonus: correspondence and implementation-side search for C18 (bonus-option inference).

Two halves in one file:

* worker (``python h_bonus.py worker`` with PYTHONPATH=<repo tree>): reads a JSON list of jobs on
  stdin, builds real ``Gear`` objects, builds the observed stat from real improvements
  (``BonusFactory.create(kind, grade).calculate_improvement(meta)``), runs the REAL
  ``BonusCalculator.compute(stat, gear)`` and checks the property as stated directly on what it
  returns (<= 4 options, distinct kinds, grades valid for the gear, the real improvements of the
  returned options re-sum to the observed stat; a valid set is never rejected).  It imports
  nothing of /verif, so the tree under test is exactly PYTHONPATH (VERIF_REPO).
* driver side (imported by props/c18.py): case generators, parallel worker pool, Coq shards in
  which Coq itself compares ``canon (compute gear obs)`` of Model/Bonus.v with the worker's result.

Encodings shared with Model/Bonus.v: kinds by ``kind_idx`` (KINDS below), the 11 observed fields
in the order of ``all_coords`` (COORDS below), a result as ``canon``: ``[-1, sorted codes...]``
with code = kind_idx*10+grade, ``[-2, kind]`` invalid single-valued option, ``[-3]`` too many,
``[-4]`` the SDIL search failed.
"""
from __future__ import annotations

import json
import sys

KINDS = ["STR", "DEX", "INT", "LUK", "STR_DEX", "STR_INT", "STR_LUK", "DEX_INT", "DEX_LUK", "INT_LUK",
         "MHP", "MMP", "attack_power", "magic_attack", "boss_damage_multiplier", "damage_multiplier",
         "all_stat_multiplier"]
COQ_KINDS = ["KSTR", "KDEX", "KINT", "KLUK", "KSTR_DEX", "KSTR_INT", "KSTR_LUK", "KDEX_INT", "KDEX_LUK",
             "KINT_LUK", "KMHP", "KMMP", "KATT", "KMATT", "KBOSS", "KDMG", "KALL"]
COORDS = ["STR", "DEX", "INT", "LUK", "MHP", "MMP", "attack_power", "magic_attack",
          "boss_damage_multiplier", "damage_multiplier", "STR_multiplier"]
COQ_COORDS = ["cSTR", "cDEX", "cINT", "cLUK", "cMHP", "cMMP", "cATT", "cMATT", "cBOSS", "cDMG", "cALL"]
WCLASS = ["WArmor", "WWeapon", "WZeroB", "WZeroL"]
# sword_zl bases that AttackTypeBonus knows (any other prints "Not implemented weapon")
ZL_BASES = [100, 103, 105, 112, 117, 135, 169, 203, 293, 337]


# =============================================================================== worker half
def _worker_env():
    from simaple.core import Stat
    from simaple.gear.bonus_factory import BonusFactory, BonusType
    from simaple.gear.compute.bonus import BonusCalculator
    from simaple.gear.gear import Gear, GearMeta
    from simaple.gear.gear_type import GearType
    return Stat, BonusFactory, BonusType, BonusCalculator, Gear, GearMeta, GearType


def make_gear(spec):
    """spec = [wclass, boss, level, basis, use_magic]; wclass 0 armour (cap), 1 weapon, 2 sword_zb, 3 sword_zl."""
    Stat, _BF, _BT, _BC, Gear, GearMeta, GearType = _worker_env()
    w, boss, level, basis, magic = spec
    typ = [GearType.cap, GearType.staff if magic else GearType.th_sword, GearType.sword_zb, GearType.sword_zl][w]
    if w == 0:
        base = Stat()
    elif magic:
        base = Stat(attack_power=max(basis - 17, 0), magic_attack=basis)
    else:
        base = Stat(attack_power=basis, magic_attack=0)
    meta = GearMeta(id=1, name="verif", base_stat=base, type=typ, req_level=level, boss_reward=bool(boss),
                    max_scroll_chance=7)
    return Gear.create_bare_gear(meta)


OTHER_FIELDS = None


def obs_of_stat(stat):
    """The 11 observed fields as ints, or None + reason when the stat is not bonus-shaped."""
    global OTHER_FIELDS
    d = stat.model_dump()
    if OTHER_FIELDS is None:
        OTHER_FIELDS = [f for f in d if f not in COORDS and f not in ("DEX_multiplier", "INT_multiplier", "LUK_multiplier")]
    out = []
    for c in COORDS:
        v = d[c]
        if v != int(v):
            return None, "field %s = %r is not an integer" % (c, v)
        out.append(int(v))
    for f in ("DEX_multiplier", "INT_multiplier", "LUK_multiplier"):
        if d[f] != d["STR_multiplier"]:
            return None, "field %s differs from STR_multiplier" % f
    for f in OTHER_FIELDS:
        if d[f] != 0:
            return None, "field %s = %r is outside the modelled fields" % (f, d[f])
    return out, None


def stat_of_obs(obs):
    Stat = _worker_env()[0]
    kw = {c: float(v) for c, v in zip(COORDS, obs)}
    for f in ("DEX_multiplier", "INT_multiplier", "LUK_multiplier"):
        kw[f] = kw["STR_multiplier"]
    return Stat(**kw)


def kind_of_bonus(b):
    """kind_idx of a returned Bonus object, from its class and fields."""
    n = type(b).__name__
    if n == "SingleStatBonus":
        return KINDS.index(b.stat_type.value)
    if n == "DualStatBonus":
        return KINDS.index(b.stat_type_pair[0].value + "_" + b.stat_type_pair[1].value)
    if n == "ResourcePointBonus":
        return KINDS.index(b.stat_type)
    if n == "AttackTypeBonus":
        return KINDS.index(b.attack_type.value)
    return {"BossDamageMultiplierBonus": 14, "DamageMultiplierBonus": 15, "AllstatBonus": 16}[n]


def exact_atk_ok(gear, grades):
    """AttackTypeBonus value through binary64 == exact rational reading, for the given grades."""
    import math
    from fractions import Fraction
    from simaple.gear.gear_type import GearType
    meta = gear.meta
    if not meta.type.is_weapon():
        return True
    bf = _worker_env()[1]()
    BT = _worker_env()[2]
    gm = ([0, 0, 1, "1.4666", "2.0166", "2.663", "3.4166"] if meta.boss_reward
          else [1, "2.222", "3.63", "5.325", "7.32", "8.777", "10.25"])
    for g in grades:
        v = bf.create(BT.attack_power, g).calculate_improvement(meta).attack_power
        # exact value reconstructed from the float result's neighbourhood: the product before ceil
        # must not be within 1e-9 of an integer unless it IS that integer in exact arithmetic
        base = max(meta.base_stat.attack_power, meta.base_stat.magic_attack)
        if meta.type == GearType.sword_zl:
            base = {100: 102, 103: 105, 105: 107, 112: 114, 117: 121, 135: 139, 169: 173, 203: 207, 293: 297, 337: 342}.get(int(base), base)
        if meta.type in (GearType.sword_zb, GearType.sword_zl):
            lm = 6 if meta.req_level > 180 else 5 if meta.req_level > 160 else 4 if meta.req_level > 110 else 3
        elif meta.boss_reward:
            lm = 18 if meta.req_level > 160 else 15 if meta.req_level > 150 else 12 if meta.req_level > 110 else 9
        else:
            lm = 4 if meta.req_level > 110 else 3
        ex = Fraction(int(base)) * Fraction(gm[g - 1]) * lm / 100
        if abs(ex - round(ex)) < Fraction(1, 10**9) and ex != round(ex):
            return False
        if ex == round(ex) and v != ex:
            return False          # float noise pushed an exact integer over the ceil
    return True


def worker_main():
    Stat, BonusFactory, BonusType, BonusCalculator, Gear, GearMeta, GearType = _worker_env()
    import time
    jobs = json.load(sys.stdin)
    bf = BonusFactory()
    calc = BonusCalculator()
    bts = [BonusType(k) for k in KINDS]
    gears = {}
    out = []
    for job in jobs:
        spec = job["spec"]
        key = tuple(spec)
        if key not in gears:
            gears[key] = make_gear(spec)
        gear = gears[key]
        valid_grades = list(range(3, 8)) if spec[1] else list(range(1, 8))
        res = {"id": job["id"]}
        # ---- observed stat
        stat = None
        if "obs" in job:
            obs = list(job["obs"])
            stat = stat_of_obs(obs)
        else:
            stat = Stat()
            for (k, g, twin) in job["parts"]:
                meta = gear.meta
                if twin:          # a grade the gear itself refuses: take the value from the non-boss twin
                    tkey = (spec[0], 0, spec[2], spec[3], spec[4])
                    if tkey not in gears:
                        gears[tkey] = make_gear(list(tkey))
                    meta = gears[tkey].meta
                stat = stat + bf.create(bts[k], g).calculate_improvement(meta)
            for (ci, dv) in job.get("perturb", []):
                stat = stat + Stat(**{COORDS[ci]: dv})
                if COORDS[ci] == "STR_multiplier":
                    stat = stat + Stat(DEX_multiplier=dv, INT_multiplier=dv, LUK_multiplier=dv)
            obs, why = obs_of_stat(stat)
            if obs is None:
                res["skip"] = why
                out.append(res)
                continue
        res["obs"] = obs
        # ---- the real inference
        t0 = time.time()
        try:
            got = calc.compute(stat, gear)
            err = None
        except ValueError as e:
            got, err = None, str(e)
        except Exception as e:      # anything but ValueError is a crash, reported as such
            got, err = None, "CRASH " + repr(e)
        res["ms"] = round((time.time() - t0) * 1000, 1)
        findings = []
        if got is not None:
            pairs = [(kind_of_bonus(b), int(b.grade)) for b in got]
            res["canon"] = [-1] + sorted(k * 10 + g for k, g in pairs)
            # soundness, on the implementation, through the real formulas
            if len(pairs) > 4:
                findings.append("returned %d options" % len(pairs))
            if len({k for k, _ in pairs}) != len(pairs):
                findings.append("returned kinds are not distinct: %s" % pairs)
            if any(g not in valid_grades for _, g in pairs):
                findings.append("returned a grade that is not valid for this gear: %s" % pairs)
            try:
                total = Stat()
                for b in got:
                    total = total + b.calculate_improvement(gear.meta)
                if total != stat:
                    td, sd_ = total.model_dump(), stat.model_dump()
                    findings.append("improvements of the returned options do not add up to the observed stat: " +
                                    ", ".join("%s %r vs %r" % (f, td[f], sd_[f]) for f in td if td[f] != sd_[f]))
            except Exception as e:
                findings.append("re-summing the returned options raised %r" % e)
        else:
            if err.startswith("CRASH"):
                res["canon"] = [-9]
                findings.append("compute raised something else than ValueError: " + err)
            elif err.startswith("gear stat has invalid bonus at "):
                name = err[len("gear stat has invalid bonus at "):].replace("BonusType.", "")
                res["canon"] = [-2, KINDS.index(name)] if name in KINDS else [-8]
            elif err == "gear stat has too many bonus values":
                res["canon"] = [-3]
            elif err == "gear stat has invalid bonus value or has too many bonus values":
                res["canon"] = [-4]
            else:
                res["canon"] = [-8]
            res["error"] = err
            # completeness, on the implementation
            if job.get("valid"):
                findings.append("a valid set of %d distinct-kind options was rejected: %s" % (len(job["parts"]), err))
        if findings:
            res["findings"] = findings
        out.append(res)
    json.dump(out, sys.stdout)


def gearcheck_main():
    """For each spec on stdin: is the binary64 attack value equal to its exact reading?"""
    specs = json.load(sys.stdin)
    out = []
    for spec in specs:
        g = make_gear(spec)
        out.append(bool(exact_atk_ok(g, list(range(3, 8)) if spec[1] else list(range(1, 8)))))
    json.dump(out, sys.stdout)


if __name__ == "__main__":
    if sys.argv[1] == "worker":
        worker_main()
    elif sys.argv[1] == "gearcheck":
        gearcheck_main()
    sys.exit(0)


# =============================================================================== driver half
import itertools
import os
import random
from concurrent.futures import ThreadPoolExecutor

from lib import vf

LEVELS = [0, 9, 10, 19, 20, 39, 40, 59, 60, 79, 80, 100, 110, 111, 119, 120, 130, 140, 150, 151, 159, 160, 161,
          180, 181, 199, 200, 250]
WEAPON_LEVELS = [100, 110, 111, 140, 150, 151, 160, 161, 180, 181, 200]


def run_workers(mode, payload, nproc=vf.NPROC, timeout=1500):
    """Split payload (a list) over subprocesses running this file against REPO; returns the
    concatenated outputs (order preserved) or raises RuntimeError."""
    if not payload:
        return []
    # more chunks than processes: a few cases (deep rejections) take seconds, the rest milliseconds
    n = max(1, min(nproc * 4 if len(payload) > 4000 else nproc, len(payload)))
    chunks = [payload[i::n] for i in range(n)]
    script = os.path.abspath(__file__)

    def one(ch):
        rc, out = vf.sh([vf.PY, script, mode], timeout=timeout, env=vf.repo_env(), cwd="/tmp", input=json.dumps(ch))
        if rc != 0:
            raise RuntimeError("worker failed (rc %s): %s" % (rc, out[-800:]))
        i = out.find("[")
        # AttackTypeBonus prints "Not implemented weapon" for unknown sword_zl bases: skip to the JSON
        while i >= 0:
            try:
                return json.loads(out[i:])
            except ValueError:
                i = out.find("[", i + 1)
        raise RuntimeError("worker output not understood: %s" % out[-400:])

    with ThreadPoolExecutor(min(n, nproc)) as ex:
        res = list(ex.map(one, chunks))
    merged = [None] * len(payload)
    for ci, r in enumerate(res):
        for j, x in enumerate(r):
            merged[ci + j * n] = x
    return merged


def gear_pool(rng, thorough):
    """Gear specs covering every level band of every formula, boss and non-boss, armour and the
    three weapon classes. Specs whose attack value is ill-conditioned in binary64 are dropped
    (counted) by the caller through `gearcheck`."""
    specs = []
    for lv in LEVELS:
        for boss in (0, 1):
            specs.append([0, boss, lv, 0, 0])
    for lv in WEAPON_LEVELS:
        for boss in (0, 1):
            for w in (1, 2, 3):
                bases = rng.sample(ZL_BASES, 3 if thorough else 1) if w == 3 else \
                    [rng.choice([97, 128, 154, 171, 201, 246, 295, 318]) for _ in range(3 if thorough else 1)]
                for b in bases:
                    specs.append([w, boss, lv, b, rng.randint(0, 1)])
    return specs


def valid_grades(spec):
    return list(range(3, 8)) if spec[1] else list(range(1, 8))


def gen_cases(rng, specs, thorough, budget):
    """Returns list of jobs (dicts with id, spec, parts|obs, valid, cls)."""
    jobs = []

    def add(spec, cls, parts=None, obs=None, valid=False, perturb=None):
        j = {"id": len(jobs), "spec": spec, "cls": cls}
        if parts is not None:
            j["parts"] = parts
            j["valid"] = valid
        if obs is not None:
            j["obs"] = obs
        if perturb:
            j["perturb"] = perturb
        jobs.append(j)

    armour = [s for s in specs if s[0] == 0]
    weapons = [s for s in specs if s[0] != 0]
    # ---- 1-2 kind sets over all grades
    if thorough:
        ex_specs = [next(s for s in armour if s[2] == 160 and s[1] == 0), next(s for s in armour if s[2] == 200 and s[1] == 1),
                    rng.choice([s for s in weapons if s[1] == 1]), rng.choice([s for s in weapons if s[1] == 0])]
        for spec in ex_specs:          # exhaustive
            vg = valid_grades(spec)
            for k in range(17):
                for g in vg:
                    add(spec, "set1", [[k, g, 0]], valid=True)
            for a, b in itertools.combinations(range(17), 2):
                for ga in vg:
                    for gb in vg:
                        add(spec, "set2", [[a, ga, 0], [b, gb, 0]], valid=True)
    # every (kind) x every gear once, every pair of kinds once on a rotating gear, random grades
    for spec in specs:
        vg = valid_grades(spec)
        for k in rng.sample(range(17), 17 if thorough else 3):
            add(spec, "set1", [[k, rng.choice(vg), 0]], valid=True)
    pairs = list(itertools.combinations(range(17), 2))
    rng.shuffle(pairs)
    for i, (a, b) in enumerate(pairs):
        for rep in range(6 if thorough else 1):
            spec = specs[(i * 7 + rep * 13) % len(specs)]
            vg = valid_grades(spec)
            add(spec, "set2", [[a, rng.choice(vg), 0], [b, rng.choice(vg), 0]], valid=True)
    # ---- 3-4 kind sets, sampled; SDIL kinds weighted up (the search is the hard part)
    n34 = budget
    for _ in range(n34):
        spec = rng.choice(specs)
        vg = valid_grades(spec)
        n = rng.choice([3, 4, 4])
        if rng.random() < 0.6:
            nsd = rng.randint(max(0, n - 2), n)
            ks = rng.sample(range(10), nsd) + rng.sample(range(10, 17), n - nsd)
        else:
            ks = rng.sample(range(17), n)
        add(spec, "set%d" % n, [[k, rng.choice(vg), 0] for k in ks], valid=True)
    # ---- invalid / unsatisfiable
    ninv = max(40, budget // 3)
    for i in range(ninv):
        spec = rng.choice(specs)
        vg = valid_grades(spec)
        r = i % 8
        if r == 4 and (i // 8) % 2:     # five STR..LUK kinds reject only after a deep search (seconds): half as many
            r = 3
        if r == 0:      # five distinct kinds
            ks = rng.sample(range(17), 5)
            add(spec, "five", [[k, rng.choice(vg), 0] for k in ks])
        elif r == 1:    # the same kind twice (+ others)
            k = rng.randrange(17)
            others = rng.sample([x for x in range(17) if x != k], rng.randint(0, 2))
            add(spec, "dup", [[k, rng.choice(vg), 0], [k, rng.choice(vg), 0]] + [[x, rng.choice(vg), 0] for x in others])
        elif r == 2:    # a grade the gear refuses (boss gear, grade 1-2), value taken from the non-boss twin
            bs = rng.choice([s for s in specs if s[1] == 1])
            k = rng.randrange(17)
            others = rng.sample([x for x in range(17) if x != k], rng.randint(0, 2))
            add(bs, "lowgrade", [[k, rng.choice([1, 2]), 1]] + [[x, rng.choice(valid_grades(bs)), 0] for x in others])
        elif r == 3:    # a valid set, one field off by one
            n = rng.randint(1, 4)
            ks = rng.sample(range(17), n)
            add(spec, "offbyone", [[k, rng.choice(vg), 0] for k in ks], perturb=[[rng.randrange(11), rng.choice([-1, 1])]])
        elif r == 4:    # five SDIL kinds / many small SDIL options (deep search, then reject or a smaller set)
            ks = rng.sample(range(10), 5)
            add(spec, "five", [[k, rng.choice(vg), 0] for k in ks])
        elif r == 5:    # raw small observed vectors
            obs = [rng.choice([0, 0, rng.randint(0, 40)]) for _ in range(4)] + \
                  [rng.choice([0, 0, 0, rng.randint(0, 12)]) for _ in range(7)]
            add(spec, "raw", obs=obs)
        elif r == 6:    # negative STR..LUK field
            obs = [rng.choice([0, rng.randint(-9, 30)]) for _ in range(4)] + [0] * 7
            obs[rng.randrange(4)] = -rng.randint(1, 9)
            add(spec, "negative", obs=obs)
        else:           # four single-valued + SDIL (too many), or 5..7 single-valued
            n = rng.randint(4, 7)
            ks = rng.sample(range(10, 17), n) + rng.sample(range(10), rng.randint(0, 1))
            add(spec, "many", [[k, rng.choice(vg), 0] for k in ks])
    return jobs


def coq_gear(spec):
    return "(mk_gear %s %s %s %s)" % (WCLASS[spec[0]], "true" if spec[1] else "false", vf.zlit(spec[2]), vf.zlit(spec[3]))


def zl(xs):
    return "[" + ";".join(vf.zlit(x) for x in xs) + "]"


def shard_text(cases):
    """cases: list of (spec, obs, canon). Coq prints the indices whose model result differs."""
    lines = ["From Coq Require Import ZArith List Bool.", "Import ListNotations.",
             "From V.Lib Require Import Corr.", "From V.Model Require Import Bonus.", "Open Scope Z_scope.",
             "Definition chk (ge : gear) (o e : list Z) : bool := eqlZ (canon (compute ge (mk_obs o))) e.",
             "Definition cases : list bool := ["]
    items = ["  chk %s %s %s" % (coq_gear(s), zl(o), zl(c)) for (s, o, c) in cases]
    lines.append(";\n".join(items))
    lines.append("].")
    lines.append("Eval vm_compute in (bad cases).")
    return "\n".join(lines) + "\n"


def model_eval_text(cases):
    """Shard that prints the model's canonical result for each (spec, obs)."""
    lines = ["From Coq Require Import ZArith List Bool.", "Import ListNotations.",
             "From V.Model Require Import Bonus.", "Open Scope Z_scope.",
             "Eval vm_compute in [" + ";\n".join("canon (compute %s (mk_obs %s))" % (coq_gear(s), zl(o)) for s, o in cases) + "]."]
    return "\n".join(lines) + "\n"


def parse_bad(out):
    import re
    m = re.search(r"=\s*\[([^\]]*)\]", out)
    if not m:
        return None
    body = m.group(1).strip()
    if not body:
        return []
    return [int(x.strip().rstrip("%N")) for x in body.split(";")]
