"""H-starforce: correspondence and implementation-side search for C17.

Python side: the REAL simaple star-force / blueprint code (imported from REPO's working tree).
Coq side: gen/SfGen.v (regenerated from the source) and Model/SfRef.v (hand-written reference).
"""
from __future__ import annotations

import json
import random
from fractions import Fraction

import sys

from lib.vf import REPO, qlit

# The tree under test must be the one that is imported (simaple is an editable install of /repo and
# tools/check.py puts /repo first): VERIF_REPO=<scratch tree> is how a mutated copy is checked.
if str(REPO) != "/repo":
    if "simaple" in sys.modules and not getattr(sys.modules["simaple"], "__file__", "").startswith(str(REPO)):
        raise RuntimeError("simaple was imported before lib.h_starforce could select VERIF_REPO=%s" % REPO)
    sys.path[:] = [p for p in sys.path if p.rstrip("/") != "/repo"]
    sys.path.insert(0, str(REPO))


def impl_origin() -> str:
    import simaple
    return simaple.__file__

FIELDS = ["STR", "DEX", "INT", "LUK", "attack_power", "magic_attack", "MHP", "MMP"]
ERRS = (TypeError, IndexError, ValueError, KeyError)


# ------------------------------------------------------------------ encoders
def coq_meta(m) -> str:
    def z(n):
        return "%d" % n if n >= 0 else "(%d)" % n
    return "(mkMeta %s %s %s %s %s)" % (z(int(m.type.value)), z(m.req_level), z(m.req_job),
                                        "true" if m.superior_eqp else "false", z(m.max_scroll_chance))


def stat8(s) -> tuple:
    return tuple(Fraction(getattr(s, f)) for f in FIELDS)


def other_fields_nonzero(s) -> dict:
    d = s.model_dump()
    return {k: v for k, v in d.items() if k not in FIELDS and v != 0}


def coq_stat8(t) -> str:
    return "(mkS %s)" % " ".join(qlit(x) for x in t)


def coq_ostat(t) -> str:
    return "None" if t is None else "(Some %s)" % coq_stat8(t)


def meta_key(m) -> tuple:
    return (int(m.type.value), m.req_level, m.req_job, bool(m.superior_eqp), m.max_scroll_chance)


# ------------------------------------------------------------------ implementation calls
def impl_max_star(meta):
    from simaple.gear.improvements.starforce import Starforce
    return Starforce(star=0).max_star(meta)


def impl_calc(meta, ref, star):
    """-> (stat or None, error name or None)"""
    from simaple.gear.improvements.starforce import Starforce
    try:
        return Starforce(star=star).calculate_improvement(meta, ref_stat=ref), None
    except ERRS as e:
        return None, type(e).__name__


def impl_single(meta, ref, star, cur):
    from simaple.gear.improvements.starforce import Starforce
    try:
        return Starforce(star=25).get_single_starforce_improvement(meta, ref, star, cur), None
    except ERRS as e:
        return None, type(e).__name__


def impl_cutoff(meta, star):
    from simaple.gear.improvements.starforce import Starforce
    sf = Starforce(star=star)
    sf.apply_star_cutoff(meta)
    return sf.star


def property_on_gear(meta, ref, label, extra=2):
    """C17's star-force clause, as stated, on one (meta, reference stat).
    -> (findings, calc results for stars 0..cap+1 as list of 8-tuples or None, cap)"""
    from simaple.core import Stat
    findings = []
    cap = impl_max_star(meta)
    results = []
    prev = Stat()
    where = {"gear": label, "meta": json.loads(meta.model_dump_json()), "ref_stat": ref.model_dump()}
    if not isinstance(cap, int) or cap < 0:
        findings.append(dict(where, what="max_star is not a non-negative int", observed=repr(cap)))
        return findings, results, cap
    for n in range(0, cap + 1):
        r, err = impl_calc(meta, ref, n)
        if r is None:
            findings.append(dict(where, what="star-force bonus undefined at a star within the cap", star=n, cap=cap, error=err))
            results.append(None)
            break
        d = r.model_dump()
        neg = {k: v for k, v in d.items() if v < 0}
        if neg:
            findings.append(dict(where, what="star-force bonus has a negative field", star=n, cap=cap, observed=neg))
        pd = prev.model_dump()
        dip = {k: (pd[k], v) for k, v in d.items() if v < pd[k]}
        if dip:
            findings.append(dict(where, what="star-force bonus decreases in a field as stars grow", star=n, cap=cap, observed=dip))
        if n >= 1:
            inc, err = impl_single(meta, ref, n, prev)
            if inc is None:
                findings.append(dict(where, what="per-star increment undefined within the cap", star=n, cap=cap, error=err))
            else:
                negi = {k: v for k, v in inc.model_dump().items() if v < 0}
                if negi:
                    findings.append(dict(where, what="per-star increment has a negative field", star=n, cap=cap, observed=negi))
                if (prev + inc) != r:
                    findings.append(dict(where, what="bonus(n) differs from bonus(n-1) + increment computed on the gear enhanced so far",
                                         star=n, cap=cap, expected=(prev + inc).model_dump(), observed=d))
        else:
            if r != Stat():
                findings.append(dict(where, what="bonus for 0 stars is not the empty stat", star=0, observed=d))
        results.append(stat8(r))
        extra_nz = other_fields_nonzero(r)
        if extra_nz:
            results[-1] = ("unmodelled", extra_nz)
        prev = r
    else:
        for n in range(cap + 1, cap + 1 + extra):
            r, err = impl_calc(meta, ref, n)
            if r is not None:
                findings.append(dict(where, what="a star beyond the cap is not refused by calculate_improvement", star=n, cap=cap,
                                     observed=r.model_dump()))
            if n == cap + 1:
                results.append(None if r is None else stat8(r))
            inc, err = impl_single(meta, ref, n, prev)
            if inc is not None:
                findings.append(dict(where, what="a star beyond the cap is not refused by get_single_starforce_improvement",
                                     star=n, cap=cap, observed=inc.model_dump()))
        for s in (0, cap, cap + 1, cap + 7, 30):
            c = impl_cutoff(meta, s)
            if c != min(s, cap):
                findings.append(dict(where, what="apply_star_cutoff is not min(star, cap)", star=s, cap=cap, observed=c))
    return findings, results, cap


# ------------------------------------------------------------------ case sources
def load_repository():
    from simaple.gear.gear_repository import GearRepository
    repo = GearRepository()
    metas, unloadable = [], []
    for gid in repo._bare_gears:
        try:
            metas.append(repo.get_gear_meta(int(gid)))
        except Exception as e:      # 7 ids of the shipped file name a gear type the enum lacks
            unloadable.append((gid, type(e).__name__))
    return repo, metas, unloadable


def band_of(level, bounds):
    return sum(1 for b in bounds if level >= b)


def sample_gears(metas, bounds, rng, per_class=1):
    """one (or per_class) seeded pick(s) per gear type x level band x superior x has-stars"""
    classes = {}
    for m in metas:
        classes.setdefault((int(m.type.value), band_of(m.req_level, bounds), bool(m.superior_eqp), m.max_scroll_chance > 0,
                            m.req_job == 0), []).append(m)
    out = []
    for k in sorted(classes):
        ms = classes[k]
        out += rng.sample(ms, min(per_class, len(ms)))
    return out, len(classes)


KINDS = [130, 134, 145, 1212, 108, 100, 104, 107, 110, 111, 112, 113, 115, 109, 103, 101, 114, 119, 161, 165, 194, 197, 166, 1098, 135200]


def synthetic_metas(bounds, rng, n_random, gear_type_cls, full=False):
    """metas at every level-band boundary -1/0/+1, crossed (sampled) with gear kinds, job bits, superior, scroll chance"""
    from simaple.core import Stat
    from simaple.gear.gear import GearMeta
    levels = sorted({max(0, b + d) for b in bounds for d in (-1, 0, 1)} | {0, 250})
    jobs = [0, 1, 2, 4, 8, 16, 24, 3, 9, 13, 31, -1]
    valid = {int(t.value): t for t in gear_type_cls}
    kinds = [k for k in KINDS if k in valid]
    out = []

    def mk(kind, lvl, job, sup, tuc, stat):
        return GearMeta(id=-1, name="synthetic", base_stat=stat, type=valid[kind], req_level=lvl, superior_eqp=sup,
                        req_job=job, max_scroll_chance=tuc)

    def rstat():
        z = lambda p, hi: 0 if rng.random() < p else rng.randint(1, hi)
        return Stat(STR=z(.5, 60), DEX=z(.5, 60), INT=z(.5, 60), LUK=z(.5, 60), attack_power=z(.3, 350),
                    magic_attack=z(.5, 400), MHP=z(.6, 500), MMP=z(.7, 500))
    for lvl in levels:
        for sup in (False, True):
            pool = kinds if full else [130, 108, 100] + rng.sample(kinds, 2)
            for kind in pool:
                if kind not in valid:
                    continue
                job_pool = jobs if full and kind in (130, 108, 100) else rng.sample(jobs, 2)
                for job in job_pool:
                    out.append(mk(kind, lvl, job, sup, rng.choice([1, 7, 8]), rstat()))
    out.append(mk(100, 150, 0, False, 0, rstat()))       # no scroll chance -> no stars
    out.append(mk(130, 200, 2, False, -1, rstat()))
    for _ in range(n_random):
        out.append(mk(rng.choice(kinds), rng.choice(levels + [rng.randint(0, 260)]), rng.choice(jobs), rng.random() < .3,
                      rng.choice([0, 1, 5, 7, 8, 10]), rstat()))
    return out


# ------------------------------------------------------------------ Coq shards
HEADER = ("From Coq Require Import ZArith QArith List Bool.\nFrom V.Lib Require Import Corr.\n"
          "From V.Model Require Import SfBase SfBlueprint SfRef.\nFrom G Require Import SfGen.\nImport ListNotations.\nOpen Scope Z_scope.\n")


def calc_case(meta_term, ref_term, expected, cap, cutoffs):
    """one boolean per model (generated, reference): stars 0..len-1 all agree, cap agrees, cutoff agrees"""
    exp = "[" + "; ".join(coq_ostat(t) for t in expected) + "]"
    n = len(expected)
    cut = "[" + "; ".join("(%d, %d)" % (s, c) for s, c in cutoffs) + "]"
    g = ("(olist_eqb (map (g_calc %s %s) (zrange 0 %d%%nat)) %s && (g_max_star %s =? %d) && "
         "forallb (fun sc => g_cutoff %s (fst sc) =? snd sc) %s)" % (meta_term, ref_term, n, exp, meta_term, cap, meta_term, cut))
    r = ("(olist_eqb (map (r_calc %s %s) (zrange 0 %d%%nat)) %s && (r_max_star %s =? %d) && "
         "forallb (fun sc => r_cutoff %s (fst sc) =? snd sc) %s)" % (meta_term, ref_term, n, exp, meta_term, cap, meta_term, cut))
    return g, r


def single_case(meta_term, ref_term, star, cur_term, expected):
    e = coq_ostat(expected)
    return ("(ostat_eqb (g_single %s %s %d %s) %s)" % (meta_term, ref_term, star, cur_term, e),
            "(ostat_eqb (r_single %s %s %d %s) %s)" % (meta_term, ref_term, star, cur_term, e))


def shard_text(cases):
    """cases: list of (gen_bool_term, ref_bool_term)"""
    return (HEADER + "Eval vm_compute in (bad [%s]).\nEval vm_compute in (bad [%s]).\n"
            % (";\n ".join(c[0] for c in cases), ";\n ".join(c[1] for c in cases)))


def parse_two_lists(out):
    import re
    ls = re.findall(r"=\s*\[([^\]]*)\]\s*:\s*list N", out.replace("\n", " "))
    if len(ls) != 2:
        return None
    return [[int(x.strip().rstrip("%N")) for x in l.split(";") if x.strip()] for l in ls]


# ------------------------------------------------------------------ blueprints
BUILD_ERRS = (TypeError, IndexError, ValueError, KeyError, UnboundLocalError)


def random_blueprint(rng, meta):
    """-> (kind, blueprint object, description dict)"""
    from simaple.core import Stat, StatProps
    from simaple.gear.blueprint.gear_blueprint import BonusSpec, GeneralizedGearBlueprint, PracticalGearBlueprint
    from simaple.gear.blueprint.potential_blueprint import PotentialField, PotentialFieldName, PotentialTemplate
    from simaple.gear.bonus_factory import BonusType
    from simaple.gear.improvements.exceptional_enhancement import ExceptionalEnhancement
    from simaple.gear.improvements.scroll import Scroll
    from simaple.gear.improvements.spell_trace import SpellTrace
    from simaple.gear.improvements.starforce import Starforce

    def trace():
        prob = rng.choice([100, 70, 30, 30, 15] if meta.type.is_improved_as_weapon() else [100, 70, 30])
        return SpellTrace(probability=prob, stat_prop_type=rng.choice([StatProps.INT, StatProps.DEX, StatProps.LUK, StatProps.STR, StatProps.MHP]),
                          order=rng.choice([-1, -1, 4, 1]))

    def scroll():
        fs = {f: rng.choice([0, 0, 1, 3, 9]) for f in ("STR", "DEX", "INT", "LUK", "attack_power", "magic_attack", "MHP", "MMP")}
        if rng.random() < .15:
            fs[rng.choice(["boss_damage_multiplier", "damage_multiplier", "critical_rate", "ignored_defence"])] = rng.choice([1, 5, 10])
        return Scroll(stat=Stat(**fs), name="s", gear_types=rng.choice([[], [], [meta.type]]))

    def bonuses():
        n = rng.choice([0, 1, 2, 3, 4, 4])
        kinds = rng.sample(list(BonusType), n)
        if n >= 2 and rng.random() < .3:
            # a blueprint is a LIST of bonus specs: nothing forbids the same kind twice (with different grades); "blueprints add up"
            # then means the sum over the listed entries
            kinds[rng.randrange(1, n)] = kinds[0]
        lo = 3 if meta.boss_reward and rng.random() < .9 else 1
        out = []
        for k in kinds:
            if rng.random() < .5:
                out.append(BonusSpec(bonus_type=k, grade=rng.randint(lo, 7)))
            else:
                out.append(BonusSpec(bonus_type=k, rank=rng.randint(1, 8 - lo)))
        return out

    def pot():
        if rng.random() < .7:
            return PotentialTemplate()
        return PotentialTemplate(options=[PotentialField(name=rng.choice([PotentialFieldName.STR, PotentialFieldName.attack_power,
                                                                          PotentialFieldName.boss_damage_multiplier]), value=rng.randint(1, 12))
                                          for _ in range(rng.randint(1, 3))])
    star = rng.choice([0, 1, 5, 12, 15, 16, 17, 22, 25, 30, rng.randint(0, 30)])
    r = rng.random()
    if r < .62:
        which = rng.choice(["trace", "trace", "scroll", "none"])
        bp = PracticalGearBlueprint(meta=meta, spell_trace=trace() if which == "trace" else None,
                                    scroll=scroll() if which in ("scroll",) or (which == "trace" and rng.random() < .2) else None,
                                    star=star, bonuses=bonuses(), potential=pot(), additional_potential=pot())
        return "practical-" + which, bp
    cap = impl_max_star(meta)
    st = star if rng.random() < .25 else min(star, cap)
    exc = None
    if meta.exceptional_enhancement or rng.random() < .05:
        if rng.random() < .7:
            exc = ExceptionalEnhancement(stat=Stat(STR=rng.randint(0, 20), attack_power=rng.randint(0, 15), MHP=rng.randint(0, 100)))
    bp = GeneralizedGearBlueprint(meta=meta, spell_traces=[trace() for _ in range(rng.randint(0, max(0, min(meta.max_scroll_chance, 8))))],
                                  scrolls=[scroll() for _ in range(rng.choice([0, 0, 1, 2]))],
                                  starforce=Starforce(star=st), bonuses=bonuses(), potential=pot(), additional_potential=pot(),
                                  exceptional_enhancement=exc)
    return "generalized", bp


def _combine(total: dict, s):
    """exact (Fraction) accumulation of one Stat into `total`, in build order, independent of Stat.__add__"""
    d = s.model_dump()
    for k, v in d.items():
        v = Fraction(v)
        if k == "final_damage_multiplier":
            a = total.get(k, Fraction(0))
            total[k] = a + v + a * v / 100
        elif k == "ignored_defence":
            a = total.get(k, Fraction(0))
            total[k] = 100 - (100 - a) * (100 - v) / 100
        else:
            total[k] = total.get(k, Fraction(0)) + v


def recompose(bp, kind):
    """independent recomposition: -> ('ok', {field: Fraction}, starforce_case) | ('raise', reason, None).
    starforce_case = (scrolled Stat, star actually applied)"""
    from simaple.core import Stat
    from simaple.gear.bonus_factory import BonusFactory
    from simaple.gear.improvements.starforce import Starforce
    meta = bp.meta
    if kind.startswith("practical"):
        n = max(0, meta.max_scroll_chance)
        traces = [bp.spell_trace] * n if bp.spell_trace is not None else []
        scrolls = [bp.scroll] * n if (bp.spell_trace is None and bp.scroll is not None) else []
        star = min(bp.star, impl_max_star(meta))
        exc = None
    else:
        traces, scrolls, star, exc = list(bp.spell_traces), list(bp.scrolls), bp.starforce.star, bp.exceptional_enhancement
    total = {}
    _combine(total, meta.base_stat)
    try:
        for t in traces:
            _combine(total, t.model_copy(deep=True).calculate_improvement(meta))
        for s in scrolls:
            _combine(total, s.model_copy(deep=True).calculate_improvement(meta))
    except BUILD_ERRS as e:
        return "raise", "trace/scroll: " + type(e).__name__, None
    scrolled = Stat(**{k: float(v) for k, v in total.items()})
    try:
        sf = Starforce(star=star).calculate_improvement(meta, ref_stat=scrolled.model_copy())
    except BUILD_ERRS as e:
        return "raise", "starforce: " + type(e).__name__, None
    _combine(total, sf)
    try:
        fac = BonusFactory()
        for spec in bp.bonuses:
            g = spec.grade if spec.grade else 8 - spec.rank
            _combine(total, fac.create(spec.bonus_type, g).calculate_improvement(meta))
    except BUILD_ERRS as e:
        return "raise", "bonus: " + type(e).__name__, None
    if exc is not None:
        if not meta.exceptional_enhancement:
            return "raise", "exceptional: InvalidImprovementException", None
        _combine(total, exc.stat)
    return "ok", total, (scrolled, star)


def check_blueprint(bp, kind, base_gear):
    """-> (findings, starforce_case or None, outcome)"""
    from simaple.gear.improvements.base import InvalidImprovementException
    findings = []
    before = (bp.model_dump(), base_gear.model_dump(), bp.meta.model_dump())
    status, exp, sfcase = recompose(bp, kind)
    desc = {"kind": kind, "blueprint": json.loads(bp.model_dump_json())}
    try:
        gear = bp.build()
        err = None
    except BUILD_ERRS + (InvalidImprovementException,) as e:
        gear, err = None, type(e).__name__
    after = (bp.model_dump(), base_gear.model_dump(), bp.meta.model_dump())
    for name, b, a in zip(("blueprint", "base gear", "blueprint meta"), before, after):
        if a != b:
            diff = {k: (b.get(k), a.get(k)) for k in set(a) | set(b) if a.get(k) != b.get(k)}
            findings.append(dict(desc, what="build() altered the %s" % name, observed=repr(diff)[:600]))
    if status == "raise":
        if gear is not None:
            findings.append(dict(desc, what="build() succeeded although a part is refused (%s)" % exp, observed=gear.stat.model_dump()))
        return findings, None, "refused:" + exp.split(":")[0]
    if gear is None:
        findings.append(dict(desc, what="build() raised %s although every part is defined" % err,
                             expected={k: float(v) for k, v in exp.items() if v}))
        return findings, sfcase, "raised"
    got = gear.stat.model_dump()
    bad = {}
    for k, v in got.items():
        e = exp.get(k, Fraction(0))
        if e.denominator == 1 and Fraction(v).denominator == 1:
            if Fraction(v) != e:
                bad[k] = (float(e), v)
        elif abs(float(e) - v) > 1e-9 * max(1.0, abs(float(e))):
            bad[k] = (float(e), v)
    if bad:
        findings.append(dict(desc, what="built gear's stat is not base + traces/scrolls + star force(on the scrolled gear, cut to the cap) "
                                        "+ bonus + exceptional", observed={k: {"expected": a, "built": b} for k, (a, b) in bad.items()}))
    if gear.meta != bp.meta or gear.scroll_chance != bp.meta.max_scroll_chance:
        findings.append(dict(desc, what="built gear's meta/scroll_chance differ from the blueprint's"))
    try:
        again = bp.build()
        if again != gear:
            findings.append(dict(desc, what="building the same blueprint twice gives different gears"))
    except BUILD_ERRS as e:
        findings.append(dict(desc, what="second build() raised %s" % type(e).__name__))
    if gear.stat is bp.meta.base_stat:
        findings.append(dict(desc, what="built gear aliases the blueprint's base stat object"))
    return findings, sfcase, "built"
