#!/bin/bash
# dev_sweep_seeds.sh [ids...] : for every seeded change, apply it to /repo, run the property's quick check,
# undo it (git checkout), and record the outcome in seeded/<id>/meta.json.  Development helper; run it only
# when nothing else is reading /repo.
cd /verif
IDS=${@:-$(ls seeded)}
for NAME in $IDS; do
  P=$(/venv/bin/python -c "import json;print(json.load(open('seeded/$NAME/meta.json'))['property'])")
  git -C /repo status --porcelain | grep -q . && { echo "/repo is dirty, refusing"; exit 1; }
  if ! git -C /repo apply --3way seeded/$NAME/patch.diff 2>/tmp/sweep_$NAME.apply; then
     echo "$NAME: patch no longer applies to /repo: $(tail -1 /tmp/sweep_$NAME.apply)"; git -C /repo checkout -- . ; git -C /repo reset -q; continue
  fi
  git -C /repo reset -q
  ./check $P > /tmp/sweep_$NAME.check 2>&1; RC=$?
  git -C /repo checkout -- .
  V=$(grep -c "^VIOLATION" /tmp/sweep_$NAME.check)
  echo "$NAME ($P): check exit $RC, $V VIOLATION line(s): $(grep '^VIOLATION' /tmp/sweep_$NAME.check | head -1 | cut -c1-120)"
  /venv/bin/python - <<PY
import json
p='/verif/seeded/$NAME/meta.json'; m=json.load(open(p))
m['check_exit_on_patched_repo']=$RC
m['check_tail']=open('/tmp/sweep_$NAME.check').read()[-700:]
m['swept_at_repo_head']='$(git -C /repo rev-parse --short HEAD)'
json.dump(m,open(p,'w'),indent=1,ensure_ascii=False)
PY
done
git -C /repo status --porcelain | head -3
