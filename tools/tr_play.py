"""T-play: fail-closed translator  Python `ast` -> Gallina  for simaple/simulate/base.py  `play` and `_get_event_callbacks`
-> gen/PlaySrc.v.  Proofs/PlayTie.v proves the generated `src_play` equal to `play` of Model/Play.v (the function C05's theorems are
about) and `src_get_event_callbacks` equal to `callbacks`.

The statements of `play` are walked in source order; each must be one of

    events: list[Event] = []                                   a local list of events
    action_queue = [action]                                    a local list of actions
    previous_callbacks = store.read_entity("previous_callbacks", default=PreviousCallback(events=[]))
                                                               the pending callbacks kept in the store (absent = none)
    for a, b in previous_callbacks.events:  q = [x] + q + [y]  a left fold; x, y in {a, b} - the ORDER of the concatenation is translated
    for t in q:  r = router(t, store);  events += r            a left fold threading the store; the actions handed to the router are
                                                               collected as the trace the C05 theorems speak about
    store.set_entity("previous_callbacks", PreviousCallback(events=[_get_event_callbacks(e) for e in events]))
    return store, events

and `_get_event_callbacks` must build two actions {name, method, payload} whose method is the f-string
`{event['method']}.<word>.{event['tag'] or ''}`; the words decide which constructor (Emitted / Done) each component gets, and the
order of the returned pair is translated.
"""
from __future__ import annotations

import ast
import os

SRC = "simaple/simulate/base.py"


class Rejected(Exception):
    pass


def bad(node, why):
    raise Rejected("%s (line %s): %s" % (why, getattr(node, "lineno", "?"), ast.dump(node)[:160]))


def body_of(fn):
    return [s for s in fn.body if not (isinstance(s, ast.Expr) and isinstance(s.value, ast.Constant) and isinstance(s.value.value, str))]


def sub(e, var, key):
    return isinstance(e, ast.Subscript) and isinstance(e.value, ast.Name) and e.value.id == var and isinstance(e.slice, ast.Constant) \
        and e.slice.value == key


def tr_callbacks(fn):
    if [a.arg for a in fn.args.args] != ["event"]:
        bad(fn, "_get_event_callbacks signature")
    b = body_of(fn)
    if len(b) != 3 or not isinstance(b[2], ast.Return) or not isinstance(b[2].value, ast.Tuple) or len(b[2].value.elts) != 2:
        bad(fn, "_get_event_callbacks: expected two action dictionaries and `return a, b`")
    acts = {}
    for s in b[:2]:
        tgt = s.target if isinstance(s, ast.AnnAssign) else (s.targets[0] if isinstance(s, ast.Assign) and len(s.targets) == 1 else None)
        if not isinstance(tgt, ast.Name) or not isinstance(s.value, ast.Dict):
            bad(s, "_get_event_callbacks: not `x = {...}`")
        d = {k.value: v for k, v in zip(s.value.keys, s.value.values) if isinstance(k, ast.Constant)}
        if sorted(d) != ["method", "name", "payload"] or len(s.value.keys) != 3:
            bad(s, "callback action keys")
        if not sub(d["name"], "event", "name") or not sub(d["payload"], "event", "payload"):
            bad(s, "callback action name / payload are not the event's")
        m = d["method"]
        if not (isinstance(m, ast.JoinedStr) and len(m.values) == 3 and isinstance(m.values[0], ast.FormattedValue)
                and sub(m.values[0].value, "event", "method") and isinstance(m.values[1], ast.Constant)
                and isinstance(m.values[2], ast.FormattedValue) and isinstance(m.values[2].value, ast.BoolOp)
                and isinstance(m.values[2].value.op, ast.Or) and sub(m.values[2].value.values[0], "event", "tag")
                and isinstance(m.values[2].value.values[1], ast.Constant) and m.values[2].value.values[1].value == ""):
            bad(m, "callback method is not f\"{event['method']}.<word>.{event['tag'] or ''}\"")
        word = m.values[1].value
        if word not in (".emitted.", ".done."):
            bad(m, "callback word %r" % word)
        acts[tgt.id] = "{| aname := ename _ _ _ _ event; am := %s _ _ (emeth _ _ _ _ event) (etag _ _ _ _ event); ap := PEvent _ (epay _ _ _ _ event) |}" % (
            "Emitted" if word == ".emitted." else "Done")
    r = b[2].value.elts
    if not all(isinstance(x, ast.Name) and x.id in acts for x in r):
        bad(b[2], "_get_event_callbacks returns something else than its two actions")
    return "Definition src_get_event_callbacks (event : event_) : action_ * action_ :=\n  (%s,\n   %s)." % (acts[r[0].id], acts[r[1].id])


def tr_play(fn):
    if [a.arg for a in fn.args.args] != ["store", "action", "router"]:
        bad(fn, "play signature")
    b = body_of(fn)
    if len(b) != 7:
        bad(fn, "play has %d statements, expected 7" % len(b))
    s0, s1, s2, s3, s4, s5, s6 = b
    if not (isinstance(s0, ast.AnnAssign) and isinstance(s0.target, ast.Name) and isinstance(s0.value, ast.List) and not s0.value.elts):
        bad(s0, "play: first statement is not `events: ... = []`")
    ev = s0.target.id
    if not (isinstance(s1, ast.Assign) and isinstance(s1.targets[0], ast.Name) and ast.unparse(s1.value) == "[action]"):
        bad(s1, "play: second statement is not `q = [action]`")
    q = s1.targets[0].id
    if not (isinstance(s2, ast.Assign) and isinstance(s2.targets[0], ast.Name)
            and ast.unparse(s2.value) == "store.read_entity('previous_callbacks', default=PreviousCallback(events=[]))"):
        bad(s2, "play: pending callbacks are not read from the store entity `previous_callbacks` (default: none)")
    pc = s2.targets[0].id
    # for a, b in pc.events: q = [x] + q + [y]
    if not (isinstance(s3, ast.For) and not s3.orelse and isinstance(s3.target, ast.Tuple) and len(s3.target.elts) == 2
            and all(isinstance(x, ast.Name) for x in s3.target.elts) and ast.unparse(s3.iter) == pc + ".events" and len(s3.body) == 1
            and isinstance(s3.body[0], ast.Assign) and ast.unparse(s3.body[0].targets[0]) == q):
        bad(s3, "play: queue construction loop")
    a_, b_ = s3.target.elts[0].id, s3.target.elts[1].id

    def parts(e):
        if isinstance(e, ast.BinOp) and isinstance(e.op, ast.Add):
            return parts(e.left) + parts(e.right)
        if isinstance(e, ast.Name) and e.id == q:
            return ["q"]
        if isinstance(e, ast.List) and len(e.elts) == 1 and isinstance(e.elts[0], ast.Name) and e.elts[0].id in (a_, b_):
            return ["[%s]" % e.elts[0].id]
        bad(e, "play: queue expression")
    qparts = parts(s3.body[0].value)
    if qparts.count("q") != 1:
        bad(s3, "play: the queue must occur once in its update")
    # for t in q: r = router(t, store); events += r
    if not (isinstance(s4, ast.For) and not s4.orelse and isinstance(s4.target, ast.Name) and ast.unparse(s4.iter) == q and len(s4.body) == 2):
        bad(s4, "play: dispatch loop")
    t = s4.target.id
    r0, r1 = s4.body
    if not (isinstance(r0, ast.Assign) and isinstance(r0.targets[0], ast.Name) and ast.unparse(r0.value) == "router(%s, store)" % t):
        bad(r0, "play: dispatch loop does not call router(<action>, store)")
    rv = r0.targets[0].id
    if not (isinstance(r1, ast.AugAssign) and isinstance(r1.op, ast.Add) and ast.unparse(r1.target) == ev and ast.unparse(r1.value) == rv):
        bad(r1, "play: dispatch loop does not append the resolved events")
    if ast.unparse(s5) != "store.set_entity('previous_callbacks', PreviousCallback(events=[_get_event_callbacks(event) for event in %s]))" % ev:
        bad(s5, "play: pending callbacks are not saved as the callbacks of this play's events")
    if ast.unparse(s6) != "return (store, %s)" % ev:
        bad(s6, "play: does not return (store, events)")
    return ("Definition src_play (st : store_) (action : action_) : store_ * list event_ * list action_ :=\n"
            "  let %s0 : list event_ := [] in\n"
            "  let %s0 := [action] in\n"
            "  let %s := cbs _ _ _ _ _ st in\n"
            "  let %s1 := fold_left (fun q '(%s, %s) => %s) %s %s0 in\n"
            "  let '(s1, %s1, tr) := fold_left (fun '(s, evs, tr) %s => let '(s', %s) := router %s s in (s', evs ++ %s, tr ++ [%s]))\n"
            "                          %s1 (ent _ _ _ _ _ st, %s0, []) in\n"
            "  (Build_store _ _ _ _ _ s1 (map src_get_event_callbacks %s1), %s1, tr)."
            % (ev, q, pc, q, a_, b_, " ++ ".join(qparts), pc, q, ev, t, rv, t, rv, t, q, ev, ev, ev))


def gen(repo):
    tree = ast.parse(open(os.path.join(str(repo), SRC), encoding="utf-8").read())
    fns = {n.name: n for n in tree.body if isinstance(n, ast.FunctionDef)}
    for f in ("play", "_get_event_callbacks"):
        if f not in fns:
            raise Rejected("%s not found in %s" % (f, SRC))
    text = HEADER + tr_callbacks(fns["_get_event_callbacks"]) + "\n\n" + tr_play(fns["play"]) + "\n\nEnd PlaySrc.\n"
    return {"PlaySrc.v": text}, {"functions": ["play", "_get_event_callbacks"], "source": SRC}


HEADER = """(* GENERATED by tools/tr_play.py from simaple/simulate/base.py - do not edit *)
From Coq Require Import List ZArith.
Import ListNotations.
From V Require Import Model.Play.

Section PlaySrc.
  Variables S Pay Name Meth Tag : Type.
  Notation event_ := (event Pay Name Meth Tag).
  Notation action_ := (action Pay Name Meth Tag).
  Notation store_ := (store S Pay Name Meth Tag).
  Variable router : action_ -> S -> S * list event_.

"""

if __name__ == "__main__":
    import sys
    files, meta = gen(sys.argv[1] if len(sys.argv) > 1 else "/repo")
    print(files["PlaySrc.v"])
