"""Regenerate every translator output from REPO's working tree into a coq/gen directory.
Used by setup (into /verif/coq/gen); each check regenerates what it needs into its private copy.

Auto-discovery: every tools/tr_*.py that defines `gen(repo) -> (files: dict name->text, meta)`
is run; a translator that rejects the source is reported and skipped here (the property's own
check reports it as a broken obligation)."""
import glob
import importlib
import os
import sys
sys.path.insert(0, "/verif/tools")


def translators():
    out = {}
    for p in sorted(glob.glob("/verif/tools/tr_*.py")):
        m = importlib.import_module(os.path.basename(p)[:-3])
        if hasattr(m, "gen"):
            out[m.__name__] = m
    return out


if __name__ == "__main__":
    import pathlib
    out = pathlib.Path(sys.argv[1] if len(sys.argv) > 1 else "/verif/coq/gen")
    repo = sys.argv[2] if len(sys.argv) > 2 else "/repo"
    out.mkdir(parents=True, exist_ok=True)
    bad = 0
    for name, m in translators().items():
        try:
            files, _meta = m.gen(repo)
        except Exception as e:     # fail closed: no file is written for this translator
            print("translator %s rejected the source: %r" % (name, e))
            bad += 1
            continue
        for n, t in files.items():
            p = out / n
            if not p.exists() or p.read_text() != t:
                p.write_text(t)
    print("generated into", out)
    sys.exit(1 if bad else 0)
