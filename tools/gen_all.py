"""Regenerate every translator output from REPO's working tree into a coq/gen directory.
Used by setup (into /verif/coq/gen) and by each check (into its private copy)."""
import sys
sys.path.insert(0, "/verif/tools")


def generators():
    import tr_core
    return {"core": tr_core}


def gen_core(repo):
    import tr_core
    q, f, meta = tr_core.emit(repo)
    return {"CoreQ.v": q, "CoreF.v": f}, meta


if __name__ == "__main__":
    import pathlib
    out = pathlib.Path(sys.argv[1] if len(sys.argv) > 1 else "/verif/coq/gen")
    repo = sys.argv[2] if len(sys.argv) > 2 else "/repo"
    out.mkdir(parents=True, exist_ok=True)
    for fn in (gen_core,):
        files, _meta = fn(repo)
        for n, t in files.items():
            p = out / n
            if not p.exists() or p.read_text() != t:
                p.write_text(t)
    print("generated into", out)
