#!/bin/bash
# dev_confirm_seed.sh NAME : confirm a sub-agent's seeded change left in /tmp/seedtasks/NAME.{patch.diff,demo.py,meta.json}
# in a FRESH scratch worktree of /repo (demo passes without / fails with the patch, whole suite passes with it), run the
# property's quick check against the patched tree (VERIF_REPO), and file everything under /verif/seeded/NAME/.
NAME=$1
T=/tmp/seedtasks
W=/tmp/confirm_$NAME
P=$(/venv/bin/python -c "import json;print(json.load(open('$T/$NAME.meta.json'))['property'])")
git -C /repo worktree remove --force $W >/dev/null 2>&1; rm -rf $W
git -C /repo worktree add --detach -q $W HEAD || exit 2
cd $W
PYTHONPATH=$W PYTHONHASHSEED=0 timeout 900 /venv/bin/python $T/$NAME.demo.py > /tmp/confirm_$NAME.demo0 2>&1; D0=$?
git apply $T/$NAME.patch.diff || { echo "patch does not apply"; exit 2; }
PYTHONPATH=$W PYTHONHASHSEED=0 timeout 900 /venv/bin/python $T/$NAME.demo.py > /tmp/confirm_$NAME.demo1 2>&1; D1=$?
TESTS=$(PYTHONPATH=$W timeout 1500 /venv/bin/python -m pytest -q -p no:cacheprovider --timeout=900 -q 2>&1 | tail -1)
cd /verif
VERIF_REPO=$W ./check $P --tier quick > /tmp/confirm_$NAME.check 2>&1; RC=$?
echo "$NAME ($P): demo without=$D0 with=$D1 | tests: $TESTS | check exit $RC: $(grep '^VIOLATION' /tmp/confirm_$NAME.check | head -2 | cut -c1-140 | tr '\n' ' ')"
mkdir -p /verif/seeded/$NAME
cp $T/$NAME.patch.diff /verif/seeded/$NAME/patch.diff
cp $T/$NAME.demo.py /verif/seeded/$NAME/demo.py
/venv/bin/python - <<PY
import json
m=json.load(open('$T/$NAME.meta.json'))
m.update(seed='$NAME', demo_exit_with_patch=$D1, demo_exit_without_patch=$D0, tests_with_patch='''$TESTS'''.strip(),
         check_exit_on_patched_repo=$RC, check_tail=open('/tmp/confirm_$NAME.check').read()[-700:],
         swept_at_repo_head='$(git -C /repo rev-parse --short HEAD)',
         ran=["demo.py in a fresh scratch worktree without and with the patch", "full pytest suite in the worktree with the patch",
              "./check $P --tier quick with VERIF_REPO=<scratch worktree carrying the patch>"])
json.dump(m,open('/verif/seeded/$NAME/meta.json','w'),indent=1,ensure_ascii=False)
PY
git -C /repo worktree remove --force $W >/dev/null 2>&1; rm -rf $W
