"""T-window: fail-closed translator  Python `ast` -> Gallina  for the best-dealing-window code of
simaple/simulate/report/feature.py (class MaximumDealingIntervalFeature):

    _compute_dealing, _find_maximum_dealing_interval, find_maximum_dealing_interval

-> gen/WindowSrc.v.  Proofs/WindowTie.v proves the generated functions equal to the hand-written
model Model/Window.v (about which the C13 window theorems are proved), so a change of a comparison,
an index offset, an update, the slice bounds, the initial values or the returned tuple in the
source either changes the generated term (and the equality proof fails) or is rejected here.

The accepted language is tiny on purpose; ANY construct outside it raises `Unsupported`:
  * locals of type idx (nat; only 0, +k, other idx), num (Z; clocks, damages, + - comparisons),
    seq (list (Z*Z)); types come from annotations, from the return annotation, from use as a
    subscript / slice bound / `len` comparison;
  * statements: (tuple) assignment, annotated assignment, `x += e`, `if` (tests: one comparison
    or `a and b`, short-circuit kept), one `while True:` with `break`/`continue`, `for .. in
    seq[a:b]:` whose body only accumulates, `return`, the `x = []; for e in xs: x.append(..)`
    idiom; calls of other translated methods of the same class;
  * subscripts `seq[i][0|1]` with idx `i`: out of range -> IndexError (`nth_error`), evaluated in
    Python's order.
`while True` becomes `while_true step fuel` (Lib/PyLoop.v) with the fuel expression FUEL below,
which Proofs/Window.v (`fuel_enough`) proves sufficient for every input."""
from __future__ import annotations

import ast
import hashlib

SRC = "simaple/simulate/report/feature.py"
CLASS = "MaximumDealingIntervalFeature"
FUEL = "(2 * length {seq} + 2)%nat"
RESERVED = {"end": "end_", "fix": "fix_", "at": "at_", "as": "as_", "in": "in_", "match": "match_", "with": "with_",
            "fun": "fun_", "let": "let_", "if": "if_", "then": "then_", "else": "else_", "return": "return_",
            "Type": "Type_", "Set": "Set_", "Prop": "Prop_", "forall": "forall_", "exists": "exists_"}

IDX, NUM, SEQ = "idx", "num", "seq"
COQT = {IDX: "nat", NUM: "Z", SEQ: "list (Z * Z)"}


class Unsupported(Exception):
    pass


def bad(node, why):
    raise Unsupported("%s at line %s: %s" % (why, getattr(node, "lineno", "?"), ast.dump(node)[:160]))


def cname(n):
    return RESERVED.get(n, n)


def ann_type(a):
    """type of an annotation: int -> idx, float -> num, list[tuple[float, float]] -> seq, tuple[..] -> tuple of types"""
    if isinstance(a, ast.Name):
        if a.id == "int":
            return IDX
        if a.id == "float":
            return NUM
    if isinstance(a, ast.Subscript) and isinstance(a.value, ast.Name):
        if a.value.id == "list":
            inner = ann_type(a.slice)
            if inner == (NUM, NUM):
                return SEQ
        if a.value.id == "tuple":
            elts = a.slice.elts if isinstance(a.slice, ast.Tuple) else [a.slice]
            return tuple(ann_type(e) for e in elts)
    bad(a, "annotation outside the accepted set")


def coq_type(t):
    if isinstance(t, tuple):
        return "(" + " * ".join(coq_type(x) for x in t) + ")"
    return COQT[t]


class Fn:
    """One translated method."""

    def __init__(self, tr, node: ast.FunctionDef):
        self.tr = tr
        self.node = node
        self.name = node.name
        a = node.args
        if a.vararg or a.kwarg or a.kwonlyargs or a.defaults or a.posonlyargs or node.decorator_list:
            bad(node, "signature outside the accepted set")
        if not a.args or a.args[0].arg != "self":
            bad(node, "not a method")
        self.params = []
        for p in a.args[1:]:
            if p.annotation is None:
                bad(node, "parameter without annotation")
            self.params.append((p.arg, ann_type(p.annotation)))
        if node.returns is None:
            bad(node, "no return annotation")
        self.ret = ann_type(node.returns)
        if not isinstance(self.ret, tuple):
            self.ret = (self.ret,)
        self.uses_self_attrs = []      # filled while translating (attribute names read from self)
        self.tmp = 0
        self.defs = []                 # Coq definitions emitted for this function, in order
        self.kind = None

    def fresh(self):
        self.tmp += 1
        return "t%d" % self.tmp


class Translator:
    def __init__(self, source: str):
        self.tree = ast.parse(source)
        cls = [n for n in self.tree.body if isinstance(n, ast.ClassDef) and n.name == CLASS]
        if len(cls) != 1:
            raise Unsupported("class %s not found exactly once" % CLASS)
        self.cls = cls[0]
        if self.cls.bases or self.cls.decorator_list or self.cls.keywords:
            bad(self.cls, "class with bases/decorators")
        self.methods = {}
        for n in self.cls.body:
            if isinstance(n, ast.FunctionDef):
                if n.name in self.methods:
                    bad(n, "method defined twice")
                self.methods[n.name] = n
            elif isinstance(n, ast.Expr) and isinstance(n.value, ast.Constant) and isinstance(n.value.value, str):
                pass
            else:
                bad(n, "class-level statement")
        self.check_init()
        self.done = {}
        self.order = []

    # self.interval is exactly the constructor argument
    def check_init(self):
        n = self.methods.get("__init__")
        if n is None:
            raise Unsupported("no __init__")
        want = "self.interval = interval"
        body = [s for s in n.body if not (isinstance(s, ast.Expr) and isinstance(s.value, ast.Constant))]
        if [p.arg for p in n.args.args] != ["self", "interval"] or len(body) != 1 or ast.unparse(body[0]) != want:
            bad(n, "__init__ is not `%s`" % want)
        self.self_attrs = {"interval": NUM}

    def fn(self, name) -> Fn:
        if name in self.done:
            return self.done[name]
        if name not in self.methods:
            raise Unsupported("method %s not found" % name)
        f = Fn(self, self.methods[name])
        self.done[name] = f          # (no recursion in the accepted language: a recursive call finds kind None)
        FnBody(self, f).translate()
        self.order.append(f)
        return f


class FnBody:
    def __init__(self, tr: Translator, f: Fn):
        self.tr = tr
        self.f = f
        self.hints = self.collect_hints(f.node)

    # ------------------------------------------------------------ typing hints for untyped locals
    def collect_hints(self, node):
        h = {}

        def mark(e, t):
            for n in ast.walk(e):
                if isinstance(n, ast.Name):
                    if h.get(n.id, t) != t:
                        bad(n, "conflicting type evidence for %s" % n.id)
                    h[n.id] = t
        for n in ast.walk(node):
            if isinstance(n, ast.Subscript) and not isinstance(n.ctx, ast.Store):
                if isinstance(n.slice, ast.Slice):
                    for b in (n.slice.lower, n.slice.upper):
                        if b is not None:
                            mark(b, IDX)
                elif not isinstance(n.slice, ast.Constant):
                    mark(n.slice, IDX)
            if isinstance(n, ast.Return) and n.value is not None:
                vals = n.value.elts if isinstance(n.value, ast.Tuple) else [n.value]
                if len(vals) == len(self.f.ret):
                    for v, t in zip(vals, self.f.ret):
                        if isinstance(v, ast.Name) and t in (IDX, NUM):
                            if h.get(v.id, t) != t:
                                bad(v, "conflicting type evidence for %s" % v.id)
                            h[v.id] = t
        return h

    # ------------------------------------------------------------ expressions
    def const(self, e, want):
        v = e.value
        if isinstance(v, bool) or not isinstance(v, (int, float)):
            bad(e, "constant outside the accepted set")
        if want == IDX:
            if not isinstance(v, int) or v < 0:
                bad(e, "index constant must be a non-negative int")
            return "%d%%nat" % v, IDX
        if want == NUM:
            if float(v) != int(v):
                bad(e, "non-integer number in the integer-tick model")
            iv = int(v)
            return ("%d" % iv if iv >= 0 else "(-%d)" % -iv), NUM
        bad(e, "constant of unknown type")

    def expr(self, e, env, pre, want=None):
        """-> (coq term, type); subscripts that may raise are appended to pre as (tmp, seq term, index term)"""
        if isinstance(e, ast.Constant):
            if want is None:
                bad(e, "constant whose type cannot be inferred")
            return self.const(e, want)
        if isinstance(e, ast.Name):
            if e.id not in env:
                bad(e, "name not bound on this path")
            return env[e.id]
        if isinstance(e, ast.Attribute):
            if isinstance(e.value, ast.Name) and e.value.id == "self" and e.attr in self.tr.self_attrs:
                if e.attr not in self.f.uses_self_attrs:
                    self.f.uses_self_attrs.append(e.attr)
                return "self_" + e.attr, self.tr.self_attrs[e.attr]
            bad(e, "attribute outside the accepted set")
        if isinstance(e, ast.Call):
            if isinstance(e.func, ast.Name) and e.func.id == "len" and len(e.args) == 1 and not e.keywords:
                t, ty = self.expr(e.args[0], env, pre)
                if ty != SEQ:
                    bad(e, "len of a non-sequence")
                return "length %s" % t, IDX
            bad(e, "call outside the accepted set")
        if isinstance(e, ast.Subscript):
            # seq[i][k], k in {0, 1}
            if (isinstance(e.slice, ast.Constant) and e.slice.value in (0, 1) and not isinstance(e.slice.value, bool)
                    and isinstance(e.value, ast.Subscript) and not isinstance(e.value.slice, (ast.Slice, ast.Tuple))):
                s, sty = self.expr(e.value.value, env, pre)
                if sty != SEQ:
                    bad(e, "subscript of a non-sequence")
                i, ity = self.expr(e.value.slice, env, pre, want=IDX)
                if ity != IDX:
                    bad(e, "subscript that is not an index")
                tmp = self.f.fresh()
                pre.append((tmp, s, i))
                return "%s %s" % ("fst" if e.slice.value == 0 else "snd", tmp), NUM
            bad(e, "subscript outside the accepted set")
        if isinstance(e, ast.BinOp):
            if isinstance(e.op, (ast.Add, ast.Sub)):
                lc, rc = isinstance(e.left, ast.Constant), isinstance(e.right, ast.Constant)
                if lc and rc:
                    bad(e, "constant folding not accepted")
                if lc:
                    r, ty = self.expr(e.right, env, pre, want)
                    l, _ = self.expr(e.left, env, pre, ty)
                else:
                    l, ty = self.expr(e.left, env, pre, want)
                    r, ty2 = self.expr(e.right, env, pre, ty)
                    if ty2 != ty:
                        bad(e, "operands of different types")
                if ty == IDX:
                    if not isinstance(e.op, ast.Add):
                        bad(e, "subtraction on indices")
                    return "(%s + %s)%%nat" % (l, r), IDX
                if ty == NUM:
                    return "(%s %s %s)" % (l, "+" if isinstance(e.op, ast.Add) else "-", r), NUM
            bad(e, "operator outside the accepted set")
        if isinstance(e, ast.Tuple):
            bad(e, "tuple in expression position")
        bad(e, "expression outside the accepted set")

    def compare(self, e, env, pre):
        """single comparison -> Coq bool term"""
        if not isinstance(e, ast.Compare) or len(e.ops) != 1:
            bad(e, "test outside the accepted set")
        a, b, op = e.left, e.comparators[0], e.ops[0]
        if isinstance(a, ast.Constant) and isinstance(b, ast.Constant):
            bad(e, "constant test")
        if isinstance(a, ast.Constant):
            tb, ty = self.expr(b, env, pre)
            ta, _ = self.expr(a, env, pre, ty)      # (a constant: no subscripts, order immaterial)
        else:
            ta, ty = self.expr(a, env, pre)
            tb, ty2 = self.expr(b, env, pre, ty)
            if ty2 != ty:
                bad(e, "comparison of different types")
        if ty not in (IDX, NUM):
            bad(e, "comparison of non-numbers")
        sc = "%nat" if ty == IDX else "%Z"
        tab = {ast.Lt: ("<?", 0), ast.LtE: ("<=?", 0), ast.Gt: ("<?", 1), ast.GtE: ("<=?", 1), ast.Eq: ("=?", 0)}
        if type(op) not in tab:
            bad(e, "comparison operator outside the accepted set")
        sym, swap = tab[type(op)]
        if swap:
            ta, tb = tb, ta
        return "(%s %s %s)%s" % (ta, sym, tb, sc)

    # ------------------------------------------------------------ statements (continuation passing)
    def wrap_pre(self, pre, body, fail):
        for tmp, s, i in reversed(pre):
            body = "match nth_error %s %s with None => %s | Some %s =>\n%s\nend" % (s, i, fail, tmp, body)
        return body

    def bind(self, env, name, ty):
        if name in env and env[name][1] != ty:
            raise Unsupported("variable %s changes type %s -> %s" % (name, env[name][1], ty))
        env = dict(env)
        env[name] = (cname(name), ty)
        return env

    def target_type(self, name, env, node):
        if name in env:
            return env[name][1]
        if name in self.hints:
            return self.hints[name]
        return None

    def stmts(self, ss, env, k, C):
        """translate the statement list ss; k(env) gives the term for falling off its end;
        C = dict(fail=term, ret=fn(vals)->term or None, loop=None | dict(cont=fn(env), brk=fn(env)))"""
        if not ss:
            return k(env)
        s, rest = ss[0], ss[1:]
        nxt = lambda env2: self.stmts(rest, env2, k, C)
        if isinstance(s, ast.Expr) and isinstance(s.value, ast.Constant) and isinstance(s.value.value, str):
            return nxt(env)
        if isinstance(s, ast.Pass):
            return nxt(env)
        if isinstance(s, ast.AnnAssign):
            if not isinstance(s.target, ast.Name) or s.value is None or not s.simple:
                bad(s, "annotated assignment outside the accepted set")
            ty = ann_type(s.annotation)
            # damage_seq: list[...] = []  followed by  for e in xs: damage_seq.append(f(e))
            if ty == SEQ and isinstance(s.value, ast.List) and not s.value.elts:
                return self.append_idiom(s, rest, env, k, C)
            return self.assign([s.target], s.value, env, nxt, C, s, declared=ty)
        if isinstance(s, ast.Assign):
            if len(s.targets) != 1:
                bad(s, "chained assignment")
            t = s.targets[0]
            if isinstance(t, ast.Name):
                return self.assign([t], s.value, env, nxt, C, s)
            if isinstance(t, ast.Tuple) and all(isinstance(x, ast.Name) for x in t.elts):
                return self.assign(list(t.elts), s.value, env, nxt, C, s)
            bad(s, "assignment target outside the accepted set")
        if isinstance(s, ast.AugAssign):
            if not isinstance(s.target, ast.Name) or not isinstance(s.op, ast.Add):
                bad(s, "augmented assignment outside the accepted set")
            n = s.target.id
            if n not in env:
                bad(s, "augmented assignment to an unbound name")
            ty = env[n][1]
            pre = []
            v, vty = self.expr(s.value, env, pre, want=ty)
            if vty != ty or ty not in (IDX, NUM):
                bad(s, "augmented assignment of a different type")
            t = "(%s + %s)%%nat" % (env[n][0], v) if ty == IDX else "(%s + %s)" % (env[n][0], v)
            body = "let %s := %s in\n%s" % (cname(n), t, nxt(self.bind(env, n, ty)))
            return self.wrap_pre(pre, body, C["fail"])
        if isinstance(s, ast.If):
            return self.if_(s.test, s.body, s.orelse, rest, env, k, C)
        if isinstance(s, ast.Return):
            if C["ret"] is None or s.value is None:
                bad(s, "return not accepted here")
            vals = s.value.elts if isinstance(s.value, ast.Tuple) else [s.value]
            if len(vals) != len(self.f.ret):
                bad(s, "return arity differs from the annotation")
            pre, ts = [], []
            for v, ty in zip(vals, self.f.ret):
                t, vty = self.expr(v, env, pre, want=ty)
                if vty != ty:
                    bad(s, "returned value of a type other than annotated")
                ts.append(t)
            if rest:
                bad(rest[0], "statement after return")
            return self.wrap_pre(pre, C["ret"](ts), C["fail"])
        if isinstance(s, ast.Break):
            if C["loop"] is None or rest:
                bad(s, "break not accepted here")
            return C["loop"]["brk"](env)
        if isinstance(s, ast.Continue):
            if C["loop"] is None or rest:
                bad(s, "continue not accepted here")
            return C["loop"]["cont"](env)
        if isinstance(s, ast.While):
            return self.while_(s, rest, env, k, C)
        if isinstance(s, ast.For):
            return self.for_(s, env, nxt, C)
        bad(s, "statement outside the accepted set")

    @staticmethod
    def seq(block, rest):
        """block followed by rest, unless block ends in return / break / continue"""
        block = list(block)
        if block and isinstance(block[-1], (ast.Return, ast.Break, ast.Continue)):
            return block
        return block + list(rest)

    def if_(self, test, body, orelse, rest, env, k, C):
        # `a and b`: if a: (if b: body else: orelse) else: orelse  -- b's subscripts evaluated only when a holds
        if isinstance(test, ast.BoolOp):
            if not isinstance(test.op, ast.And) or len(test.values) != 2:
                bad(test, "boolean operator outside the accepted set")
            a, b = test.values
            then_ = lambda env2: self.if_(b, body, orelse, rest, env2, k, C)
            pre = []
            c = self.compare(a, env, pre)
            else_ = self.stmts(self.seq(orelse, rest), env, k, C)
            return self.wrap_pre(pre, "if %s then\n%s\nelse\n%s" % (c, then_(env), else_), C["fail"])
        pre = []
        c = self.compare(test, env, pre)
        t = self.stmts(self.seq(body, rest), env, k, C)
        e = self.stmts(self.seq(orelse, rest), env, k, C)
        return self.wrap_pre(pre, "if %s then\n%s\nelse\n%s" % (c, t, e), C["fail"])

    def assign(self, targets, value, env, nxt, C, node, declared=None):
        names = [t.id for t in targets]
        if len(set(names)) != len(names):
            bad(node, "name assigned twice in one statement")
        # call of another method of the class returning a tuple
        if (isinstance(value, ast.Call) and isinstance(value.func, ast.Attribute) and isinstance(value.func.value, ast.Name)
                and value.func.value.id == "self"):
            if value.keywords:
                bad(node, "keyword arguments")
            g = self.tr.fn(value.func.attr)
            if g.kind is None:
                bad(node, "recursive call")
            if len(value.args) != len(g.params) or len(names) != len(g.ret):
                bad(node, "call arity")
            pre, args = [], []
            for a, (pn, pty) in zip(value.args, g.params):
                t, ty = self.expr(a, env, pre, want=pty)
                if ty != pty:
                    bad(node, "argument %s of type %s where %s is expected" % (pn, ty, pty))
                args.append(t if " " not in t else "(" + t + ")")
            for a in g.uses_self_attrs:
                if a not in self.f.uses_self_attrs:
                    self.f.uses_self_attrs.append(a)
            env2 = env
            for n, ty in zip(names, g.ret):
                env2 = self.bind(env2, n, ty)
            call = " ".join([g.coq_name] + ["self_" + a for a in g.uses_self_attrs] + args)
            pat = ", ".join(cname(n) for n in names)
            if g.kind == "option":
                body = "match %s with None => %s | Some (%s) =>\n%s\nend" % (call, C["fail"], pat, nxt(env2))
            else:   # result: propagate IndexError / OutOfFuel
                if C.get("result") is None:
                    bad(node, "call of a looping method not accepted here")
                body = "match %s with IndexError => IndexError | OutOfFuel => OutOfFuel | Ok (%s) =>\n%s\nend" % (call, pat, nxt(env2))
            return self.wrap_pre(pre, body, C["fail"])
        vals = value.elts if isinstance(value, ast.Tuple) else [value]
        if len(vals) != len(names):
            bad(node, "assignment arity")
        # simultaneous assignment: no right-hand side may read a name assigned by this statement
        if len(names) > 1:
            for v in vals:
                for n in ast.walk(v):
                    if isinstance(n, ast.Name) and n.id in names:
                        bad(node, "tuple assignment reading its own targets")
        pre, lets, env2 = [], [], env
        for n, v in zip(names, vals):
            want = declared or self.target_type(n, env, node)
            t, ty = self.expr(v, env, pre, want=want)
            if want is not None and ty != want:
                bad(node, "assignment of type %s to %s of type %s" % (ty, n, want))
            if ty not in (IDX, NUM):
                bad(node, "assignment of a non-number")
            lets.append("let %s := %s in" % (cname(n), t))
            env2 = self.bind(env2, n, ty)
        return self.wrap_pre(pre, "\n".join(lets) + "\n" + nxt(env2), C["fail"])

    def for_(self, s, env, nxt, C):
        """for a, b in seq[lo:hi]: acc += e ...   ->  fold_left over slice"""
        if s.orelse:
            bad(s, "for-else")
        it = s.iter
        if not (isinstance(it, ast.Subscript) and isinstance(it.slice, ast.Slice) and it.slice.step is None
                and it.slice.lower is not None and it.slice.upper is not None):
            bad(s, "for over something other than seq[lo:hi]")
        pre = []
        sq, sty = self.expr(it.value, env, pre)
        lo, t1 = self.expr(it.slice.lower, env, pre, want=IDX)
        hi, t2 = self.expr(it.slice.upper, env, pre, want=IDX)
        if sty != SEQ or t1 != IDX or t2 != IDX or pre:
            bad(s, "slice outside the accepted set")
        if not (isinstance(s.target, ast.Tuple) and len(s.target.elts) == 2 and all(isinstance(x, ast.Name) for x in s.target.elts)):
            bad(s, "for target outside the accepted set")
        a, b = [x.id for x in s.target.elts]
        accs = []
        for st in s.body:
            if not (isinstance(st, ast.AugAssign) and isinstance(st.target, ast.Name)):
                bad(st, "for body outside the accepted set (accumulation only)")
            if st.target.id not in accs:
                accs.append(st.target.id)
        if len(accs) != 1 or accs[0] in (a, b) or accs[0] not in env:
            bad(s, "exactly one accumulator bound before the loop is accepted")
        acc = accs[0]
        inner = dict(env)
        if a in env or b in env:
            bad(s, "for target shadows a local")
        inner[a] = ("(fst it)", NUM)
        inner[b] = ("(snd it)", NUM)
        Cin = dict(fail=None, ret=None, loop=None)
        body = self.stmts(list(s.body), inner, lambda e2: e2[acc][0], Cin)
        if "nth_error" in body:
            bad(s, "subscript inside a for body")
        t = "fold_left (fun (%s : %s) (it : Z * Z) =>\n%s) (slice %s %s %s) %s" % (
            cname(acc), COQT[env[acc][1]], body, sq, lo, hi, env[acc][0])
        return "let %s := %s in\n%s" % (cname(acc), t, nxt(env))

    def while_(self, s, rest, env, k, C):
        if not (isinstance(s.test, ast.Constant) and s.test.value is True) or s.orelse:
            bad(s, "loop other than `while True:`")
        if C.get("top") is not True:
            bad(s, "loop not at the top level of the function")
        if self.f.loop is not None:
            bad(s, "more than one loop (or a loop reached on two paths)")
        locs = [n for n in env if n not in [p for p, _ in self.f.params]]
        if not locs or any(env[n][1] not in (IDX, NUM) for n in locs):
            bad(s, "loop state outside the accepted set")
        sty = "(" + " * ".join(COQT[env[n][1]] for n in locs) + ")"
        tup = lambda e: "(" + ", ".join(e[n][0] for n in locs) + ")"
        pat = "(" + ", ".join(cname(n) for n in locs) + ")"
        base = {n: env[n] for n in env if n not in locs}
        inner = dict(base)
        for n in locs:
            inner[n] = (cname(n), env[n][1])
        loop = dict(cont=lambda e: "Continue " + tup(e), brk=lambda e: "Break " + tup(e))
        Cin = dict(fail="Raise", ret=None, loop=loop)
        body = self.stmts(list(s.body), inner, loop["cont"], Cin)
        seqs = [p for p, t in self.f.params if t == SEQ]
        if len(seqs) != 1:
            bad(s, "fuel needs exactly one sequence parameter")
        self.f.loop = dict(state_type=sty, pat=pat, body=body, init=tup(env), fuel=FUEL.format(seq=cname(seqs[0])))
        after = dict(base)
        for n in locs:
            after[n] = (cname(n), env[n][1])
        Cafter = dict(C)
        Cafter["ret"] = lambda ts: "Ok (" + ", ".join(ts) + ")"
        Cafter["fail"] = "IndexError"
        tail = self.stmts(list(rest), after, k, Cafter)
        return "match while_true (%s_step %s) %s %s with\n| Ok x => let '%s := x in\n%s\n| IndexError => IndexError\n| OutOfFuel => OutOfFuel\nend" % (
            self.f.coq_name, " ".join(self.f.call_args_placeholder), self.f.loop["fuel"], tup(env), pat, tail)

    def append_idiom(self, s, rest, env, k, C):
        """x: list[..] = [] ; for e in xs: x.append((f(e), g(e)))  ->  let x := map (fun e => (..)) xs"""
        if not rest or not isinstance(rest[0], ast.For):
            bad(s, "empty list not followed by a filling loop")
        lp = rest[0]
        x = s.target.id
        if not (isinstance(lp.target, ast.Name) and isinstance(lp.iter, ast.Name) and not lp.orelse and len(lp.body) == 1):
            bad(lp, "filling loop outside the accepted set")
        st = lp.body[0]
        ok = (isinstance(st, ast.Expr) and isinstance(st.value, ast.Call) and isinstance(st.value.func, ast.Attribute)
              and st.value.func.attr == "append" and isinstance(st.value.func.value, ast.Name) and st.value.func.value.id == x
              and len(st.value.args) == 1 and not st.value.keywords and isinstance(st.value.args[0], ast.Tuple)
              and len(st.value.args[0].elts) == 2)
        if not ok:
            bad(st, "filling loop body is not one append of a pair")
        src = lp.iter.id
        if src not in self.f.opaque:
            bad(lp, "filling loop over something other than an entry list parameter")
        e = lp.target.id
        comps = []
        for c in st.value.args[0].elts:
            u = ast.unparse(c)
            if u == "%s.clock" % e:
                comps.append("entry_clock %s" % cname(e))
            elif u == "damage_calculator.calculate_damage(%s)" % e and "damage_calculator" in self.f.opaque:
                comps.append("calculate_damage %s" % cname(e))
            else:
                bad(c, "pair component outside the accepted set")
        self.f.oracles = ["entry_clock", "calculate_damage"]
        t = "map (fun %s => (%s, %s)) %s" % (cname(e), comps[0], comps[1], cname(src))
        env2 = dict(env)
        env2[x] = (cname(x), SEQ)
        return "let %s := %s in\n%s" % (cname(x), t, self.stmts(list(rest[1:]), env2, k, C))

    # ------------------------------------------------------------ whole function
    def translate(self):
        f = self.f
        f.coq_name = f.name.lstrip("_") if f.name != "find_maximum_dealing_interval" else "feature_find_maximum_dealing_interval"
        f.loop = None
        f.opaque = {}
        f.oracles = []
        has_loop = any(isinstance(n, ast.While) for n in ast.walk(f.node))
        calls_loop = False
        for n in ast.walk(f.node):
            if (isinstance(n, ast.Call) and isinstance(n.func, ast.Attribute) and isinstance(n.func.value, ast.Name)
                    and n.func.value.id == "self"):
                g = self.tr.fn(n.func.attr)
                calls_loop = calls_loop or g.kind == "result"
        env = {}
        for p, t in f.params:
            env[p] = (cname(p), t)
        f.call_args_placeholder = ["@SELF@"] + [cname(p) for p, _ in f.params]
        kind = "result" if (has_loop or calls_loop) else "option"
        C = dict(fail="None" if kind == "option" else "IndexError",
                 ret=(lambda ts: "Some (" + ", ".join(ts) + ")") if kind == "option" else (lambda ts: "Ok (" + ", ".join(ts) + ")"),
                 loop=None, top=True, result=(kind == "result") or None)

        def fell(_env):
            raise Unsupported("%s: a path falls off the end without return" % f.name)
        body = self.stmts(list(f.node.body), env, fell, C)
        f.kind = kind
        selfp = ["(self_%s : %s)" % (a, COQT[self.tr.self_attrs[a]]) for a in f.uses_self_attrs]
        selfa = " ".join("self_" + a for a in f.uses_self_attrs)
        params = " ".join(selfp + ["(%s : %s)" % (cname(p), COQT[t]) for p, t in f.params])
        rty = ("option " if kind == "option" else "result ") + coq_type(f.ret)
        body = body.replace("@SELF@", selfa)
        if f.loop:
            lp = f.loop
            f.defs.append("Definition %s_step %s (x : %s) : outcome %s :=\nlet '%s := x in\n%s." % (
                f.coq_name, params, lp["state_type"], lp["state_type"], lp["pat"], lp["body"]))
        f.defs.append("Definition %s %s : %s :=\n%s." % (f.coq_name, params, rty, body))


def translate_feature(tr: Translator):
    """The public wrapper has parameters of types the tiny language does not have (entries, calculator):
    they become a type variable Entry and two oracles entry_clock / calculate_damage."""
    node = tr.methods.get("find_maximum_dealing_interval")
    if node is None:
        raise Unsupported("method find_maximum_dealing_interval not found")
    want_args = ["self", "entries", "damage_calculator"]
    if [a.arg for a in node.args.args] != want_args or node.args.defaults or node.decorator_list:
        bad(node, "signature of the public method changed")
    ann = [ast.unparse(a.annotation) if a.annotation else None for a in node.args.args[1:]]
    if ann != ["list[SimulationEntry]", "DamageCalculator"] or node.returns is None:
        bad(node, "annotations of the public method changed")
    f = Fn.__new__(Fn)
    f.tr, f.node, f.name = tr, node, node.name
    f.params = []
    f.ret = ann_type(node.returns)
    f.uses_self_attrs, f.tmp, f.defs, f.kind = [], 0, [], None
    b = FnBody(tr, f)
    f.coq_name = "feature_find_maximum_dealing_interval"
    f.loop = None
    f.opaque = {"entries": "list Entry", "damage_calculator": None}
    f.oracles = []
    g = tr.fn("_find_maximum_dealing_interval")
    f.call_args_placeholder = []
    C = dict(fail="IndexError", ret=lambda ts: "Ok (" + ", ".join(ts) + ")", loop=None, top=False, result=True)

    def fell(_env):
        raise Unsupported("public method falls off the end")
    body = b.stmts(list(node.body), {}, fell, C)
    if f.oracles != ["entry_clock", "calculate_damage"]:
        bad(node, "public method does not build damage_seq from the entries")
    selfp = ["(self_%s : %s)" % (a, COQT[tr.self_attrs[a]]) for a in f.uses_self_attrs]
    f.defs.append(
        "Definition %s {Entry : Type} (entry_clock : Entry -> Z) (calculate_damage : Entry -> Z) %s (entries : list Entry) : result %s :=\n%s."
        % (f.coq_name, " ".join(selfp), coq_type(f.ret), body))
    f.kind = "result"
    tr.order.append(f)
    return f


HEADER = """(* GENERATED by tools/tr_window.py from %s (sha1 %s) -- never edit.
   Statement-by-statement Gallina rendering of MaximumDealingIntervalFeature; equality with the
   hand-written Model/Window.v is proved in Proofs/WindowTie.v. *)
From Coq Require Import ZArith List Bool Arith.
From V.Lib Require Import PyLoop.
Import ListNotations.
Open Scope Z_scope.
"""


def translate_source(source: str):
    tr = Translator(source)
    tr.fn("_compute_dealing")
    tr.fn("_find_maximum_dealing_interval")
    translate_feature(tr)
    out = [HEADER % (SRC, hashlib.sha1(source.encode()).hexdigest()[:12])]
    for f in tr.order:
        out.append("(* %s, source lines %d-%d *)" % (f.name, f.node.lineno, f.node.end_lineno))
        out += f.defs
        out.append("")
    meta = {"source": SRC, "functions": [f.name for f in tr.order],
            "self_attrs": {f.name: f.uses_self_attrs for f in tr.order}}
    return "\n".join(out), meta


def gen(repo):
    source = open("%s/%s" % (repo, SRC), encoding="utf8").read()
    text, meta = translate_source(source)
    return {"WindowSrc.v": text}, meta


if __name__ == "__main__":
    import sys
    files, meta = gen(sys.argv[1] if len(sys.argv) > 1 else "/repo")
    print(files["WindowSrc.v"])
