"""T-starforce: fail-closed translator for C17.

Reads, on every run, from <repo>/simaple:
  gear/gear_type.py                       -> the GearType predicates used by star force
  gear/improvements/starforce_configuration.py -> the seven increment tables, the two bonus rows,
                                             get_starforce_increment and the five increment providers
  gear/improvements/starforce.py          -> max_star (with its star_data table and break-scan),
                                             get_single_starforce_improvement, calculate_improvement (the fold),
                                             apply_star_cutoff
  gear/blueprint/gear_blueprint.py        -> GeneralizedGearBlueprint.build (composition order) and
                                             PracticalGearBlueprint.translate_into_generalized_gear_blueprint
  core/base.py                            -> checks only (StatProps values, Stat.get, the 8 additive fields)
and writes gen/SfGen.v: Gallina definitions over Model/SfBase.v (Z for ints, Q for stat fields,
option for exceptions).  The Python subset is executed symbolically: straight-line code, if/elif/else
(branches that return become `if .. then .. else ..`; branches that only update locals are merged per
variable / per stat field / per set member), loops over static sequences are unrolled, and three loop
idioms are recognised (reversed-scan-return, scan-with-break, range fold).  Anything else raises
Unsupported -- never a guess."""
from __future__ import annotations

import ast
import sys

FIELDS = [("STR", "sSTR"), ("DEX", "sDEX"), ("INT", "sINT"), ("LUK", "sLUK"),
          ("attack_power", "sATT"), ("magic_attack", "sMAT"), ("MHP", "sMHP"), ("MMP", "sMMP")]
FMAP = dict(FIELDS)
QZERO = "0%Q"
META_ATTR = {"req_level": ("Z", "m_req_level"), "req_job": ("Z", "m_req_job"),
             "superior_eqp": ("B", "m_superior"), "max_scroll_chance": ("Z", "m_tuc")}


class Unsupported(Exception):
    pass


def fail(node, msg):
    line = getattr(node, "lineno", "?")
    src = ast.unparse(node)[:160] if isinstance(node, ast.AST) else str(node)
    raise Unsupported("line %s: %s: %s" % (line, msg, src))


# ------------------------------------------------------------------ symbolic values
class Zv:
    def __init__(self, term, const=None):
        self.term, self.const = term, const


class Qv:
    def __init__(self, term):
        self.term = term


class Bv:
    def __init__(self, term, const=None):
        self.term, self.const = term, const


class Sv:
    def __init__(self, s):
        self.s = s


class Ev:           # enum member
    def __init__(self, cls, member):
        self.cls, self.member = cls, member


class Lv:           # static Python list / tuple of values
    def __init__(self, items):
        self.items = items


class Tv:           # list (list Z) term
    def __init__(self, term, minrow):
        self.term, self.minrow = term, minrow


class Rv:           # list Z term (a row of a table); minlen statically known
    def __init__(self, term, minlen):
        self.term, self.minlen = term, minlen


class ORv:          # option (list Z): `data = None` then maybe a row
    def __init__(self, term, minlen):
        self.term, self.minlen = term, minlen


class StatV:        # field -> Q term or None (= 0)
    def __init__(self, f=None, opaque=None):
        self.f = dict(f or {})
        self.opaque = opaque

    @staticmethod
    def of_term(t):
        return StatV({py: "(%s %s)" % (cq, t) for py, cq in FIELDS}, opaque=t)

    def term(self):
        if self.opaque is not None:
            return self.opaque
        if not any(self.f.values()):
            return "szero"
        return "(mkS %s)" % " ".join((self.f.get(py) or QZERO) for py, _ in FIELDS)


class SetV:
    def __init__(self, m=None):
        self.m = dict(m or {})


class Ov:           # object with symbolic fields
    def __init__(self, cls, fields=None):
        self.cls, self.fields = cls, dict(fields or {})


class Mv:           # the GearMeta
    def __init__(self, term):
        self.term = term


class GTv:          # a GearType value (its integer)
    def __init__(self, term, const=None):
        self.term, self.const = term, const


class Nv:
    pass


def zlit(n):
    return "%d" % n if n >= 0 else "(%d)" % n


def same(a, b):
    if type(a) is not type(b):
        return False
    if isinstance(a, (Zv, Qv, Bv, Tv, Rv, ORv, Mv, GTv)):
        return a.term == b.term
    if isinstance(a, StatV):
        return a.f == b.f
    if isinstance(a, SetV):
        return a.m == b.m
    if isinstance(a, Sv):
        return a.s == b.s
    if isinstance(a, Ev):
        return (a.cls, a.member) == (b.cls, b.member)
    if isinstance(a, Nv):
        return True
    if isinstance(a, Lv):
        return len(a.items) == len(b.items) and all(same(x, y) for x, y in zip(a.items, b.items))
    if isinstance(a, Ov):
        return a.cls == b.cls and a.fields.keys() == b.fields.keys() and all(same(a.fields[k], b.fields[k]) for k in a.fields)
    return False


def is_int_table(node):
    return (isinstance(node, ast.List) and node.elts and all(
        isinstance(r, ast.List) and r.elts and all(isinstance(c, ast.Constant) and type(c.value) is int for c in r.elts)
        for r in node.elts))


def is_int_row(node):
    return isinstance(node, ast.List) and node.elts and all(
        isinstance(c, ast.Constant) and type(c.value) is int for c in node.elts)


class Ret(Exception):
    """raised by the merge-mode executor when an inlined callee returns"""
    def __init__(self, v):
        self.v = v


# ------------------------------------------------------------------ the world
class World:
    def __init__(self, repo):
        self.repo = repo
        self.classes = {}      # name -> ClassDef
        self.funcs = {}        # name -> FunctionDef
        self.consts = {}       # module-level name -> ast value
        self.enums = {}        # cls -> {member: python value}
        self.files = []

    def load(self, rel):
        p = "%s/simaple/%s" % (self.repo, rel)
        self.files.append(rel)
        mod = ast.parse(open(p, encoding="utf8").read())
        for st in mod.body:
            if isinstance(st, ast.ClassDef):
                self.classes[st.name] = st
                if any((isinstance(b, ast.Name) and b.id in ("IntEnum", "Enum")) or
                       (isinstance(b, ast.Attribute) and b.attr in ("IntEnum", "Enum")) for b in st.bases):
                    mem = {}
                    for s in st.body:
                        if isinstance(s, ast.Assign) and len(s.targets) == 1 and isinstance(s.targets[0], ast.Name):
                            try:
                                mem[s.targets[0].id] = ast.literal_eval(s.value)
                            except Exception:
                                fail(s, "enum member is not a literal")
                    self.enums[st.name] = mem
            elif isinstance(st, ast.FunctionDef):
                self.funcs[st.name] = st
            elif isinstance(st, ast.Assign) and len(st.targets) == 1 and isinstance(st.targets[0], ast.Name):
                self.consts[st.targets[0].id] = st.value
        return mod

    def method(self, cls, name):
        seen = set()
        todo = [cls]
        while todo:
            c = todo.pop(0)
            if c in seen or c not in self.classes:
                continue
            seen.add(c)
            for s in self.classes[c].body:
                if isinstance(s, ast.FunctionDef) and s.name == name:
                    return c, s
            todo += [b.id for b in self.classes[c].bases if isinstance(b, ast.Name)]
        return None, None


# ------------------------------------------------------------------ the symbolic executor
class SE:
    def __init__(self, world: World):
        self.w = world
        self.tables = {}       # python name -> (coq name, rows)   list of list of int
        self.rows = {}         # python name -> (coq name, values) list of int
        self.n = 0
        self.binds = []        # pending (var, option term) in evaluation order
        self.pure = 0          # >0: partial operations are not allowed (merge mode)
        self.registry = {}     # (cls or None, func) -> (coq name, kind) kind in Z | B | OZ | OS
        self.notes = []
        self.local_tables = {}

    def fresh(self, base="v"):
        self.n += 1
        return "%s%d" % (base, self.n)

    # ---- partial operations
    def bind(self, node, opt_term, base="v"):
        if self.pure:
            fail(node, "operation that may raise inside a branch that is merged")
        v = self.fresh(base)
        self.binds.append((v, opt_term))
        return v

    def wrap(self, start, term):
        """emit the binds registered since `start` around term"""
        bs = self.binds[start:]
        del self.binds[start:]
        for v, o in reversed(bs):
            term = "match %s with None => None | Some %s => %s end" % (o, v, term)
        return term

    # ---- coercions
    def asQ(self, v, node):
        if isinstance(v, Qv):
            return v.term
        if isinstance(v, Zv):
            return "(qz %s)" % v.term
        fail(node, "number expected")

    def asB(self, v, node):
        if isinstance(v, Bv):
            return v.term
        fail(node, "bool expected")

    # ---- expressions
    def ev(self, e, env):
        m = getattr(self, "e_" + type(e).__name__, None)
        if m is None:
            fail(e, "unsupported expression")
        return m(e, env)

    def e_Constant(self, e, env):
        v = e.value
        if v is None:
            return Nv()
        if isinstance(v, bool):
            return Bv("true" if v else "false", v)
        if isinstance(v, int):
            return Zv(zlit(v), v)
        if isinstance(v, str):
            return Sv(v)
        fail(e, "literal")

    def e_Name(self, e, env):
        if e.id in env:
            return env[e.id]
        if e.id in self.tables:
            cn, rows = self.tables[e.id]
            return Tv(cn, min(len(r) for r in rows))
        if e.id in self.rows:
            cn, vals = self.rows[e.id]
            return Rv(cn, len(vals))
        if e.id in self.w.enums:
            return Sv("<enum %s>" % e.id)
        fail(e, "unknown name")

    def e_Tuple(self, e, env):
        return Lv([self.ev(x, env) for x in e.elts])

    e_List = e_Tuple

    def e_Set(self, e, env):
        s = SetV()
        for x in e.elts:
            v = self.ev(x, env)
            if not isinstance(v, Ev):
                fail(e, "set of enum members expected")
            s.m[(v.cls, v.member)] = "true"
        return s

    def e_Dict(self, e, env):
        d = {}
        for k, v in zip(e.keys, e.values):
            kv = self.ev(k, env)
            if not isinstance(kv, Sv):
                fail(e, "dict key must be a static string")
            d[kv.s] = self.ev(v, env)
        return ("dict", d)

    def e_IfExp(self, e, env):
        c = self.ev(e.test, env)
        a, b = self.ev(e.body, env), self.ev(e.orelse, env)
        if isinstance(c, Bv) and c.const is not None:
            return a if c.const else b
        return self.merge_val(self.asB(c, e), a, b, e)

    def e_UnaryOp(self, e, env):
        v = self.ev(e.operand, env)
        if isinstance(e.op, ast.Not):
            if isinstance(v, Bv) and v.const is not None:
                return Bv("false" if v.const else "true", not v.const)
            return Bv("(negb %s)" % self.asB(v, e))
        if isinstance(e.op, ast.USub) and isinstance(v, Zv):
            if v.const is not None:
                return Zv(zlit(-v.const), -v.const)
            return Zv("(- %s)" % v.term)
        fail(e, "unary operator")

    def e_BoolOp(self, e, env):
        vs = [self.ev(x, env) for x in e.values]
        op = "&&" if isinstance(e.op, ast.And) else "||"
        absorbing = isinstance(e.op, ast.Or)
        out = []
        for v in vs:
            t = self.asB(v, e)
            if v.const is not None:
                if v.const == absorbing:
                    if not out:
                        return Bv("true" if absorbing else "false", absorbing)
                    out.append(t)
                    break
                continue
            out.append(t)
        if not out:
            return Bv("false" if absorbing else "true", not absorbing)
        if len(out) == 1:
            return Bv(out[0])
        return Bv("(" + (" %s " % op).join(out) + ")")

    ZCMP = {ast.Gt: ">?", ast.GtE: ">=?", ast.Lt: "<?", ast.LtE: "<=?", ast.Eq: "=?"}
    PYCMP = {ast.Gt: lambda a, b: a > b, ast.GtE: lambda a, b: a >= b, ast.Lt: lambda a, b: a < b,
             ast.LtE: lambda a, b: a <= b, ast.Eq: lambda a, b: a == b, ast.NotEq: lambda a, b: a != b}

    def cmp1(self, op, a, b, node):
        # enum / gear type comparisons go through the integer value
        def gt(x):
            if isinstance(x, GTv):
                return Zv(x.term, x.const)
            if isinstance(x, Ev) and x.cls == "GearType":
                val = self.w.enums["GearType"][x.member]
                return Zv(zlit(val), val)
            return x
        if isinstance(op, (ast.Is, ast.IsNot)):
            if isinstance(b, Nv):
                if isinstance(a, Nv):
                    return Bv("true" if isinstance(op, ast.Is) else "false", isinstance(op, ast.Is))
                if isinstance(a, ORv):
                    t = "(match %s with None => true | Some _ => false end)" % a.term
                    return Bv(t if isinstance(op, ast.Is) else "(negb %s)" % t)
                if isinstance(a, (StatV, Rv, Zv, Qv, Ov, Mv)):
                    return Bv("false" if isinstance(op, ast.Is) else "true", isinstance(op, ast.IsNot))
            fail(node, "`is` comparison")
        if isinstance(op, (ast.In, ast.NotIn)):
            neg = isinstance(op, ast.NotIn)
            if isinstance(b, SetV):
                if not isinstance(a, Ev):
                    fail(node, "membership of a non-enum value")
                t = b.m.get((a.cls, a.member), "false")
                r = Bv(t, {"true": True, "false": False}.get(t))
            elif isinstance(b, Lv):
                parts = [self.cmp1(ast.Eq(), a, x, node) for x in b.items]
                if any(p.const is True for p in parts):
                    r = Bv("true", True)
                else:
                    ts = [p.term for p in parts if p.const is None]
                    r = Bv("(" + " || ".join(ts) + ")") if ts else Bv("false", False)
            else:
                fail(node, "membership in a non-static container")
            if neg:
                return Bv("(negb %s)" % r.term, None if r.const is None else not r.const)
            return r
        a, b = gt(a), gt(b)
        if isinstance(a, Ev) and isinstance(b, Ev):
            eq = (a.cls, a.member) == (b.cls, b.member)
            if isinstance(op, ast.Eq):
                return Bv("true" if eq else "false", eq)
            if isinstance(op, ast.NotEq):
                return Bv("false" if eq else "true", not eq)
            fail(node, "enum ordering")
        if isinstance(a, Zv) and isinstance(b, Zv):
            if a.const is not None and b.const is not None:
                r = self.PYCMP[type(op)](a.const, b.const)
                return Bv("true" if r else "false", r)
            if isinstance(op, ast.NotEq):
                return Bv("(negb (%s =? %s))" % (a.term, b.term))
            if type(op) not in self.ZCMP:
                fail(node, "comparison operator")
            return Bv("(%s %s %s)" % (a.term, self.ZCMP[type(op)], b.term))
        if isinstance(a, (Zv, Qv)) and isinstance(b, (Zv, Qv)):
            x, y = self.asQ(a, node), self.asQ(b, node)
            t = {ast.Gt: "(qltb %s %s)" % (y, x), ast.GtE: "(qleb %s %s)" % (y, x), ast.Lt: "(qltb %s %s)" % (x, y),
                 ast.LtE: "(qleb %s %s)" % (x, y), ast.Eq: "(qeqb %s %s)" % (x, y),
                 ast.NotEq: "(negb (qeqb %s %s))" % (x, y)}.get(type(op))
            if t is None:
                fail(node, "comparison operator")
            return Bv(t)
        fail(node, "comparison of unsupported values")

    def e_Compare(self, e, env):
        vals = [self.ev(e.left, env)] + [self.ev(c, env) for c in e.comparators]
        parts = [self.cmp1(op, vals[i], vals[i + 1], e) for i, op in enumerate(e.ops)]
        if any(p.const is False for p in parts):
            return Bv("false", False)
        ts = [p.term for p in parts if p.const is None]
        if not ts:
            return Bv("true", True)
        return Bv(ts[0]) if len(ts) == 1 else Bv("(" + " && ".join(ts) + ")")

    def e_BinOp(self, e, env):
        a, b = self.ev(e.left, env), self.ev(e.right, env)
        op = type(e.op)
        if isinstance(a, StatV) and isinstance(b, StatV) and op is ast.Add:
            return self.stat_add(a, b)
        if isinstance(a, Zv) and isinstance(b, Zv):
            py = {ast.Add: lambda x, y: x + y, ast.Sub: lambda x, y: x - y, ast.Mult: lambda x, y: x * y,
                  ast.FloorDiv: lambda x, y: x // y, ast.Mod: lambda x, y: x % y, ast.BitAnd: lambda x, y: x & y,
                  ast.LShift: lambda x, y: x << y}.get(op)
            if py is None:
                fail(e, "integer operator")
            if a.const is not None and b.const is not None:
                r = py(a.const, b.const)
                return Zv(zlit(r), r)
            t = {ast.Add: "(%s + %s)", ast.Sub: "(%s - %s)", ast.Mult: "(%s * %s)", ast.FloorDiv: "(%s / %s)",
                 ast.Mod: "(%s mod %s)", ast.BitAnd: "(Z.land %s %s)", ast.LShift: "(Z.shiftl %s %s)"}[op]
            if op in (ast.FloorDiv, ast.Mod) and not (b.const is not None and b.const > 0):
                fail(e, "division by a non-literal or non-positive divisor")
            return Zv(t % (a.term, b.term))
        if isinstance(a, (Zv, Qv)) and isinstance(b, (Zv, Qv)):
            x, y = self.asQ(a, e), self.asQ(b, e)
            if op is ast.Add:
                return Qv("(%s + %s)%%Q" % (x, y))
            if op is ast.Sub:
                return Qv("(%s - %s)%%Q" % (x, y))
            if op is ast.Mult:
                return Qv("(%s * %s)%%Q" % (x, y))
            if op is ast.FloorDiv:
                if not (isinstance(b, Zv) and b.const is not None and b.const > 0):
                    fail(e, "float floor division by a non-literal")
                return Qv("(qfdiv %s %s)" % (x, y))
            fail(e, "float operator")
        fail(e, "binary operator on unsupported values")

    def stat_add(self, a, b):
        if a.opaque is not None and b.opaque is not None:
            return StatV.of_term("(sadd %s %s)" % (a.opaque, b.opaque))
        f = {}
        for py, _ in FIELDS:
            x, y = a.f.get(py), b.f.get(py)
            f[py] = y if x is None else (x if y is None else "(%s + %s)%%Q" % (x, y))
        return StatV(f)

    def mk_stat(self, kws: dict, node):
        f = {}
        for k, v in kws.items():
            if k not in FMAP:
                fail(node, "Stat field %r is outside the eight modelled star-force fields" % k)
            f[k] = self.asQ(v, node)
        return StatV(f)

    def e_Subscript(self, e, env):
        base = self.ev(e.value, env)
        if isinstance(e.slice, ast.IfExp):
            c = self.ev(e.slice.test, env)
            a = self.e_Subscript(ast.copy_location(ast.Subscript(value=e.value, slice=e.slice.body, ctx=ast.Load()), e), env)
            b = self.e_Subscript(ast.copy_location(ast.Subscript(value=e.value, slice=e.slice.orelse, ctx=ast.Load()), e), env)
            if isinstance(c, Bv) and c.const is not None:
                return a if c.const else b
            return self.merge_val(self.asB(c, e), a, b, e)
        idx = self.ev(e.slice, env)
        if isinstance(base, Lv) and isinstance(idx, Zv) and idx.const is not None:
            if not -len(base.items) <= idx.const < len(base.items):
                fail(e, "static index out of range")
            return base.items[idx.const]
        if isinstance(base, Rv) and isinstance(idx, Zv):
            if idx.const is not None and 0 <= idx.const < base.minlen:
                return Zv("(zrow %s %d)" % (base.term, idx.const))
            return Zv(self.bind(e, "(zidx %s %s)" % (base.term, idx.term)))
        if isinstance(base, Tv) and isinstance(idx, Zv):
            fail(e, "direct table indexing")
        fail(e, "subscript")

    def e_Attribute(self, e, env):
        # enum members
        if isinstance(e.value, ast.Name) and e.value.id in self.w.enums and e.value.id not in env:
            if e.attr not in self.w.enums[e.value.id]:
                fail(e, "unknown enum member")
            return Ev(e.value.id, e.attr)
        b = self.ev(e.value, env)
        if isinstance(b, Mv):
            if e.attr == "type":
                return GTv("(m_type %s)" % b.term)
            if e.attr in META_ATTR:
                k, f = META_ATTR[e.attr]
                t = "(%s %s)" % (f, b.term)
                return Zv(t) if k == "Z" else Bv(t)
            fail(e, "GearMeta attribute outside the modelled five")
        if isinstance(b, StatV):
            if e.attr not in FMAP:
                fail(e, "Stat field outside the modelled eight")
            return Qv(b.f.get(e.attr) or QZERO)
        if isinstance(b, Ev) and e.attr == "value":
            v = self.w.enums[b.cls][b.member]
            if isinstance(v, int):
                return Zv(zlit(v), v)
            return Sv(v)
        if isinstance(b, GTv) and e.attr == "value":
            return Zv(b.term, b.const)
        if isinstance(b, Ov):
            if e.attr in b.fields:
                return b.fields[e.attr]
            fail(e, "unknown object field")
        fail(e, "attribute")

    # ---- calls
    def e_Call(self, e, env):
        f = e.func
        kw = {k.arg: k.value for k in e.keywords}
        if None in kw:
            fail(e, "**kwargs")
        if isinstance(f, ast.Name):
            if f.id == "Stat":
                if e.args:
                    fail(e, "positional Stat argument")
                return self.mk_stat({k: self.ev(v, env) for k, v in kw.items()}, e)
            if f.id in ("min", "max") and len(e.args) == 2 and not kw:
                a, b = (self.ev(x, env) for x in e.args)
                if isinstance(a, Zv) and isinstance(b, Zv):
                    return Zv("(Z.%s %s %s)" % (f.id, a.term, b.term))
                fail(e, "min/max of non-integers")
            if f.id == "range" and not kw:
                a = [self.ev(x, env) for x in e.args]
                if all(isinstance(x, Zv) and x.const is not None for x in a) and 1 <= len(a) <= 2:
                    lo, hi = (0, a[0].const) if len(a) == 1 else (a[0].const, a[1].const)
                    return Lv([Zv(zlit(i), i) for i in range(lo, hi)])
                fail(e, "non-static range")
            if f.id == "set" and not e.args and not kw:
                return SetV()
            if (None, f.id) in self.registry:
                return self.call_registered((None, f.id), None, e, env)
            if f.id in self.w.classes and not e.args:
                return Ov(f.id, {k: self.ev(v, env) for k, v in kw.items()})
            fail(e, "call of an unknown function")
        if isinstance(f, ast.Attribute):
            # Stat.model_validate({...})
            if isinstance(f.value, ast.Name) and f.value.id == "Stat" and f.attr in ("model_validate", "parse_obj"):
                d = self.ev(e.args[0], env)
                if not (isinstance(d, tuple) and d[0] == "dict"):
                    fail(e, "model_validate of a non-literal dict")
                return self.mk_stat(d[1], e)
            recv = self.ev(f.value, env)
            if isinstance(recv, StatV) and f.attr == "get" and len(e.args) == 1:
                p = self.ev(e.args[0], env)
                if not (isinstance(p, Ev) and p.cls == "StatProps"):
                    fail(e, "Stat.get of a non-static property")
                name = self.w.enums["StatProps"][p.member]
                if name not in FMAP:
                    fail(e, "Stat.get of an unmodelled field")
                return Qv(recv.f.get(name) or QZERO)
            if isinstance(recv, SetV) and f.attr == "add" and len(e.args) == 1:
                p = self.ev(e.args[0], env)
                if not isinstance(p, Ev):
                    fail(e, "set.add of a non-enum value")
                recv.m[(p.cls, p.member)] = "true"
                return Nv()
            if isinstance(recv, GTv):
                key = ("GearType", f.attr)
                if key not in self.registry:
                    fail(e, "GearType method outside the translated predicates")
                return Bv("(%s %s)" % (self.registry[key][0], recv.term))
            if isinstance(recv, Ov):
                c, fn = self.w.method(recv.cls, f.attr)
                if fn is None:
                    fail(e, "unknown method")
                if (c, f.attr) in self.registry:
                    return self.call_registered((c, f.attr), recv, e, env)
                return self.inline(fn, recv, e, env)
            fail(e, "method call on an unsupported receiver")
        fail(e, "call")

    def bind_args(self, fn, recv, e, env):
        params = [a.arg for a in fn.args.args]
        vals = {}
        if params and params[0] == "self":
            vals["self"] = recv
            params = params[1:]
        if len(e.args) > len(params):
            fail(e, "too many arguments")
        for p, a in zip(params, e.args):
            vals[p] = self.ev(a, env)
        for k in e.keywords:
            if k.arg not in params or k.arg in vals:
                fail(e, "bad keyword argument")
            vals[k.arg] = self.ev(k.value, env)
        if set(params) - set(vals):
            fail(e, "missing argument (defaults are not modelled)")
        return params, vals

    def call_registered(self, key, recv, e, env):
        cname, kind, sig = self.registry[key]
        fn = self.w.funcs[key[1]] if key[0] is None else self.w.method(key[0], key[1])[1]
        params, vals = self.bind_args(fn, recv, e, env)
        args = []
        for p, k in sig:
            if p.startswith("self."):
                v = recv.fields.get(p[5:]) if isinstance(recv, Ov) else None
                if v is None:
                    fail(e, "receiver has no field " + p)
            else:
                v = vals[p]
            if k == "M" and isinstance(v, Mv):
                args.append(v.term)
            elif k == "Z" and isinstance(v, Zv):
                args.append(v.term)
            elif k == "B" and isinstance(v, Bv):
                args.append(v.term)
            elif k == "S" and isinstance(v, StatV):
                args.append(v.term())
            else:
                fail(e, "argument %s of %s has an unexpected kind" % (p, cname))
        t = "(%s %s)" % (cname, " ".join(args))
        if kind == "Z":
            return Zv(t)
        if kind == "B":
            return Bv(t)
        if kind == "OZ":
            return Zv(self.bind(e, t))
        if kind == "OS":
            return StatV.of_term(self.bind(e, t, "s"))
        fail(e, "registry kind")

    def inline(self, fn, recv, e, env):
        """execute a small helper in merge mode (no early return) and take its final return value"""
        params, vals = self.bind_args(fn, recv, e, env)
        body = [s for s in fn.body if not (isinstance(s, ast.Expr) and isinstance(s.value, ast.Constant))]
        if not body or not isinstance(body[-1], ast.Return):
            fail(fn, "inlined helper must end with a return")
        self.pure += 1
        try:
            self.merge_block(body[:-1], vals)
            r = self.ev(body[-1].value, vals)
        finally:
            self.pure -= 1
        return r

    # ---- merging of branches that only update locals
    def merge_val(self, c, a, b, node):
        if same(a, b):
            return a
        if isinstance(a, Zv) and isinstance(b, Zv):
            return Zv("(if %s then %s else %s)" % (c, a.term, b.term))
        if isinstance(a, (Zv, Qv)) and isinstance(b, (Zv, Qv)):
            return Qv("(if %s then %s else %s)" % (c, self.asQ(a, node), self.asQ(b, node)))
        if isinstance(a, Bv) and isinstance(b, Bv):
            return Bv("(if %s then %s else %s)" % (c, a.term, b.term))
        if isinstance(a, Tv) and isinstance(b, Tv):
            return Tv("(if %s then %s else %s)" % (c, a.term, b.term), min(a.minrow, b.minrow))
        if isinstance(a, StatV) and isinstance(b, StatV):
            f = {}
            for py, _ in FIELDS:
                x, y = a.f.get(py), b.f.get(py)
                f[py] = x if x == y else "(if %s then %s else %s)" % (c, x or QZERO, y or QZERO)
            return StatV(f)
        if isinstance(a, SetV) and isinstance(b, SetV):
            m = {}
            for k in list(a.m) + [k for k in b.m if k not in a.m]:
                x, y = a.m.get(k, "false"), b.m.get(k, "false")
                m[k] = x if x == y else "(if %s then %s else %s)" % (c, x, y)
            return SetV(m)
        fail(node, "cannot merge the two branches' values")

    def copy_env(self, env):
        out = {}
        for k, v in env.items():
            if isinstance(v, SetV):
                out[k] = SetV(v.m)
            elif isinstance(v, Ov):
                out[k] = Ov(v.cls, v.fields)
            else:
                out[k] = v
        return out

    def merge_block(self, stmts, env):
        """execute statements that neither return nor raise; env is updated in place"""
        for st in stmts:
            if isinstance(st, ast.If):
                c = self.ev(st.test, env)
                if isinstance(c, Bv) and c.const is not None:
                    self.merge_block(st.body if c.const else st.orelse, env)
                    continue
                ct = self.asB(c, st)
                ea, eb = self.copy_env(env), self.copy_env(env)
                self.pure += 1
                try:
                    self.merge_block(st.body, ea)
                    self.merge_block(st.orelse, eb)
                finally:
                    self.pure -= 1
                for k in set(ea) | set(eb):
                    if k not in ea or k not in eb:
                        env.pop(k, None)      # a branch-local temporary: a later use fails closed as unknown name
                        continue
                    env[k] = self.merge_val(ct, ea[k], eb[k], st)
            elif isinstance(st, ast.For):
                self.unroll(st, env, lambda body, e2: self.merge_block(body, e2))
            else:
                self.simple(st, env)

    def unroll(self, st, env, run):
        if st.orelse or not isinstance(st.target, ast.Name):
            fail(st, "for loop shape")
        it = self.ev(st.iter, env)
        if not isinstance(it, Lv):
            fail(st, "loop over a non-static sequence")
        for x in it.items:
            env[st.target.id] = x
            run(st.body, env)

    def simple(self, st, env):
        """assignment-like statements"""
        if isinstance(st, ast.Expr):
            if isinstance(st.value, ast.Constant):
                return
            if isinstance(st.value, ast.Call):
                self.ev(st.value, env)
                return
            fail(st, "expression statement")
        if isinstance(st, ast.Assign) and len(st.targets) == 1:
            tgt, val = st.targets[0], st.value
        elif isinstance(st, ast.AnnAssign) and st.value is not None:
            tgt, val = st.target, st.value
        elif isinstance(st, ast.AugAssign):
            if not isinstance(st.op, ast.Add):
                fail(st, "augmented assignment operator")
            tgt = st.target
            val = ast.BinOp(left=ast.copy_location(ast.Name(id=tgt.id, ctx=ast.Load()), st) if isinstance(tgt, ast.Name) else tgt,
                            op=ast.Add(), right=st.value)
            ast.copy_location(val, st)
        else:
            fail(st, "unsupported statement")
        if isinstance(tgt, ast.Name) and is_int_table(val):
            rows = ast.literal_eval(val)
            cn = "t_%s" % tgt.id.strip("_")
            if self.local_tables.get(cn, rows) != rows:
                fail(st, "two different local tables named " + tgt.id)
            self.local_tables[cn] = rows
            env[tgt.id] = Tv(cn, min(len(r) for r in rows))
            return
        v = self.ev(val, env)
        if isinstance(tgt, ast.Name):
            if isinstance(v, tuple):
                fail(st, "dict bound to a name")
            env[tgt.id] = v
            return
        if isinstance(tgt, ast.Attribute) and isinstance(tgt.value, ast.Name) and isinstance(env.get(tgt.value.id), Ov):
            env[tgt.value.id].fields[tgt.attr] = v
            return
        fail(st, "assignment target")

    # ---- statement compiler for functions that return (option) values
    def terminates(self, stmts):
        if not stmts:
            return False
        s = stmts[-1]
        if isinstance(s, (ast.Return, ast.Raise)):
            return True
        if isinstance(s, ast.If):
            return self.terminates(s.body) and self.terminates(s.orelse)
        return False

    def has_exit(self, stmts):
        for s in stmts:
            for n in ast.walk(s):
                if isinstance(n, (ast.Return, ast.Raise)):
                    return True
        return False

    def block(self, stmts, env, ret):
        """-> Coq term for the rest of the function. ret(value) renders a returned value."""
        if not stmts:
            fail("end of function", "function falls off its end")
        st, rest = stmts[0], stmts[1:]
        start = len(self.binds)
        if isinstance(st, ast.Return):
            v = self.ev(st.value, env)
            return self.wrap(start, ret(v, st))
        if isinstance(st, ast.Raise):
            if not self.partial_ok:
                fail(st, "raise in a function modelled as total")
            return "None"
        if isinstance(st, ast.If):
            t = st.test
            if (isinstance(t, ast.Compare) and len(t.ops) == 1 and isinstance(t.ops[0], (ast.Is, ast.IsNot))
                    and isinstance(t.left, ast.Name) and isinstance(env.get(t.left.id), ORv)
                    and isinstance(t.comparators[0], ast.Constant) and t.comparators[0].value is None):
                o = env[t.left.id]
                r = self.fresh("row")
                e_none, e_some = self.copy_env(env), self.copy_env(env)
                e_none[t.left.id] = Nv()
                e_some[t.left.id] = Rv(r, o.minlen)
                b_none, b_some = (st.body, st.orelse) if isinstance(t.ops[0], ast.Is) else (st.orelse, st.body)
                if not (self.terminates(b_none) or self.terminates(b_some)):
                    fail(st, "None test whose branches both fall through")
                tn = self.block(b_none + ([] if self.terminates(b_none) else rest), e_none, ret)
                ts = self.block(b_some + ([] if self.terminates(b_some) else rest), e_some, ret)
                return "match %s with None => %s | Some %s => %s end" % (o.term, tn, r, ts)
            # `if x is None: raise` on an argument that the model always supplies folds to a constant
            c = self.ev(st.test, env)
            if isinstance(c, Bv) and c.const is not None:
                return self.wrap(start, self.block((st.body if c.const else st.orelse) + rest, env, ret))
            if self.has_exit(st.body) or self.has_exit(st.orelse):
                ct = self.asB(c, st)
                ea, eb = self.copy_env(env), self.copy_env(env)
                ta = self.block(st.body + ([] if self.terminates(st.body) else rest), ea, ret)
                tb = self.block(st.orelse + ([] if self.terminates(st.orelse) else rest), eb, ret)
                if not self.terminates(st.body) and not self.terminates(st.orelse):
                    fail(st, "both branches fall through although one may exit (continuation would be duplicated)")
                return self.wrap(start, "(if %s then %s else %s)" % (ct, ta, tb))
            self.merge_block([st], env)
            return self.wrap(start, self.block(rest, env, ret))
        if isinstance(st, ast.For):
            idiom = self.find_rev_idiom(st, env)
            if idiom is not None:
                optrow, rowvar, body_ret, minrow = idiom
                r = self.fresh("row")
                env2 = self.copy_env(env)
                env2[rowvar] = Rv(r, minrow)
                inner = self.block([body_ret], env2, ret)
                after = self.block(rest, env, ret)
                return self.wrap(start, "match %s with Some %s => %s | None => %s end" % (optrow, r, inner, after))
            sb = self.scan_break_idiom(st, env)
            if sb is not None:
                return self.wrap(start, self.block(rest, env, ret))
            if self.range_fold_idiom(st, env):
                return self.wrap(start, self.block(rest, env, ret))
            self.unroll(st, env, lambda body, e2: self.seq_in_loop(body, e2))
            return self.wrap(start, self.block(rest, env, ret))
        self.simple(st, env)
        return self.wrap(start, self.block(rest, env, ret))

    def seq_in_loop(self, body, env):
        if self.has_exit(body):
            fail(body[0], "return/raise inside an unrolled loop")
        # partial operations are allowed here: their binds are emitted by the enclosing block()
        for s in body:
            if isinstance(s, (ast.If, ast.For)):
                self.merge_block([s], env)
            else:
                self.simple(s, env)

    # for i in range(a, b): acc = <expr(i, acc)>       (a or b not static)
    def range_fold_idiom(self, st, env):
        it = st.iter
        if not (isinstance(it, ast.Call) and isinstance(it.func, ast.Name) and it.func.id == "range" and len(it.args) == 2
                and not it.keywords and isinstance(st.target, ast.Name) and not st.orelse):
            return False
        a, b = self.ev(it.args[0], env), self.ev(it.args[1], env)
        if not (isinstance(a, Zv) and isinstance(b, Zv)) or (a.const is not None and b.const is not None):
            return False
        if not (len(st.body) == 1 and isinstance(st.body[0], ast.Assign) and len(st.body[0].targets) == 1
                and isinstance(st.body[0].targets[0], ast.Name) and isinstance(env.get(st.body[0].targets[0].id), StatV)):
            fail(st, "range loop is not the accumulator-fold idiom")
        acc = st.body[0].targets[0].id
        iv, av = self.fresh("i"), self.fresh("acc")
        env2 = self.copy_env(env)
        env2[st.target.id] = Zv(iv)
        env2[acc] = StatV.of_term(av)
        for k, v in env.items():
            if k != acc and isinstance(v, (SetV, Ov)) and k != "self":
                fail(st, "mutable local visible inside the folded loop body")
        s0 = len(self.binds)
        v = self.ev(st.body[0].value, env2)
        if not isinstance(v, StatV):
            fail(st, "fold body must produce a Stat")
        body = self.wrap(s0, "Some %s" % v.term())
        whole = "(fold_range (fun %s %s => %s) %s %s %s)" % (iv, av, body, a.term, b.term, env[acc].term())
        env[acc] = StatV.of_term(self.bind(st, whole, "s"))
        return True

    # for item in reversed(data): if <test(item)>: return <expr(item)>
    def find_rev_idiom(self, st, env):
        if not (isinstance(st.iter, ast.Call) and isinstance(st.iter.func, ast.Name) and st.iter.func.id == "reversed"
                and len(st.iter.args) == 1 and isinstance(st.target, ast.Name) and not st.orelse):
            return None
        if not (len(st.body) == 1 and isinstance(st.body[0], ast.If) and not st.body[0].orelse
                and len(st.body[0].body) == 1 and isinstance(st.body[0].body[0], ast.Return)):
            fail(st, "reversed loop is not the scan-and-return idiom")
        data = self.ev(st.iter.args[0], env)
        if not isinstance(data, Tv):
            fail(st, "reversed(...) of a non-table")
        it = self.fresh("item")
        env2 = self.copy_env(env)
        env2[st.target.id] = Rv(it, data.minrow)
        self.pure += 1
        try:
            test = self.asB(self.ev(st.body[0].test, env2), st)
        finally:
            self.pure -= 1
        return "(find_rev (fun %s => %s) %s)" % (it, test, data.term), st.target.id, st.body[0].body[0], data.minrow

    # data = None; for item in tbl: (if test: data = item else: break)
    def scan_break_idiom(self, st, env):
        b = st.body
        if not (len(b) == 1 and isinstance(b[0], ast.If) and len(b[0].orelse) == 1 and isinstance(b[0].orelse[0], ast.Break)):
            return None
        if not (len(b[0].body) == 1 and isinstance(b[0].body[0], ast.Assign) and len(b[0].body[0].targets) == 1
                and isinstance(b[0].body[0].targets[0], ast.Name) and isinstance(b[0].body[0].value, ast.Name)
                and isinstance(st.target, ast.Name) and b[0].body[0].value.id == st.target.id and not st.orelse):
            fail(st, "loop with break is not the scan idiom")
        var = b[0].body[0].targets[0].id
        if not isinstance(env.get(var), Nv):
            fail(st, "scan variable must start as None")
        data = self.ev(st.iter, env)
        if not isinstance(data, Tv):
            fail(st, "scan over a non-table")
        it = self.fresh("item")
        env2 = self.copy_env(env)
        env2[st.target.id] = Rv(it, data.minrow)
        self.pure += 1
        try:
            test = self.asB(self.ev(b[0].test, env2), st)
        finally:
            self.pure -= 1
        env[var] = ORv("(scan_break (fun %s => %s) %s None)" % (it, test, data.term), data.minrow)
        return True


# ------------------------------------------------------------------ compiling whole functions
def strip_doc(body):
    return [s for s in body if not (isinstance(s, ast.Expr) and isinstance(s.value, ast.Constant))]


COQ_TY = {"M": "Meta", "Z": "Z", "B": "bool", "S": "SStat", "GT": "Z"}
RET_TY = {"Z": "Z", "B": "bool", "OZ": "option Z", "OS": "option SStat"}


def compile_fn(se: SE, key, self_cls=None):
    """key = (class or None, function name); registry[key] = (coq name, kind, sig)
    sig = [(python parameter | 'self.<field>', kind)] in Coq argument order."""
    cname, kind, sig = se.registry[key]
    fn = se.w.funcs[key[1]] if key[0] is None else se.w.method(key[0], key[1])[1]
    if fn is None:
        raise Unsupported("function %s.%s not found" % key)
    pyparams = [a.arg for a in fn.args.args if a.arg != "self"]
    declared = [p for p, _k in sig if not p.startswith("self.")]
    if pyparams != declared:
        raise Unsupported("%s: parameters %s, expected %s" % (cname, pyparams, declared))
    if fn.args.vararg or fn.args.kwarg or fn.args.kwonlyargs:
        fail(fn, "parameter kinds")
    env, binder = {}, []
    self_fields = {}
    for p, k in sig:
        if p.startswith("self."):
            cn = p[5:]
            self_fields[cn] = Zv(cn)
        else:
            cn = "unused_" + str(len(binder)) if p == "_" else p
            env[p] = {"M": Mv(cn), "Z": Zv(cn), "B": Bv(cn), "S": StatV.of_term(cn), "GT": GTv(cn)}[k]
        binder.append("(%s : %s)" % (cn, COQ_TY[k]))
    if key[0] is not None:
        env["self"] = GTv("v") if key[0] == "GearType" else Ov(self_cls or key[0], self_fields)
        if key[0] == "GearType":
            binder = ["(v : Z)"]
    se.partial_ok = kind.startswith("O")
    se.binds = []

    def ret(v, node):
        if kind == "Z" and isinstance(v, Zv):
            return v.term
        if kind == "B" and isinstance(v, Bv):
            return v.term
        if kind == "OZ" and isinstance(v, Zv):
            return "Some %s" % v.term
        if kind == "OS" and isinstance(v, StatV):
            return "Some %s" % v.term()
        fail(node, "%s returns a value of an unexpected kind" % cname)
    body = strip_doc(fn.body)
    term = se.block(body, env, ret)
    if se.binds:
        raise Unsupported("%s: dangling partial operations" % cname)
    return "Definition %s %s : %s :=\n  %s." % (cname, " ".join(binder), RET_TY[kind], term)


def compile_cutoff(se: SE):
    """Starforce.apply_star_cutoff(self, meta): the new value of self.star as a function of (meta, star)."""
    c, fn = se.w.method("Starforce", "apply_star_cutoff")
    if fn is None or [a.arg for a in fn.args.args] != ["self", "meta"]:
        raise Unsupported("apply_star_cutoff(self, meta) not found")
    obj = Ov("Starforce", {"star": Zv("star")})
    env = {"self": obj, "meta": Mv("meta")}
    se.pure += 1
    try:
        se.merge_block(strip_doc(fn.body), env)
    finally:
        se.pure -= 1
    v = obj.fields["star"]
    if not isinstance(v, Zv):
        raise Unsupported("apply_star_cutoff does not leave an integer in self.star")
    return "Definition g_cutoff (meta : Meta) (star : Z) : Z :=\n  %s." % v.term


# ------------------------------------------------------------------ blueprint composition (abstract stat blocks)
class BP:
    """GeneralizedGearBlueprint.build / PracticalGearBlueprint.translate_into_generalized_gear_blueprint as functions
    over an abstract stat type S with `add`/`zero`: each improvement object stands for the stat block its
    calculate_improvement(meta) returns; the star-force call is the oracle `sf ref_stat` (option: it may raise)."""

    LISTS = {"spell_traces": "traces", "scrolls": "scrolls", "bonuses": "bonuses"}

    def __init__(self, w: World):
        self.w = w
        self.n = 0

    def is_self_attr(self, e, *path):
        for a in reversed(path):
            if not (isinstance(e, ast.Attribute) and e.attr == a):
                return False
            e = e.value
        return isinstance(e, ast.Name) and e.id == "self"

    def improvement_list(self, e, env):
        """a ListComp  [x.calculate_improvement(self.meta) for x in <list>]  -> Coq list term"""
        if not (isinstance(e, ast.ListComp) and len(e.generators) == 1 and not e.generators[0].ifs
                and isinstance(e.generators[0].target, ast.Name)):
            fail(e, "list comprehension shape")
        g = e.generators[0]
        v = g.target.id
        c = e.elt
        if not (isinstance(c, ast.Call) and isinstance(c.func, ast.Attribute) and c.func.attr == "calculate_improvement"
                and isinstance(c.func.value, ast.Name) and c.func.value.id == v and len(c.args) == 1 and not c.keywords
                and self.is_self_attr(c.args[0], "meta")):
            fail(e, "element is not <x>.calculate_improvement(self.meta)")
        return self.obj_list(g.iter, env)

    def obj_list(self, e, env):
        if isinstance(e, ast.Attribute) and self.is_self_attr(e, e.attr) and e.attr in self.LISTS:
            return self.LISTS[e.attr]
        if isinstance(e, ast.Name) and isinstance(env.get(e.id), tuple) and env[e.id][0] == "L":
            return env[e.id][1]
        fail(e, "list of improvements expected")

    def expr(self, e, env, binds):
        # -> Coq term of type S
        if isinstance(e, ast.Name):
            if isinstance(env.get(e.id), tuple) and env[e.id][0] == "A":
                return env[e.id][1]
            fail(e, "stat-valued name expected")
        if isinstance(e, ast.BinOp) and isinstance(e.op, ast.Add):
            return "(add %s %s)" % (self.expr(e.left, env, binds), self.expr(e.right, env, binds))
        if isinstance(e, ast.Call):
            f = e.func
            if (isinstance(f, ast.Attribute) and f.attr == "model_copy" and not e.args and not e.keywords
                    and self.is_self_attr(f.value, "meta", "base_stat")):
                return "base"
            if isinstance(f, ast.Name) and f.id == "sum" and len(e.args) == 2 and not e.keywords:
                z = e.args[1]
                if not (isinstance(z, ast.Call) and isinstance(z.func, ast.Name) and z.func.id == "Stat" and not z.args and not z.keywords):
                    fail(e, "sum start value is not Stat()")
                return "(msum add zero %s)" % self.improvement_list(e.args[0], env)
            if isinstance(f, ast.Attribute) and f.attr == "calculate_improvement":
                if self.is_self_attr(f.value, "starforce"):
                    kw = {k.arg: k.value for k in e.keywords}
                    if not (len(e.args) == 1 and self.is_self_attr(e.args[0], "meta") and set(kw) == {"ref_stat"}):
                        fail(e, "starforce.calculate_improvement(self.meta, ref_stat=..) expected")
                    self.n += 1
                    v = "sf%d" % self.n
                    binds.append((v, "(sf %s)" % self.expr(kw["ref_stat"], env, binds)))
                    return v
                if self.is_self_attr(f.value, "exceptional_enhancement"):
                    if not (len(e.args) == 1 and self.is_self_attr(e.args[0], "meta") and not e.keywords):
                        fail(e, "exceptional_enhancement.calculate_improvement(self.meta) expected")
                    if not env.get("__exc__"):
                        fail(e, "exceptional enhancement used outside `if self.exceptional_enhancement:`")
                    return env["__exc__"]
        fail(e, "stat expression outside the modelled composition")

    def stmts(self, body, env, final):
        if not body:
            fail("build", "falls off its end")
        st, rest = body[0], body[1:]
        if isinstance(st, ast.Return):
            return final(st, env)
        if isinstance(st, ast.If) and not st.orelse and self.is_self_attr(st.test, "exceptional_enhancement"):
            # the branch only updates stat-valued locals: translate both ways and continue
            ea = dict(env)
            ea["__exc__"] = "e"
            ta = self.stmts(st.body + rest, ea, final)
            tb = self.stmts(rest, dict(env), final)
            return "match exc with Some e => %s | None => %s end" % (ta, tb)
        if isinstance(st, ast.AugAssign) and isinstance(st.op, ast.Add) and isinstance(st.target, ast.Name):
            binds = []
            t = "(add %s %s)" % (self.expr(ast.Name(id=st.target.id, ctx=ast.Load()), env, binds), self.expr(st.value, env, binds))
            return self.let(st.target.id, t, binds, rest, env, final)
        if isinstance(st, ast.Assign) and len(st.targets) == 1 and isinstance(st.targets[0], ast.Name):
            name, val = st.targets[0].id, st.value
            # opaque helpers that never carry stats
            if isinstance(val, ast.Call) and not val.args and not val.keywords and (
                    (isinstance(val.func, ast.Name) and val.func.id == "BonusFactory") or
                    (isinstance(val.func, ast.Attribute) and isinstance(val.func.value, ast.Name)
                     and val.func.value.id == "PotentialTierTable")):
                env = dict(env)
                env[name] = ("X",)
                return self.stmts(rest, env, final)
            if isinstance(val, ast.ListComp):
                g = val.generators
                c = val.elt
                if (len(g) == 1 and not g[0].ifs and isinstance(c, ast.Call) and isinstance(c.func, ast.Name)
                        and c.func.id == "_get_bonus_from_spec" and len(c.args) == 2 and isinstance(c.args[1], ast.Name)
                        and isinstance(g[0].target, ast.Name) and c.args[1].id == g[0].target.id):
                    env = dict(env)
                    env[name] = ("L", self.obj_list(g[0].iter, env))
                    return self.stmts(rest, env, final)
                fail(st, "list comprehension outside the modelled composition")
            binds = []
            t = self.expr(val, env, binds)
            return self.let(name, t, binds, rest, env, final)
        fail(st, "statement outside the modelled composition")

    def let(self, name, t, binds, rest, env, final):
        self.n += 1
        v = "%s%d" % (name, self.n)
        env = dict(env)
        env[name] = ("A", v)
        out = "let %s := %s in %s" % (v, t, self.stmts(rest, env, final))
        for b, o in reversed(binds):
            out = "match %s with None => None | Some %s => %s end" % (o, b, out)
        return out

    def build(self):
        c, fn = self.w.method("GeneralizedGearBlueprint", "build")
        if fn is None or [a.arg for a in fn.args.args] != ["self"]:
            raise Unsupported("GeneralizedGearBlueprint.build(self) not found")

        def final(st, env):
            v = st.value
            if not (isinstance(v, ast.Call) and isinstance(v.func, ast.Name) and v.func.id == "Gear" and not v.args):
                fail(st, "build must return Gear(...)")
            kw = {k.arg: k.value for k in v.keywords}
            if not ("meta" in kw and self.is_self_attr(kw["meta"], "meta")):
                fail(st, "Gear(meta=self.meta, ..) expected")
            if "stat" not in kw:
                fail(st, "Gear(stat=..) expected")
            return "Some %s" % self.expr(kw["stat"], env, [])
        term = self.stmts(strip_doc(fn.body), {}, final)
        return ("Definition g_build {S : Type} (add : S -> S -> S) (zero : S) (sf : S -> option S)\n"
                "    (base : S) (traces scrolls bonuses : list S) (exc : option S) : option S :=\n  %s." % term)

    def practical(self, se: SE):
        """-> Definition g_practical: (spell_traces, scrolls, star) handed to GeneralizedGearBlueprint"""
        c, fn = self.w.method("PracticalGearBlueprint", "translate_into_generalized_gear_blueprint")
        if fn is None or [a.arg for a in fn.args.args] != ["self"]:
            raise Unsupported("translate_into_generalized_gear_blueprint(self) not found")
        env = {}       # name -> ('LS', term) list of S | ('SF', star term)

        def rep(e):
            # [self.<f> for i in range(self.meta.max_scroll_chance)]
            if not (isinstance(e, ast.ListComp) and len(e.generators) == 1 and not e.generators[0].ifs):
                fail(e, "repeat comprehension")
            g = e.generators[0]
            if not (isinstance(g.iter, ast.Call) and isinstance(g.iter.func, ast.Name) and g.iter.func.id == "range"
                    and len(g.iter.args) == 1 and self.is_self_attr(g.iter.args[0], "meta", "max_scroll_chance")):
                fail(e, "range(self.meta.max_scroll_chance) expected")
            if self.is_self_attr(e.elt, "spell_trace"):
                return "t"
            if self.is_self_attr(e.elt, "scroll"):
                return "s"
            fail(e, "repeated element")

        def isnotnone(t, attr):
            return (isinstance(t, ast.Compare) and len(t.ops) == 1 and isinstance(t.ops[0], ast.IsNot)
                    and self.is_self_attr(t.left, attr) and isinstance(t.comparators[0], ast.Constant)
                    and t.comparators[0].value is None)

        def assign_in(body, env, bound):
            env = dict(env)
            for s in body:
                if not (isinstance(s, ast.Assign) and len(s.targets) == 1 and isinstance(s.targets[0], ast.Name)):
                    fail(s, "assignment expected")
                x = rep(s.value)
                if x != bound:
                    fail(s, "comprehension repeats an attribute that was not tested against None")
                env[s.targets[0].id] = ("LS", "(repeat %s (Z.to_nat (m_tuc meta)))" % x)
            return env

        def go(body, env):
            if not body:
                fail("translate", "falls off its end")
            st, rest = body[0], body[1:]
            if isinstance(st, ast.Assign) and len(st.targets) == 1 and isinstance(st.targets[0], ast.Name):
                name, val = st.targets[0].id, st.value
                if isinstance(val, ast.List) and not val.elts:
                    env = dict(env)
                    env[name] = ("LS", "[]")
                    return go(rest, env)
                if isinstance(val, ast.Call) and isinstance(val.func, ast.Name) and val.func.id == "Starforce" and not val.args:
                    kw = {k.arg: k.value for k in val.keywords}
                    if not (set(kw) <= {"enhancement_type", "star"} and "star" in kw and self.is_self_attr(kw["star"], "star")):
                        fail(st, "Starforce(enhancement_type=.., star=self.star) expected")
                    env = dict(env)
                    env[name] = ("SF", "star")
                    return go(rest, env)
                fail(st, "assignment outside the modelled translation")
            if isinstance(st, ast.If):
                if not isnotnone(st.test, "spell_trace"):
                    fail(st, "`if self.spell_trace is not None` expected")
                e1 = assign_in(st.body, env, "t")
                oe = st.orelse
                if len(oe) == 1 and isinstance(oe[0], ast.If) and isnotnone(oe[0].test, "scroll") and not oe[0].orelse:
                    e2 = assign_in(oe[0].body, env, "s")
                    e3 = env
                elif not oe:
                    e2 = e3 = env
                else:
                    fail(st, "elif self.scroll is not None expected")
                return ("match trace with Some t => %s | None => match scroll with Some s => %s | None => %s end end"
                        % (go(rest, e1), go(rest, e2), go(rest, e3)))
            if (isinstance(st, ast.Expr) and isinstance(st.value, ast.Call) and isinstance(st.value.func, ast.Attribute)
                    and isinstance(st.value.func.value, ast.Name) and isinstance(env.get(st.value.func.value.id), tuple)
                    and env[st.value.func.value.id][0] == "SF"):
                c = st.value
                if not (c.func.attr == "apply_star_cutoff" and len(c.args) == 1 and self.is_self_attr(c.args[0], "meta") and not c.keywords):
                    fail(st, "starforce.apply_star_cutoff(self.meta) expected")
                env = dict(env)
                env[c.func.value.id] = ("SF", "(g_cutoff meta %s)" % env[c.func.value.id][1])
                return go(rest, env)
            if isinstance(st, ast.Return):
                v = st.value
                if not (isinstance(v, ast.Call) and isinstance(v.func, ast.Name) and v.func.id == "GeneralizedGearBlueprint" and not v.args):
                    fail(st, "return GeneralizedGearBlueprint(...) expected")
                kw = {k.arg: k.value for k in v.keywords}
                need = {"meta", "spell_traces", "scrolls", "starforce", "bonuses"}
                if not need <= set(kw) or "exceptional_enhancement" in kw:
                    fail(st, "keywords of GeneralizedGearBlueprint(...)")
                if not (self.is_self_attr(kw["meta"], "meta") and self.is_self_attr(kw["bonuses"], "bonuses")):
                    fail(st, "meta=self.meta, bonuses=self.bonuses expected")
                out = []
                for k, tag in (("spell_traces", "LS"), ("scrolls", "LS"), ("starforce", "SF")):
                    e = kw[k]
                    if not (isinstance(e, ast.Name) and isinstance(env.get(e.id), tuple) and env[e.id][0] == tag):
                        fail(st, "%s= must be the local built above" % k)
                    out.append(env[e.id][1])
                return "(%s, %s, %s)" % tuple(out)
            fail(st, "statement outside the modelled translation")
        term = go(strip_doc(fn.body), env)
        return ("Definition g_practical {S : Type} (meta : Meta) (trace scroll : option S) (star : Z) : list S * list S * Z :=\n  %s." % term)


# ------------------------------------------------------------------ checks on core/base.py
def check_base(w: World):
    st = w.classes.get("Stat")
    if st is None:
        raise Unsupported("class Stat not found")
    sp = w.enums.get("StatProps")
    if sp is None:
        raise Unsupported("enum StatProps not found")
    for py, _ in FIELDS:
        if sp.get(py) != py:
            raise Unsupported("StatProps.%s.value is not %r" % (py, py))
    ann = {s.target.id: s for s in st.body if isinstance(s, ast.AnnAssign) and isinstance(s.target, ast.Name)}
    for py, _ in FIELDS:
        a = ann.get(py)
        if a is None or ast.unparse(a.annotation) != "float" or not (isinstance(a.value, ast.Constant) and a.value.value == 0.0):
            raise Unsupported("Stat.%s is not `float = 0.0`" % py)
    c, get = w.method("Stat", "get")
    if get is None or ast.unparse(strip_doc(get.body)[0]) != "return getattr(self, prop.value)":
        raise Unsupported("Stat.get is not `return getattr(self, prop.value)`")
    c, add = w.method("Stat", "__add__")
    body = strip_doc(add.body) if add else []
    if not (len(body) == 1 and isinstance(body[0], ast.Return) and isinstance(body[0].value, ast.Call)
            and isinstance(body[0].value.func, ast.Name) and body[0].value.func.id == "Stat"):
        raise Unsupported("Stat.__add__ is not `return Stat(...)`")
    other = add.args.args[1].arg
    kw = {k.arg: ast.unparse(k.value) for k in body[0].value.keywords}
    for py, _ in FIELDS:
        if kw.get(py) != "self.%s + %s.%s" % (py, other, py):
            raise Unsupported("Stat.__add__ does not add field %s plainly" % py)
    c, iadd = w.method("Stat", "__iadd__")
    if iadd is None:
        raise Unsupported("Stat.__iadd__ not found")
    other = iadd.args.args[1].arg
    lines = {ast.unparse(s) for s in iadd.body}
    for py, _ in FIELDS:
        if "self.%s += %s.%s" % (py, other, py) not in lines:
            raise Unsupported("Stat.__iadd__ does not add field %s plainly" % py)
    if ast.unparse(iadd.body[-1]) != "return self":
        raise Unsupported("Stat.__iadd__ does not return self")


TABLES = ["__superior_att_increments", "__superior_stat_increments", "__starforce_weapon_att_increments",
          "__starforce_att_increments", "__starforce_stat_increments", "__amazing_att_increments",
          "__amazing_stat_increments"]
ROWS = ["_glove_starforce_bonus", "_mhp_starforce_bonus"]
GT_PREDS = ["is_left_weapon", "is_double_hand_weapon", "is_weapon", "is_improved_as_weapon",
            "is_mechanic_gear", "is_dragon_gear"]
MSG = [("meta", "M"), ("target_star", "Z"), ("current_gear_stat", "S")]


def coq_rows(rows):
    return "[\n  " + ";\n  ".join("[" + "; ".join(zlit(x) for x in r) + "]" for r in rows) + "]"


def gen(repo):
    w = World(repo)
    w.load("core/base.py")
    check_base(w)
    w.load("gear/gear_type.py")
    w.load("gear/improvements/starforce_configuration.py")
    w.load("gear/improvements/starforce.py")
    se = SE(w)
    out = ["(* GENERATED by tools/tr_starforce.py from simaple/gear/gear_type.py, gear/improvements/starforce_configuration.py,",
           "   gear/improvements/starforce.py, gear/blueprint/gear_blueprint.py -- regenerated on every run, do not edit *)",
           "From Coq Require Import ZArith QArith Qround List Bool.", "From V.Model Require Import SfBase SfBlueprint.",
           "Import ListNotations.", "Open Scope Z_scope.", ""]
    meta = {"tables": {}, "rows": {}, "defs": [], "files": None}
    # ---- tables
    for t in TABLES:
        if t not in w.consts or not is_int_table(w.consts[t]):
            raise Unsupported("table %s is missing or not a literal list of int lists" % t)
        rows = ast.literal_eval(w.consts[t])
        cn = "t_" + t.strip("_")
        se.tables[t] = (cn, rows)
        meta["tables"][cn] = rows
        out.append("Definition %s : list (list Z) := %s." % (cn, coq_rows(rows)))
    for t in ROWS:
        if t not in w.consts or not is_int_row(w.consts[t]):
            raise Unsupported("row %s is missing or not a literal int list" % t)
        vals = ast.literal_eval(w.consts[t])
        cn = "t_" + t.strip("_")
        se.rows[t] = (cn, vals)
        meta["rows"][cn] = vals
        out.append("Definition %s : list Z := [%s]." % (cn, "; ".join(zlit(x) for x in vals)))
    out.append("")
    # ---- registry
    for p in GT_PREDS:
        se.registry[("GearType", p)] = ("gt_" + p, "B", [])
    se.registry[("Enhancement", "max_star")] = ("g_max_star", "Z", [("meta", "M")])
    se.registry[(None, "get_starforce_increment")] = ("g_get_starforce_increment", "OZ",
                                                       [("meta", "M"), ("target_star", "Z"), ("amazing_scroll", "B"), ("att", "B")])
    provs = [("StarforceStatIncrementProvider", "get_increment", "g_stat_increment", MSG),
             ("StarforceAttackIncrementProvider", "_get_weapon_starforce_increment", "g_weapon_att_increment", MSG),
             ("StarforceAttackIncrementProvider", "get_increment", "g_att_increment", MSG),
             ("HpMpIncrementProvider", "get_increment", "g_hpmp_increment", [("meta", "M"), ("target_star", "Z"), ("_", "S")]),
             ("GloveIncrementProvider", "get_increment", "g_glove_increment", [("meta", "M"), ("target_star", "Z"), ("_", "S")]),
             ("SuperiorIncrementProvider", "get_increment", "g_superior_increment", [("meta", "M"), ("target_star", "Z"), ("_", "S")])]
    for c, m, cn, sig in provs:
        se.registry[(c, m)] = (cn, "OS", sig)
    se.registry[("Starforce", "get_single_starforce_improvement")] = (
        "g_single", "OS", [("meta", "M"), ("ref_stat", "S"), ("target_star", "Z"), ("current_improvement", "S")])
    se.registry[("Starforce", "calculate_improvement")] = (
        "g_calc", "OS", [("meta", "M"), ("ref_stat", "S"), ("self.star", "Z")])
    defs = []
    for p in GT_PREDS:
        defs.append(compile_fn(se, ("GearType", p)))
    defs.append(compile_fn(se, ("Enhancement", "max_star")))
    defs.append(compile_fn(se, (None, "get_starforce_increment")))
    for c, m, cn, sig in provs:
        defs.append(compile_fn(se, (c, m)))
    defs.append(compile_fn(se, ("Starforce", "get_single_starforce_improvement")))
    defs.append(compile_fn(se, ("Starforce", "calculate_improvement")))
    defs.append(compile_cutoff(se))
    for cn, rows in se.local_tables.items():
        out.append("Definition %s : list (list Z) := %s." % (cn, coq_rows(rows)))
        meta["tables"][cn] = rows
    out.append("")
    # ---- blueprint
    w.load("gear/blueprint/gear_blueprint.py")
    bp = BP(w)
    defs.append(bp.build())
    defs.append(bp.practical(se))
    for d in defs:
        out.append(d)
        out.append("")
        meta["defs"].append(d.split()[1])
    meta["files"] = list(w.files)
    meta["gear_types"] = {k: v for k, v in w.enums["GearType"].items()}
    return {"SfGen.v": "\n".join(out)}, meta


if __name__ == "__main__":
    files, meta = gen(sys.argv[1] if len(sys.argv) > 1 else "/repo")
    for n, t in files.items():
        open("/tmp/" + n, "w").write(t)
        print(t)
