"""T-isolation -- fail-closed reader of everything in simaple's simulation path that could make a
result depend on anything but (job, environment, plan): entropy sources and process-wide state.

Reads with Python `ast` (nothing is imported or executed) every module under
    simaple/simulate/**  simaple/spec/**  simaple/data/jobs/**
plus the other files the property is anchored in (EXTRA below) and emits  gen/Isolation.v :

  iso_modules        the files read (a file appearing or disappearing changes the list)
  iso_imports        (module, imported dotted name) for every import statement at any depth
                     (`from a.b import c` is recorded as "a.b.c"; relative imports are resolved)
  iso_uses           (module, dotted name) for every attribute read `<m>.<attr>` on an imported
                     module object of the dual-use modules os / sys / math / hashlib / inspect / functools,
                     and (module, "builtin:<f>") for every call of hash / id / input / open / eval /
                     exec / globals / vars / __import__ / getattr-less reflection is NOT tracked
  iso_state          (module, qualified name, kind) for every piece of process-wide state:
                       module-level or class-level assignment whose value is not provably immutable
                         kind = dict | list | set | call:<callee>   (classification below)
                       `global x` / `nonlocal x` inside a function       kind = global / nonlocal
                       function or method decorated with something called *cache* / memo*  kind = memo:<decorator>
                       mutable default argument (literal or list()/dict()/set())             kind = default-arg:<arg>
                       module-level statement that is a bare call (runs at import)           kind = import-time-call:<callee>
                       module-level loop / with / augmented assignment                       kind = import-time-stmt:<type>
  iso_repo_get / iso_repo_get_all / iso_interpret / iso_helpers
                     shape of DirectorySpecRepository.get / get_all and Spec.interpret (and of the methods
                     of the same class they reach through self.<m>(...)): what each `return` hands out, what
                     `data` is bound to, which containers are mutated in place and what is written through
                     an attribute or subscript (see `method_shape`)

Coq (Model/IsolationSpec.v + Proofs/IsolationP.v) decides by vm_compute: no import/use is on the entropy
blacklist; the state list, minus the callees reviewed as constructing immutable values, EQUALS the reviewed
list; the repository and Spec.interpret hand out copies only and never write through self.

Anything this reader does not recognise raises TranslationError (= broken obligation).
"""
from __future__ import annotations

import ast
import os

PACKAGES = ["simaple/simulate", "simaple/spec", "simaple/data/jobs"]
EXTRA = [
    "simaple/gear/blueprint/potential_blueprint.py",
    "simaple/container/simulation.py",
    "simaple/container/plan_metadata.py",
    "simaple/api/base.py",
    "simaple/api/dev.py",
]
DUAL_USE = {"os", "sys", "math", "hashlib", "inspect", "functools", "itertools", "copy", "re", "pathlib", "yaml", "json"}
BUILTIN_WATCH = {"hash", "id", "input", "open", "eval", "exec", "globals", "vars", "__import__", "compile", "breakpoint"}
REPO_FILE = "simaple/spec/repository.py"
SPEC_FILE = "simaple/spec/spec.py"


class TranslationError(Exception):
    pass


def fail(msg, path=None, node=None):
    where = ""
    if path:
        where += " in %s" % path
    if node is not None and hasattr(node, "lineno"):
        where += " line %d" % node.lineno
    raise TranslationError(msg + where)


def dotted(node):
    """a.b.c for Name/Attribute chains, else None"""
    parts = []
    while isinstance(node, ast.Attribute):
        parts.append(node.attr)
        node = node.value
    if isinstance(node, ast.Name):
        parts.append(node.id)
        return ".".join(reversed(parts))
    return None


def callee_name(call: ast.Call) -> str:
    d = dotted(call.func)
    if d is not None:
        return d
    if isinstance(call.func, ast.Call):              # f(...)(...)
        return callee_name(call.func) + "()"
    if isinstance(call.func, ast.Subscript):
        d = dotted(call.func.value)
        if d is not None:
            return d + "[]"
    return "<expr>"


# ------------------------------------------------------------------------------ value classification
IMMUTABLE_NODES = (ast.Constant, ast.Name, ast.Attribute, ast.JoinedStr, ast.Lambda, ast.Compare)


def classify(v, path):
    """None = provably immutable / an alias of something that exists already; else a kind string."""
    if isinstance(v, IMMUTABLE_NODES):
        return None
    if isinstance(v, (ast.Dict, ast.DictComp)):
        return "dict"
    if isinstance(v, (ast.List, ast.ListComp)):
        return "list"
    if isinstance(v, (ast.Set, ast.SetComp)):
        return "set"
    if isinstance(v, ast.GeneratorExp):
        return "call:generator"
    if isinstance(v, ast.Call):
        return "call:" + callee_name(v)
    if isinstance(v, ast.Subscript):
        # typing aliases `dict[str, int]`, `Callable[[X], Y]`, `Optional[X]`: a subscript of a name
        if dotted(v.value) is not None:
            return None
        return classify(v.value, path)
    if isinstance(v, ast.Tuple):
        ks = [classify(e, path) for e in v.elts]
        ks = [k for k in ks if k]
        return ks[0] if ks else None
    if isinstance(v, (ast.BinOp,)):
        ks = [k for k in (classify(v.left, path), classify(v.right, path)) if k]
        return ks[0] if ks else None
    if isinstance(v, ast.UnaryOp):
        return classify(v.operand, path)
    if isinstance(v, ast.BoolOp):
        ks = [k for k in (classify(e, path) for e in v.values) if k]
        return ks[0] if ks else None
    if isinstance(v, ast.IfExp):
        ks = [k for k in (classify(v.body, path), classify(v.orelse, path)) if k]
        return ks[0] if ks else None
    fail("module/class-level value of unrecognised form %s" % type(v).__name__, path, v)


def mutable_default(v):
    if isinstance(v, (ast.Dict, ast.List, ast.Set, ast.DictComp, ast.ListComp, ast.SetComp)):
        return True
    if isinstance(v, ast.Call) and callee_name(v) in ("list", "dict", "set", "defaultdict", "collections.defaultdict",
                                                       "OrderedDict", "deque", "collections.deque", "bytearray"):
        return True
    return False


def is_memo_decorator(d) -> str | None:
    n = d
    if isinstance(n, ast.Call):
        n = n.func
    name = dotted(n)
    if name is None:
        return "<expr>"
    last = name.split(".")[-1].lower()
    if "cache" in last or "memo" in last or last in ("singleton", "once"):
        return name
    return None


# ------------------------------------------------------------------------------ one module
class ModuleScan:
    def __init__(self, repo, rel):
        self.rel = rel
        self.path = os.path.join(repo, rel)
        self.mod = rel[:-3].replace("/", ".")
        if self.mod.endswith(".__init__"):
            self.mod = self.mod[: -len(".__init__")]
            self.pkg = self.mod
        else:
            self.pkg = self.mod.rsplit(".", 1)[0]
        self.tree = ast.parse(open(self.path, encoding="utf8").read(), filename=self.path)
        self.imports = []      # dotted names
        self.uses = []
        self.enums = []          # directory enumerations whose order reaches the caller: (call text) not directly inside sorted(...)
        self.state = []        # (qualname, kind)
        self.aliases = {}      # local name -> module dotted name (for dual-use attribute tracking)
        self.scan_imports()
        self.scan_uses()
        self.scan_enumerations()
        self.scan_body(self.tree.body, "", module_level=True)

    # ---- imports (any depth)
    def scan_imports(self):
        for n in ast.walk(self.tree):
            if isinstance(n, ast.Import):
                for a in n.names:
                    self.imports.append(a.name)
                    self.aliases[a.asname or a.name.split(".")[0]] = a.name if a.asname else a.name.split(".")[0]
            elif isinstance(n, ast.ImportFrom):
                base = n.module or ""
                if n.level:
                    pk = self.pkg.split(".")
                    if n.level - 1 > len(pk):
                        fail("relative import beyond the top package", self.rel, n)
                    pk = pk[: len(pk) - (n.level - 1)]
                    base = ".".join(pk + ([base] if base else []))
                for a in n.names:
                    if a.name == "*":
                        self.imports.append(base + ".*")
                    else:
                        self.imports.append(base + "." + a.name)
                        self.aliases[a.asname or a.name] = base + "." + a.name

    # ---- directory enumerations: their order is the file system's, not the program's
    ENUM_METHODS = ("rglob", "glob", "iglob", "iterdir", "listdir", "scandir", "walk")

    def scan_enumerations(self):
        parents = {}
        for n in ast.walk(self.tree):
            for c in ast.iter_child_nodes(n):
                parents[c] = n
        for n in ast.walk(self.tree):
            if not isinstance(n, ast.Call):
                continue
            f = n.func
            name = f.attr if isinstance(f, ast.Attribute) else (f.id if isinstance(f, ast.Name) else None)
            if name not in self.ENUM_METHODS:
                continue
            par = parents.get(n)
            wrapped = (isinstance(par, ast.Call) and isinstance(par.func, ast.Name) and par.func.id == "sorted" and par.args and par.args[0] is n)
            if not wrapped:
                self.enums.append("%s:%d" % (name, n.lineno) if False else name)

    # ---- uses of dual-use modules and watched builtins
    def scan_uses(self):
        shadow = set()
        for n in ast.walk(self.tree):
            if isinstance(n, (ast.FunctionDef, ast.AsyncFunctionDef, ast.ClassDef)):
                shadow.add(n.name)
            elif isinstance(n, ast.arg):
                shadow.add(n.arg)
            elif isinstance(n, ast.Name) and isinstance(n.ctx, ast.Store):
                shadow.add(n.id)
        for n in ast.walk(self.tree):
            if isinstance(n, ast.Attribute):
                d = dotted(n)
                if d is None:
                    continue
                head = d.split(".")[0]
                target = self.aliases.get(head)
                if target is None:
                    continue
                full = target + d[len(head):]
                if full.split(".")[0] in DUAL_USE:
                    # record to depth 2 (os.path.join -> os.path)
                    self.uses.append(".".join(full.split(".")[:2]))
            elif isinstance(n, ast.Call) and isinstance(n.func, ast.Name):
                f = n.func.id
                if f in BUILTIN_WATCH and f not in shadow and f not in self.aliases:
                    self.uses.append("builtin:" + f)
                elif f in self.aliases and self.aliases[f].split(".")[0] in DUAL_USE:
                    self.uses.append(self.aliases[f])

    # ---- state
    def add(self, qual, kind):
        self.state.append((qual, kind))

    def scan_function(self, fn, prefix):
        qual = prefix + fn.name
        for d in fn.decorator_list:
            m = is_memo_decorator(d)
            if m:
                self.add(qual, "memo:" + m)
        a = fn.args
        pos = a.posonlyargs + a.args
        for arg, dv in zip(pos[len(pos) - len(a.defaults):], a.defaults):
            if mutable_default(dv):
                self.add(qual, "default-arg:" + arg.arg)
        for arg, dv in zip(a.kwonlyargs, a.kw_defaults):
            if dv is not None and mutable_default(dv):
                self.add(qual, "default-arg:" + arg.arg)
        for n in ast.walk(fn):
            if isinstance(n, ast.Global):
                for name in n.names:
                    self.add(qual, "global:" + name)
            elif isinstance(n, ast.Nonlocal):
                for name in n.names:
                    self.add(qual, "nonlocal:" + name)
        # nested defs (their decorators / defaults / classes)
        for n in fn.body:
            self.scan_nested(n, qual + ".")

    def scan_nested(self, n, prefix):
        if isinstance(n, (ast.FunctionDef, ast.AsyncFunctionDef)):
            self.scan_function(n, prefix)
        elif isinstance(n, ast.ClassDef):
            self.scan_class(n, prefix)
        else:
            for c in ast.iter_child_nodes(n):
                if isinstance(c, (ast.stmt,)):
                    self.scan_nested(c, prefix)
                elif isinstance(c, (ast.ExceptHandler, ast.match_case)):
                    for s in c.body:
                        self.scan_nested(s, prefix)

    def scan_class(self, cls, prefix):
        qual = prefix + cls.name
        for d in cls.decorator_list:
            m = is_memo_decorator(d)
            if m:
                self.add(qual, "memo:" + m)
        self.scan_body(cls.body, qual + ".", module_level=False)

    def targets(self, t):
        if isinstance(t, ast.Name):
            return [t.id]
        if isinstance(t, (ast.Tuple, ast.List)):
            return sum((self.targets(e) for e in t.elts), [])
        if isinstance(t, (ast.Attribute, ast.Subscript)):
            d = dotted(t.value) if isinstance(t, ast.Subscript) else dotted(t)
            return ["<write>" + (d or "?")]
        if isinstance(t, ast.Starred):
            return self.targets(t.value)
        fail("assignment target of unrecognised form", self.rel, t)

    def scan_body(self, body, prefix, module_level):
        for n in body:
            if isinstance(n, (ast.Import, ast.ImportFrom, ast.Pass)):
                continue
            if isinstance(n, (ast.FunctionDef, ast.AsyncFunctionDef)):
                self.scan_function(n, prefix)
            elif isinstance(n, ast.ClassDef):
                self.scan_class(n, prefix)
            elif isinstance(n, ast.Assign):
                k = classify(n.value, self.rel)
                for t in n.targets:
                    for name in self.targets(t):
                        if name.startswith("<write>"):
                            self.add(prefix + name, "import-time-write")
                        elif k:
                            self.add(prefix + name, k)
            elif isinstance(n, ast.AnnAssign):
                if n.value is None:
                    continue
                k = classify(n.value, self.rel)
                for name in self.targets(n.target):
                    if name.startswith("<write>"):
                        self.add(prefix + name, "import-time-write")
                    elif k:
                        self.add(prefix + name, k)
            elif isinstance(n, ast.AugAssign):
                self.add(prefix + (dotted(n.target) or "?"), "import-time-stmt:AugAssign")
            elif isinstance(n, ast.Expr):
                if isinstance(n.value, ast.Constant):
                    continue                               # docstring / `...`
                if isinstance(n.value, ast.Call):
                    self.add(prefix + "<stmt>", "import-time-call:" + callee_name(n.value))
                else:
                    fail("expression statement of unrecognised form at import time", self.rel, n)
            elif isinstance(n, (ast.If, ast.Try)):
                # conditional definitions (TYPE_CHECKING, optional imports): same rules inside
                for blk in [n.body, n.orelse] + ([h.body for h in n.handlers] + [n.finalbody] if isinstance(n, ast.Try) else []):
                    self.scan_body(blk, prefix, module_level)
            elif isinstance(n, (ast.For, ast.While, ast.With, ast.Delete, ast.Assert, ast.Raise)):
                self.add(prefix + "<stmt>", "import-time-stmt:" + type(n).__name__)
            else:
                fail("%s-level statement of unrecognised form %s" % ("module" if module_level else "class", type(n).__name__),
                     self.rel, n)


# ------------------------------------------------------------------------------ repository / Spec shapes
def find_method(tree, cls, meth, rel):
    for c in tree.body:
        if isinstance(c, ast.ClassDef) and c.name == cls:
            for m in c.body:
                if isinstance(m, ast.FunctionDef) and m.name == meth:
                    return m
    fail("method %s.%s not found" % (cls, meth), rel)


COPY_CALLS = {"copy.deepcopy": "deepcopy", "deepcopy": "deepcopy", "copy.copy": "shallow-copy", "dict": "dict-copy", "list": "list-copy"}
MUTATORS = {"append", "extend", "insert", "pop", "remove", "clear", "update", "setdefault", "popitem", "sort", "reverse",
            "add", "discard", "__setitem__", "__delitem__"}


def expr_shape(e, fresh, rel):
    """what an expression hands out: none | copy:<how>(<of>) | fresh:<name> | apply:<...> | alias:<dotted> | other"""
    if isinstance(e, ast.Constant) and e.value is None:
        return "none"
    if isinstance(e, ast.Call):
        f = e.func
        if isinstance(f, ast.Attribute) and f.attr in ("model_copy", "copy", "deepcopy"):
            deep = any(k.arg == "deep" and isinstance(k.value, ast.Constant) and k.value.value is True for k in e.keywords)
            how = {"model_copy": "model_copy", "copy": "shallow-copy", "deepcopy": "deepcopy"}[f.attr] + ("-deep" if deep else "")
            return "copy:%s(%s)" % (how, dotted(f.value) or "?")
        c = callee_name(e)
        if c in COPY_CALLS and len(e.args) == 1:
            return "copy:%s(%s)" % (COPY_CALLS[c], dotted(e.args[0]) or "?")
        if isinstance(f, ast.Attribute) and f.attr == "apply" and len(e.args) == 1:
            return "apply:%s(%s)" % (dotted(f.value) or "?", expr_shape(e.args[0], fresh, rel))
        return "call:" + c
    d = dotted(e)
    if d is not None:
        if d in fresh:
            return "fresh:" + d
        return "alias:" + d
    if isinstance(e, (ast.List, ast.Dict, ast.ListComp, ast.DictComp, ast.Tuple)):
        return "literal"
    return "other:" + type(e).__name__


def method_shape(fn, rel):
    """Ordered description of what a method hands out and what it writes, as triples (op, subject, shape):
         ("bind",   local name,                 shape of the value bound)
         ("return", "",                         shape of the value returned)
         ("mutate", [fresh:]target.method,      shapes of the arguments)     in-place container method call
         ("write",  dotted target,              "")                          assignment / del through an attribute or subscript
         ("call",   callee,                     "")                          other expression statement
       shape = none | copy:<how>(<of>) | fresh:<local> | apply:<obj>(<shape>) | alias:<dotted> | call:<callee> | literal | other:<node>
       `fresh` = locals currently bound to a new container / a copy / the result of <patch>.apply made in this method."""
    out = []
    fresh = {}

    def target_name(t):
        if isinstance(t, ast.Subscript):
            return dotted(t.value) or "?"
        return dotted(t) or "?"

    def note_assign(name, value):
        sh = expr_shape(value, fresh, rel)
        if sh == "literal" or sh.startswith("copy:") or sh.startswith("apply:"):
            fresh[name] = sh
        elif name in fresh:
            del fresh[name]
        out.append(("bind", name, sh))

    def assign_target(t, value):
        if isinstance(t, ast.Name):
            note_assign(t.id, value)
        elif isinstance(t, (ast.Tuple, ast.List)):
            for e in t.elts:
                if isinstance(e, ast.Name):
                    fresh.pop(e.id, None)
                    out.append(("bind", e.id, "unpacked:" + expr_shape(value, fresh, rel)))
                else:
                    out.append(("write", target_name(e), ""))
        else:
            out.append(("write", target_name(t), ""))

    def walk(stmts):
        for s in stmts:
            if isinstance(s, ast.Assign):
                for t in s.targets:
                    assign_target(t, s.value)
            elif isinstance(s, ast.AnnAssign):
                if s.value is not None:
                    assign_target(s.target, s.value)
            elif isinstance(s, ast.AugAssign):
                if isinstance(s.target, ast.Name):
                    out.append(("bind", s.target.id, "augmented"))
                else:
                    out.append(("write", target_name(s.target), ""))
            elif isinstance(s, ast.Delete):
                for t in s.targets:
                    out.append(("write", target_name(t), ""))
            elif isinstance(s, ast.Return):
                out.append(("return", "", expr_shape(s.value, fresh, rel) if s.value is not None else "none"))
            elif isinstance(s, ast.Expr) and isinstance(s.value, ast.Constant):
                continue
            elif isinstance(s, ast.Expr) and isinstance(s.value, ast.Call):
                f = s.value.func
                if isinstance(f, ast.Attribute) and f.attr in MUTATORS:
                    tgt = dotted(f.value) or "?"
                    args = ",".join(expr_shape(a, fresh, rel) for a in s.value.args)
                    out.append(("mutate", ("fresh:" if tgt in fresh else "") + tgt + "." + f.attr, args))
                else:
                    out.append(("call", callee_name(s.value), ""))
            elif isinstance(s, (ast.For, ast.While)):
                if isinstance(s, ast.For):
                    for n in ast.walk(s.target):
                        if isinstance(n, ast.Name):
                            fresh.pop(n.id, None)
                walk(s.body)
                walk(s.orelse)
            elif isinstance(s, ast.If):
                walk(s.body)
                walk(s.orelse)
            elif isinstance(s, ast.Try):
                walk(s.body)
                for h in s.handlers:
                    walk(h.body)
                walk(s.orelse)
                walk(s.finalbody)
            elif isinstance(s, ast.With):
                walk(s.body)
            elif isinstance(s, (ast.Raise, ast.Pass, ast.Continue, ast.Break, ast.Assert)):
                continue
            else:
                fail("statement of unrecognised form %s in %s" % (type(s).__name__, fn.name), rel, s)

    for n in ast.walk(fn):
        if isinstance(n, (ast.FunctionDef, ast.AsyncFunctionDef, ast.Lambda, ast.ClassDef)) and n is not fn:
            fail("nested definition in %s" % fn.name, rel, n)
        if isinstance(n, (ast.Yield, ast.YieldFrom, ast.Await, ast.NamedExpr, ast.Global, ast.Nonlocal)):
            fail("%s in %s" % (type(n).__name__, fn.name), rel, n)
    walk(fn.body)
    return out


def closure_shape(tree, cls, meth, rel):
    """shape of a method followed by the shapes of the methods of the same class it reaches through self.<m>(...)"""
    done, todo, own, helpers = [], [meth], [], []
    while todo:
        m = todo.pop(0)
        if m in done:
            continue
        done.append(m)
        fn = find_method(tree, cls, m, rel)
        if m == meth:
            own += method_shape(fn, rel)
        else:
            helpers.append(("enter", m, ""))
            helpers += method_shape(fn, rel)
        for n in ast.walk(fn):
            if isinstance(n, ast.Call) and isinstance(n.func, ast.Attribute) and isinstance(n.func.value, ast.Name) \
                    and n.func.value.id == "self":
                if n.func.attr not in done and n.func.attr not in todo:
                    todo.append(n.func.attr)
    return own, helpers


def repo_shapes(repo):
    rtree = ast.parse(open(os.path.join(repo, REPO_FILE), encoding="utf8").read())
    stree = ast.parse(open(os.path.join(repo, SPEC_FILE), encoding="utf8").read())
    g, gh = closure_shape(rtree, "DirectorySpecRepository", "get", REPO_FILE)
    ga, gah = closure_shape(rtree, "DirectorySpecRepository", "get_all", REPO_FILE)
    it, ith = closure_shape(stree, "Spec", "interpret", SPEC_FILE)
    return {"iso_repo_get": g, "iso_repo_get_all": ga, "iso_interpret": it, "iso_helpers": gh + gah + ith}


# ------------------------------------------------------------------------------ emit
def coq_str(s: str) -> str:
    for ch in s:
        if ord(ch) > 126 or ord(ch) < 32:
            raise TranslationError("non-ASCII name %r in the isolation lists" % s)
    return '"' + s.replace('"', '""') + '"'


def files_in_scope(repo):
    rels = []
    for pk in PACKAGES:
        root = os.path.join(repo, pk)
        if not os.path.isdir(root):
            raise TranslationError("package %s not found" % pk)
        for dp, dns, fns in os.walk(root):
            dns[:] = sorted(d for d in dns if d != "__pycache__")
            for fn in sorted(fns):
                if fn.endswith(".py"):
                    rels.append(os.path.relpath(os.path.join(dp, fn), repo))
    for e in EXTRA:
        if not os.path.isfile(os.path.join(repo, e)):
            raise TranslationError("anchored file %s not found" % e)
        rels.append(e)
    return sorted(dict.fromkeys(rels))


def gen(repo):
    repo = str(repo)
    rels = files_in_scope(repo)
    scans = [ModuleScan(repo, r) for r in rels]
    imports = sorted({(s.mod, i) for s in scans for i in s.imports})
    uses = sorted({(s.mod, u) for s in scans for u in s.uses})
    state = [(s.mod, q, k) for s in scans for (q, k) in s.state]
    shapes = repo_shapes(repo)
    L = ["(* GENERATED by tools/tr_isolation.py from %d files of simaple -- do not edit. *)" % len(rels),
         "From Coq Require Import List String.", "Import ListNotations.", "Open Scope string_scope.", ""]

    def lst(name, typ, items):
        L.append("Definition %s : list %s :=" % (name, typ))
        if not items:
            L.append("  [].")
        else:
            L.append("  [ " + ";\n    ".join(items) + " ].")
        L.append("")

    lst("iso_modules", "string", [coq_str(s.mod) for s in scans])
    lst("iso_imports", "(string * string)", ["(%s, %s)" % (coq_str(m), coq_str(i)) for m, i in imports])
    lst("iso_uses", "(string * string)", ["(%s, %s)" % (coq_str(m), coq_str(u)) for m, u in uses])
    lst("iso_state", "(string * string * string)", ["(%s, %s, %s)" % (coq_str(m), coq_str(q), coq_str(k)) for m, q, k in state])
    enums = sorted({(s.mod, e) for s in scans for e in s.enums})
    lst("iso_unsorted_enumerations", "(string * string)", ["(%s, %s)" % (coq_str(m), coq_str(e)) for m, e in enums])
    for k in ("iso_repo_get", "iso_repo_get_all", "iso_interpret", "iso_helpers"):
        lst(k, "(string * string * string)", ["(%s, %s, %s)" % tuple(coq_str(x) for x in t) for t in shapes[k]])
    meta = {"files": rels, "imports": len(imports), "distinct_imported": sorted({i for _m, i in imports if not i.startswith("simaple")}),
            "uses": uses, "state": state, "shapes": shapes, "unsorted_enumerations": enums}
    return {"Isolation.v": "\n".join(L)}, meta


if __name__ == "__main__":
    import json
    import sys
    files, meta = gen(sys.argv[1] if len(sys.argv) > 1 else "/repo")
    print(json.dumps({k: v for k, v in meta.items() if k != "files"}, indent=1, ensure_ascii=False))
