"""T-router: fail-closed SHAPE GUARD (not a translator) for the dispatcher plumbing that Model/Router.v, Model/Dispatch.v and
Model/Play.v describe line by line in their faithfulness notes:

    simaple/simulate/base.py            message_signature, TandemDispatcher.__call__ / includes, named_dispatcher,
                                        RouterDispatcher.__init__ / install / includes / __call__
    simaple/simulate/component/base.py  ContextDispatcher.__init__ / __call__ / includes
    simaple/simulate/timer.py           timer_delay_dispatcher, clock_view

Each function's AST (docstrings and comments aside) must equal the AST of the text recorded below - the text the hand-written
models were written against and the recorded-trace correspondences (H-iso, H-dispatch) validated.  Any edit is rejected: the models
are then no longer known to describe the code, which the check reports as a broken obligation (and searches the implementation for
a failing input as usual).  Unlike the translators (tr_history, tr_handlers, tr_engine, tr_play, tr_hint, tr_store) this adds no
theorem about generated code; it pins WHICH code the existing theorems were tied to.  It emits gen/RouterShape.v holding the digests,
so that the obligation shows up in the build.
"""
from __future__ import annotations

import ast
import hashlib
import os

BASE = "simaple/simulate/base.py"
COMP = "simaple/simulate/component/base.py"
TIMER = "simaple/simulate/timer.py"

REVIEWED = {
    (BASE, None, "message_signature"): '''
def message_signature(message: Union[Action, Event]) -> str:
    if len(message["method"]) == 0:
        return message["name"]
    return f"{message['name']}.{message['method']}"
''',
    (BASE, "TandemDispatcher", "__call__"): '''
def __call__(self, action: Action, store: Store) -> list[Event]:
    events = self._base_dispatcher(action, store)
    if any(event["tag"] == Tag.REJECT for event in events):
        return events
    for dispatcher in self._next_dispatchers:
        events += dispatcher(action, store)
    return events
''',
    (BASE, "TandemDispatcher", "includes"): '''
def includes(self, signature: str) -> bool:
    return self._base_dispatcher.includes(signature)
''',
    (BASE, None, "named_dispatcher"): '''
def named_dispatcher(direction: str):
    def decorator(dispatcher: Dispatcher):
        def _includes(signature: str) -> bool:
            return signature == direction
        def _init_store(store: Store) -> None:
            return
        setattr(dispatcher, "includes", _includes)
        setattr(dispatcher, "init_store", _init_store)
        return dispatcher
    return decorator
''',
    (BASE, "RouterDispatcher", "__init__"): '''
def __init__(self) -> None:
    self._dispatchers: list[Dispatcher] = []
    self._route_cache: dict[str, list[Dispatcher]] = defaultdict(list)
''',
    (BASE, "RouterDispatcher", "install"): '''
def install(self, dispatcher: Dispatcher):
    self._dispatchers.append(dispatcher)
''',
    (BASE, "RouterDispatcher", "includes"): '''
def includes(self, signature: str) -> bool:
    return signature in self._route_cache.keys()
''',
    (BASE, "RouterDispatcher", "__call__"): '''
def __call__(self, action: Action, store: Store) -> list[Event]:
    events = []
    signature = message_signature(action)
    if signature in self._route_cache:
        for dispatcher in self._route_cache[signature]:
            events += dispatcher(action, store)
        return events
    cache = []
    for dispatcher in self._dispatchers:
        if dispatcher.includes(signature):
            cache.append(dispatcher)
            events += dispatcher(action, store)
    self._route_cache[signature] = cache
    return events
''',
    (COMP, "ContextDispatcher", "__init__"): '''
def __init__(self, origin_name, origin_method, defined_action: Action, context: Dispatcher):
    self._defined_action = defined_action
    self._context = context
    self._signature = message_signature({"name": origin_name, "method": origin_method, "payload": None})
''',
    (COMP, "ContextDispatcher", "__call__"): '''
def __call__(self, action: Action, store: Store) -> list[Event]:
    if message_signature(action) != self._signature:
        return []
    return self._context(self._defined_action, store)
''',
    (COMP, "ContextDispatcher", "includes"): '''
def includes(self, signature: str) -> bool:
    return signature == self._signature
''',
    (TIMER, None, "timer_delay_dispatcher"): '''
@named_dispatcher("*.elapse")
def timer_delay_dispatcher(action: Action, store: Store) -> list[Event]:
    if action["method"] != "elapse" and action["name"] != "*":
        return []
    clock, set_clock = store.use_entity("global.time", Clock())
    clock.spent(action.get("payload"))
    set_clock(clock)
    return []
''',
    (TIMER, None, "clock_view"): '''
def clock_view(store: Store) -> float:
    time: float = store.read_entity("global.time", Clock()).current_time
    return time
''',
}


class Rejected(Exception):
    pass


def strip_doc(fn):
    fn.body = [s for s in fn.body if not (isinstance(s, ast.Expr) and isinstance(s.value, ast.Constant) and isinstance(s.value.value, str))] \
        or [ast.Pass()]
    for n in fn.body:
        if isinstance(n, ast.FunctionDef):
            strip_doc(n)
    return fn


def find(tree, cls, name):
    body = tree.body
    if cls is not None:
        cs = [n for n in body if isinstance(n, ast.ClassDef) and n.name == cls]
        if not cs:
            raise Rejected("class %s not found" % cls)
        body = cs[0].body
    fs = [n for n in body if isinstance(n, ast.FunctionDef) and n.name == name]
    if len(fs) != 1:
        raise Rejected("%s%s: %d definitions" % (cls + "." if cls else "", name, len(fs)))
    return fs[0]


def gen(repo):
    trees, rows = {}, []
    for (path, cls, name), text in REVIEWED.items():
        if path not in trees:
            trees[path] = ast.parse(open(os.path.join(str(repo), path), encoding="utf-8").read())
        got = ast.dump(strip_doc(find(trees[path], cls, name)))
        want = ast.dump(strip_doc(ast.parse(text).body[0]))
        who = "%s:%s%s" % (path, cls + "." if cls else "", name)
        if got != want:
            src = ast.unparse(find(trees[path], cls, name))
            raise Rejected("%s is not the reviewed text the dispatcher models were written against; it now reads: %s"
                           % (who, " ".join(src.split())[:400]))
        rows.append((who, hashlib.sha256(want.encode()).hexdigest()[:16]))
    text = ("(* GENERATED by tools/tr_router.py - do not edit.  A shape guard, not a translation: every function listed here equals, as an AST,\n"
            "   the reviewed text the hand-written dispatcher / router / timer models describe (digest of the AST dump). *)\n"
            "From Coq Require Import List String.\nImport ListNotations.\nOpen Scope string_scope.\n\n"
            "Definition reviewed_dispatcher_sources : list (string * string) :=\n  [%s].\n"
            % ";\n   ".join('("%s", "%s")' % r for r in rows))
    return {"RouterShape.v": text}, {"functions": [r[0] for r in rows], "kind": "shape guard"}


if __name__ == "__main__":
    import sys
    files, meta = gen(sys.argv[1] if len(sys.argv) > 1 else "/repo")
    print(files["RouterShape.v"])
