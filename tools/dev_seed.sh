#!/bin/bash
# dev_seed.sh <Cxx> <seed-name> : confirm a seeded change in its scratch worktree, store it under /verif/seeded/<name>,
# run the property's check against it in /repo, undo.   (development helper; not used by checks)
P=$1; NAME=${2:-$1}; WT=/tmp/wt_$NAME; OUT=/tmp/seed_$NAME
set -u
cd $WT || exit 1
git diff > /tmp/seed_$NAME.patch
[ -s /tmp/seed_$NAME.patch ] || { echo "no diff in $WT"; exit 1; }
export PYTHONPATH=$WT PYTHONDONTWRITEBYTECODE=1
echo "== demo with patch"; /venv/bin/python $OUT/demo.py > /tmp/seed_$NAME.with 2>&1; W=$?; tail -3 /tmp/seed_$NAME.with
git stash -q
echo "== demo without patch"; /venv/bin/python $OUT/demo.py > /tmp/seed_$NAME.without 2>&1; WO=$?; tail -2 /tmp/seed_$NAME.without
git stash pop -q
echo "== test suite with patch"; /venv/bin/python -m pytest -q -p no:cacheprovider --timeout=900 -x -q 2>&1 | tail -1 > /tmp/seed_$NAME.tests; cat /tmp/seed_$NAME.tests
unset PYTHONPATH
echo "demo_with=$W demo_without=$WO"
mkdir -p /verif/seeded/$NAME
cp /tmp/seed_$NAME.patch /verif/seeded/$NAME/patch.diff; cp $OUT/demo.py /verif/seeded/$NAME/demo.py
cp $OUT/meta.json /verif/seeded/$NAME/agent_meta.json 2>/dev/null
if [ -n "${SEED_VIA_WT:-}" ]; then
  # other work is reading /repo right now: run the check against the scratch worktree (which carries the patch) instead
  echo "== check $P against the patched worktree $WT (VERIF_REPO)"
  git -C /repo apply --check /verif/seeded/$NAME/patch.diff || { echo "patch does not apply to /repo"; exit 1; }
  cd /verif && VERIF_REPO=$WT ./check $P > /tmp/seed_$NAME.check 2>&1; RC=$?
  HOW="./check $P with VERIF_REPO=<scratch worktree carrying the patch> (patch verified to apply to /repo with git apply --check)"
else
  echo "== check $P against the patch in /repo"
  cd /repo && git apply /verif/seeded/$NAME/patch.diff || { echo "patch does not apply to /repo"; exit 1; }
  cd /verif && ./check $P > /tmp/seed_$NAME.check 2>&1; RC=$?
  git -C /repo checkout -- .
  HOW="./check $P on /repo with the patch applied, then git checkout"
fi
grep -c VIOLATION /tmp/seed_$NAME.check; tail -2 /tmp/seed_$NAME.check
echo "check_rc=$RC"
/venv/bin/python - <<PY
import json
m={"property":"$P","seed":"$NAME","demo_exit_with_patch":$W,"demo_exit_without_patch":$WO,
   "tests_with_patch":open("/tmp/seed_$NAME.tests").read().strip(),"check_exit_on_patched_repo":$RC,
   "check_tail":open("/tmp/seed_$NAME.check").read()[-600:],
   "ran":["demo.py in scratch worktree with and without the patch","full pytest suite in the worktree with the patch","$HOW"]}
try:
    a=json.load(open("/verif/seeded/$NAME/agent_meta.json")); m["summary"]=a.get("summary"); m["needs"]=a.get("needs"); m["files"]=a.get("files")
except Exception: pass
json.dump(m,open("/verif/seeded/$NAME/meta.json","w"),indent=1,ensure_ascii=False)
PY
