#!/bin/bash
# Build the framework offline: regenerate translator outputs from /repo and compile the
# whole Coq development once (checks then copy the .vo files and rebuild only what changed).
set -e
cd /verif
mkdir -p work evidence
./coq/build.sh /repo
grep -rn 'Admitted\|admit\.\|^Axiom\|^Parameter\|^Conjecture\|Unset Guard\|bypass_check' coq/theories && { echo "forbidden construct"; exit 1; } || true
echo setup ok
